(* C04 / C02 -- text payloads WITH numbering inside any brace depth: `name{a{$}b{{$$@-}c}${1:x{y}}}`.
   Extension of text_literal (proofs/TextProofs.v, TextLiteral.v) from payloads without an unescaped `$`
   to payloads in which literal runs alternate with counter tokens, `$#` placeholders and `${n}` fields
   at any depth of balanced inner braces.  This is the theorem behind repair 86fc68a (`p{{$}}`): the
   tokenizer's literal(), resumed inside nested braces, keeps reading the inner `}` as text. *)
From Coq Require Import ZArith List Bool Lia ZifyBool.
From Emmet Require Import lib.Base model.MarkupTokenizer model.MarkupParser model.MarkupConvert model.MarkupResolve
     proofs.ParserSpine proofs.TextSpec proofs.TextProofs proofs.TextParse proofs.TextLiteral proofs.NumberingProofs.
Local Open Scope N_scope.

(* ================================================================ SPEC: written payloads *)
(* what stands between two literal runs *)
Inductive item :=
| INum (n : nat) (at_sign reverse : bool) (digits : str)     (* `$`*n, `$`*n@, `$`*n@M, `$`*n@-, `$`*n@-M *)
| IPh                                                        (* `$#` *)
| IField (index : str) (ph : option str).                    (* `${n}`, `${n:placeholder}` *)

(* a payload: a literal run, then (item, literal run) any number of times; runs may be empty *)
Definition payload : Type := (str * list (item * str))%type.

Definition item_text (k : item) : str :=
  match k with
  | INum n a r ds => dollars n ++ modifier a r ds
  | IPh => [c_dollar; c_hash]
  | IField ix None => c_dollar :: c_lbrace :: ix ++ [c_rbrace]
  | IField ix (Some p) => c_dollar :: c_lbrace :: ix ++ c_colon :: p ++ [c_rbrace]
  end.
Fixpoint tail_text (l : list (item * str)) : str :=
  match l with
  | [] => []
  | (k, T) :: l' => item_text k ++ T ++ tail_text l'
  end.
Definition payload_text (P : payload) : str := fst P ++ tail_text (snd P).

(* [walk d T]: the brace depth after the literal run T read from depth d; None when T closes more braces
   than are open, has an unescaped `$` or ends in a dangling backslash.  A run need not be balanced. *)
Fixpoint walk (d : nat) (s : str) : option nat :=
  match s with
  | [] => Some d
  | c :: r =>
      if c =? c_bslash then match r with [] => None | _ :: r' => walk d r' end
      else if c =? c_dollar then None
      else if c =? c_lbrace then walk (S d) r
      else if c =? c_rbrace then match d with O => None | S d' => walk d' r end
      else walk d r
  end.

(* the placeholder of `${n:...}` is read by counting braces, escapes do not count there *)
Fixpoint rawbal (d : nat) (s : str) : bool :=
  match s with
  | [] => Nat.eqb d 0
  | c :: r =>
      if c =? c_lbrace then rawbal (S d) r
      else if c =? c_rbrace then match d with O => false | S d' => rawbal d' r end
      else rawbal d r
  end.

Definition is_nil {A} (l : list A) : bool := match l with [] => true | _ => false end.

(* [item_ok k nx]: the item is written in one of the documented forms and the character [nx] that follows
   it cannot be read as its continuation (`$` after `$`, a digit after `@3`, `{` or `#` after a single `$`...) *)
Definition item_ok (k : item) (nx : char) : bool :=
  match k with
  | INum n a r ds =>
      negb (Nat.eqb n 0) && forallb is_number ds && (a || (negb r && is_nil ds))
      && negb (is_number nx)
      && (a || (negb (nx =? c_dollar) && negb (nx =? c_at)))
      && (negb a || negb (is_nil ds) || r || (negb (nx =? c_caret) && negb (nx =? c_dash)))
      && (negb (Nat.eqb n 1) || a || (negb (nx =? c_lbrace) && negb (nx =? c_hash)))
  | IPh => true
  | IField ix ph =>
      negb (is_nil ix) && forallb is_number ix
      && match ph with None => true | Some p => rawbal 0 p end
  end.

(* [tail_ok d l]: read from depth d, every run keeps the depth >= 0, every item is well written, and the
   whole closes exactly the d braces that are open -- the rendering is balanced modulo escapes *)
Fixpoint tail_ok (d : nat) (l : list (item * str)) : bool :=
  match l with
  | [] => Nat.eqb d 0
  | (k, T) :: l' =>
      item_ok k (hd c_rbrace (T ++ tail_text l'))
      && match walk d T with Some d' => tail_ok d' l' | None => false end
  end.
Definition payload_ok (P : payload) : bool :=
  match walk 0 (fst P) with Some d => tail_ok d (snd P) | None => false end.

(* the tokens of a payload written at [pos]: a literal run gives its leading white space and one
   literal holding the rest, unescaped (text_tokens); an item gives one token over its whole form *)
Definition item_kind (k : item) : tkind :=
  match k with
  | INum n a r ds => TRepeaterNumber (N.of_nat n) r (form_base ds) 0
  | IPh => TRepeaterPlaceholder
  | IField ix ph => TField (match ph with Some p => p | None => [] end) (int_of_str ix)
  end.
Fixpoint tail_tokens (pos : nat) (l : list (item * str)) : list token :=
  match l with
  | [] => []
  | (k, T) :: l' =>
      let e := (pos + length (item_text k))%nat in
      mkTok (item_kind k) pos e :: text_tokens e T ++ tail_tokens (e + length T) l'
  end.
Definition payload_tokens (pos : nat) (P : payload) : list token :=
  text_tokens pos (fst P) ++ tail_tokens (pos + length (fst P)) (snd P).

(* ================================================================ the literal scanner on one run *)
(* what may follow a run: an item (`$`), or the brace that closes the text when the depth is back to 0 *)
Definition stops (d : nat) (rest : str) : Prop :=
  match rest with
  | c :: _ => c = c_dollar \/ (c = c_rbrace /\ d = O)
  | [] => False
  end.

Lemma lit_at_stop d es prev attr rest :
  (0 < es)%Z -> stops d rest ->
  lit None attr es (es + Z.of_nat d) prev false rest = ([], O, (es + Z.of_nat d)%Z).
Proof.
  intros Hes Hs. destruct rest as [|c rest']; [contradiction|]. cbn [stops] in Hs.
  rewrite lit_cons. cbv beta zeta.
  assert (Hexpr : truthy (es + Z.of_nat d) = true) by (apply truthy_pos; lia).
  destruct Hs as [->|[-> ->]].
  - replace (c_dollar =? c_bslash) with false by reflexivity.
    replace (c_dollar =? c_slash) with false by reflexivity. cbn [andb].
    replace (c_dollar =? c_dollar) with true by reflexivity. cbn [orb]. reflexivity.
  - replace (c_rbrace =? c_bslash) with false by reflexivity.
    replace (c_rbrace =? c_slash) with false by reflexivity. cbn [andb].
    rewrite no_operator_in_expr by exact Hexpr.
    replace (c_rbrace =? c_dollar) with false by reflexivity. cbn [orb].
    rewrite (truthy_pos es Hes).
    replace (c_rbrace =? c_lbrace) with false by reflexivity.
    replace (c_rbrace =? c_rbrace) with true by reflexivity.
    replace (es + Z.of_nat 0)%Z with es by lia.
    rewrite Z.ltb_irrefl. reflexivity.
Qed.

(* Inside `{`, [d] braces above the text's own depth [es]: the scanner consumes the whole run -- inner
   braces in both directions, operators, quotes, `*`, white space -- and arrives at depth [d'] *)
Lemma lit_run_aux : forall n T, (length T <= n)%nat -> forall d d' es prev attr rest,
  (0 < es)%Z -> walk d T = Some d' -> stops d' rest ->
  lit None attr es (es + Z.of_nat d) prev false (T ++ rest) = (unescape T, length T, (es + Z.of_nat d')%Z).
Proof.
  induction n as [|n IH]; intros T Hlen d d' es prev attr rest Hes Hw Hs.
  - destruct T; [|cbn [length] in Hlen; lia].
    cbn [walk] in Hw. injection Hw as <-. cbn [app unescape length]. apply lit_at_stop; assumption.
  - destruct T as [|c r].
    { apply (IH [] (Nat.le_0_l _)); assumption. }
    cbn [length] in Hlen. cbn [walk] in Hw. cbn [app].
    rewrite lit_cons. cbv beta zeta.
    assert (Hexpr : truthy (es + Z.of_nat d) = true) by (apply truthy_pos; lia).
    destruct (c =? c_bslash) eqn:Ebs.
    + destruct r as [|c2 r']; [discriminate|].
      cbn [app]. rewrite lit_cons. cbv beta zeta. cbn [length] in Hlen.
      rewrite (IH r' ltac:(lia) d d' es (Some c2) attr rest Hes Hw Hs).
      cbn [unescape]. rewrite Ebs. cbn [length]. reflexivity.
    + destruct (c =? c_dollar) eqn:Edl; [discriminate|].
      rewrite Hexpr. cbn [negb andb]. rewrite !andb_false_r. cbn [andb].
      rewrite no_operator_in_expr by exact Hexpr. cbn [orb].
      rewrite (truthy_pos es Hes).
      cbn [unescape]. rewrite Ebs. cbn [length].
      destruct (c =? c_lbrace) eqn:Elb.
      * replace (es + Z.of_nat d + 1)%Z with (es + Z.of_nat (S d))%Z by lia.
        rewrite (IH r ltac:(lia) (S d) d' es (Some c) attr rest Hes Hw Hs). reflexivity.
      * destruct (c =? c_rbrace) eqn:Erb.
        -- destruct d as [|d0]; [discriminate|].
           replace (es <? es + Z.of_nat (S d0))%Z with true by lia.
           replace (es + Z.of_nat (S d0) - 1)%Z with (es + Z.of_nat d0)%Z by lia.
           rewrite (IH r ltac:(lia) d0 d' es (Some c) attr rest Hes Hw Hs). reflexivity.
        -- rewrite (IH r ltac:(lia) d d' es (Some c) attr rest Hes Hw Hs). reflexivity.
Qed.

Lemma lit_run T d d' es prev attr rest :
  (0 < es)%Z -> walk d T = Some d' -> stops d' rest ->
  lit None attr es (es + Z.of_nat d) prev false (T ++ rest) = (unescape T, length T, (es + Z.of_nat d')%Z).
Proof. apply (lit_run_aux (length T)). lia. Qed.

(* [bal] is the special case "the run closes everything" *)
Lemma bal_walk : forall T d, bal d T = true <-> walk d T = Some O.
Proof.
  assert (H : forall n T, (length T <= n)%nat -> forall d, bal d T = true <-> walk d T = Some O).
  { induction n as [|n IH]; intros T Hlen d.
    - destruct T; [|cbn [length] in Hlen; lia]. cbn [bal walk]. rewrite Nat.eqb_eq. split; congruence.
    - destruct T as [|c r]; [apply (IH [] (Nat.le_0_l _))|]. cbn [length] in Hlen. cbn [bal walk].
      destruct (c =? c_bslash).
      + destruct r as [|c2 r']; [split; discriminate|]. cbn [length] in Hlen. apply IH. lia.
      + destruct (c =? c_dollar); [split; discriminate|].
        destruct (c =? c_lbrace); [apply IH; lia|].
        destruct (c =? c_rbrace); [|apply IH; lia].
        destruct d; [split; discriminate|apply IH; lia]. }
  intros T d. apply (H (length T)). lia.
Qed.

(* ================================================================ the main loop on one run *)
(* context inside the text, [d] inner braces open *)
Definition ectx (g a : Z) (d : nat) : tctx := mkCtx g a (1 + Z.of_nat d) None.

Lemma ectx_truthy g a d : truthy (cexpr (ectx g a d)) = true.
Proof. apply truthy_pos. cbn [ectx cexpr]. lia. Qed.

Lemma walk_ws : forall W B d, Forall (fun c => is_space c = true) W -> walk d (W ++ B) = walk d B.
Proof.
  induction W as [|w W IH]; intros B d HW; [reflexivity|].
  inversion HW as [|x y Hw HW']; subst.
  destruct (space_not_special w Hw) as [H1 [H2 [H3 H4]]].
  cbn [app walk]. rewrite H1, H2, H3, H4. apply IH. assumption.
Qed.

Lemma walk_first_not_dollar b B d d' : walk d (b :: B) = Some d' -> (b =? c_dollar) = false.
Proof.
  cbn [walk]. destruct (b =? c_bslash) eqn:E1.
  - apply N.eqb_eq in E1. subst b. reflexivity.
  - destruct (b =? c_dollar); [discriminate|reflexivity].
Qed.

(* the part of a run after its leading white space is ONE literal token, whatever the depth *)
Lemma toks_body_d (b : N) (B rest : list N) g a d d' prev pos :
  is_space b = false -> walk d (b :: B) = Some d' -> stops d' rest ->
  toks 0 (ectx g a d) prev pos ((b :: B) ++ rest) =
    tcons [mkTok (TLiteral (unescape (b :: B))) pos (pos + length (b :: B))]
          (toks 0 (ectx g a d') (last_prev prev (b :: B)) (pos + length (b :: B)) rest).
Proof.
  intros Hs Hw Hst. cbn [app]. rewrite last_prev_cons. cbn [length].
  apply toks_token.
  pose proof (walk_first_not_dollar b B d d' Hw) as Hd.
  pose proof (lit_run (b :: B) d d' 1 prev a rest ltac:(lia) Hw Hst) as Hl.
  cbn [length app] in Hl.
  assert (Hmin : Z.min (cexpr (ectx g a d)) 1 = 1%Z) by (cbn [ectx cexpr]; lia).
  rewrite (consume_plain (ectx g a d) prev b (B ++ rest) Hd Hs
             (no_repeater_in_expr b g a _ None (ectx_truthy g a d)) (unescape (b :: B)) (length B) (1 + Z.of_nat d')%Z).
  - reflexivity.
  - rewrite Hmin. cbn [ectx cquote cattr cexpr]. exact Hl.
Qed.

(* a whole run: leading white space (if any), then one literal *)
Lemma toks_run T rest g a d d' prev pos :
  walk d T = Some d' -> stops d' rest ->
  toks 0 (ectx g a d) prev pos (T ++ rest) =
    tcons (text_tokens pos T) (toks 0 (ectx g a d') (last_prev prev T) (pos + length T) rest).
Proof.
  intros Hw Hst. unfold text_tokens.
  set (W := ws_part T). set (B := body_part T).
  assert (HW : Forall (fun c => is_space c = true) W) by apply span_all.
  assert (HB : match B with [] => True | x :: _ => is_space x = false end) by apply span_stop.
  assert (HT : W ++ B = T) by apply firstn_skipn.
  clearbody W B.
  rewrite <- HT in Hw. rewrite walk_ws in Hw by exact HW.
  rewrite <- HT at 1. rewrite <- app_assoc.
  assert (HlenT : length T = (length W + length B)%nat) by (rewrite <- HT, app_length; reflexivity).
  assert (Hprev : last_prev prev T = last_prev (last_prev prev W) B) by (rewrite <- HT; apply last_prev_app).
  rewrite Hprev, HlenT.
  assert (Hnsp : forall x r, rest = x :: r -> is_space x = false).
  { intros x r ->. cbn [stops] in Hst. destruct Hst as [->|[-> _]]; reflexivity. }
  destruct W as [|w W'].
  - cbn [app length]. rewrite Nat.add_0_r. unfold last_prev at 2. cbn [rev].
    destruct B as [|b B'].
    + cbn [app length]. rewrite Nat.add_0_r. cbn [walk] in Hw. injection Hw as <-. symmetry. apply tcons_nil.
    + apply (toks_body_d b B' rest g a d d' prev pos HB Hw Hst).
  - etransitivity.
    { apply toks_ws; [exact HW| |apply ectx_truthy].
      destruct B as [|b B']; [|exact HB]. cbn [app]. destruct rest as [|x r]; [exact I|]. apply (Hnsp x r eq_refl). }
    destruct B as [|b B'].
    + cbn [app length]. rewrite Nat.add_0_r. cbn [walk] in Hw. injection Hw as <-. reflexivity.
    + rewrite tcons_app. f_equal.
      etransitivity; [apply (toks_body_d b B' rest g a d d' _ _ HB Hw Hst)|].
      rewrite Nat.add_assoc. reflexivity.
Qed.

(* ================================================================ one item *)
Lemma field_not_brace ctx (c2 : N) (r : list N) : (c2 =? c_lbrace) = false -> field ctx (c_dollar :: c2 :: r) = CNone.
Proof. intros H. unfold field. destruct (truthy (cexpr ctx) || truthy (cattr ctx)); [|reflexivity].
  rewrite H, andb_false_r. reflexivity. Qed.
Lemma rp_not_hash (c2 : N) (r : list N) : (c2 =? c_hash) = false -> repeater_placeholder (c_dollar :: c2 :: r) = CNone.
Proof. intros H. unfold repeater_placeholder. rewrite H, andb_false_r. reflexivity. Qed.

Lemma forallb_all_digits ds : forallb is_number ds = true -> all_digits ds.
Proof. intros H. unfold all_digits. apply Forall_forall. rewrite forallb_forall in H. exact H. Qed.

(* int() of a non-empty string of decimal characters is a number *)
Lemma digit_value_some c : is_number c = true -> exists v, digit_value c = Some v.
Proof.
  unfold is_number, digit_value. intros H. apply existsb_exists in H. destruct H as [z [Hin Hz]].
  destruct (find (fun z0 => (z0 <=? c) && (c <? z0 + 10)) decimal_zeros) as [z'|] eqn:E; [eexists; reflexivity|].
  pose proof (find_none _ _ E z Hin) as Hn. cbv beta in Hn. rewrite Hz in Hn. discriminate.
Qed.
Lemma int_of_digits_some : forall ds acc, all_digits ds -> exists v, int_of_digits_acc acc ds = Some v.
Proof.
  induction ds as [|c ds IH]; intros acc H; [eexists; reflexivity|].
  inversion H as [|x y Hc Hr]; subst. cbn [int_of_digits_acc].
  destruct (digit_value_some c Hc) as [v ->]. apply IH. exact Hr.
Qed.
Lemma int_of_str_some ds : all_digits ds -> ds <> [] -> exists v, int_of_str ds = Some v.
Proof. intros H Hne. destruct ds as [|c r]; [congruence|]. unfold int_of_str. apply int_of_digits_some. exact H. Qed.

(* consume_placeholder on a raw-balanced placeholder followed by the closing brace of the field *)
Lemma placeholder_rawbal : forall p stack off rest,
  rawbal (length stack) p = true ->
  placeholder (p ++ c_rbrace :: rest) stack off = ((off + length p)%nat, []).
Proof.
  induction p as [|c p IH]; intros stack off rest H.
  - cbn [rawbal] in H. apply Nat.eqb_eq in H. destruct stack; [|discriminate].
    cbn [app placeholder length]. replace (c_rbrace =? c_lbrace) with false by reflexivity.
    replace (c_rbrace =? c_rbrace) with true by reflexivity. rewrite Nat.add_0_r. reflexivity.
  - cbn [rawbal] in H. cbn [app placeholder length].
    destruct (c =? c_lbrace).
    + rewrite (IH (S off :: stack) (S off) rest H). f_equal. lia.
    + destruct (c =? c_rbrace).
      * destruct stack as [|o st]; [discriminate|]. cbn [length] in H.
        rewrite (IH st (S off) rest H). f_equal. lia.
      * rewrite (IH stack (S off) rest H). f_equal. lia.
Qed.

Lemma is_number_not_colon_brace c : is_number c = true -> (c =? c_colon) = false /\ (c =? c_rbrace) = false.
Proof. intros H. split; apply N.eqb_neq; intros ->; vm_compute in H; discriminate. Qed.

Lemma firstn_app_exact {A} (a b : list A) : firstn (length a) (a ++ b) = a.
Proof. rewrite firstn_app, firstn_all, Nat.sub_diag. cbn [firstn]. apply app_nil_r. Qed.
Lemma skipn_app_exact {A} (a b : list A) : skipn (length a) (a ++ b) = b.
Proof. rewrite skipn_app, skipn_all, Nat.sub_diag. reflexivity. Qed.

Lemma field_index ctx ix rest :
  truthy (cexpr ctx) = true -> all_digits ix -> ix <> [] ->
  field ctx (c_dollar :: c_lbrace :: ix ++ c_rbrace :: rest) = CTok (TField [] (int_of_str ix)) (2 + length ix + 1).
Proof.
  intros He Hd Hne. unfold field. rewrite He. cbn [orb].
  replace (c_dollar =? c_dollar) with true by reflexivity. replace (c_lbrace =? c_lbrace) with true by reflexivity.
  cbn [andb].
  rewrite (span_digits ix (c_rbrace :: rest) Hd eq_refl).
  destruct ix as [|i0 ix']; [congruence|]. cbn [length].
  change (S (length ix')) with (length (i0 :: ix')).
  rewrite skipn_app_exact, firstn_app_exact. cbn [peek_is].
  replace (c_rbrace =? c_colon) with false by reflexivity.
  rewrite skipn_app_exact. cbn [peek_is]. replace (c_rbrace =? c_rbrace) with true by reflexivity. reflexivity.
Qed.

Lemma field_index_ph ctx ix p rest :
  truthy (cexpr ctx) = true -> all_digits ix -> ix <> [] -> rawbal 0 p = true ->
  field ctx (c_dollar :: c_lbrace :: ix ++ c_colon :: p ++ c_rbrace :: rest) =
    CTok (TField p (int_of_str ix)) (2 + (length ix + 1 + length p) + 1).
Proof.
  intros He Hd Hne Hp. unfold field. rewrite He. cbn [orb].
  replace (c_dollar =? c_dollar) with true by reflexivity. replace (c_lbrace =? c_lbrace) with true by reflexivity.
  cbn [andb].
  rewrite (span_digits ix (c_colon :: p ++ c_rbrace :: rest) Hd eq_refl).
  destruct ix as [|i0 ix']; [congruence|]. cbn [length].
  change (S (length ix')) with (length (i0 :: ix')).
  rewrite skipn_app_exact, firstn_app_exact. cbn [peek_is].
  replace (c_colon =? c_colon) with true by reflexivity. cbn [tl].
  rewrite (placeholder_rawbal p [] O rest Hp). cbn [Nat.add].
  rewrite firstn_app_exact.
  replace (length (i0 :: ix') + 1 + length p)%nat with (length ((i0 :: ix') ++ c_colon :: p)).
  2:{ rewrite app_length. cbn [length]. lia. }
  replace ((i0 :: ix') ++ c_colon :: p ++ c_rbrace :: rest) with (((i0 :: ix') ++ c_colon :: p) ++ c_rbrace :: rest).
  2:{ rewrite <- app_assoc. reflexivity. }
  rewrite skipn_app_exact. cbn [peek_is]. replace (c_rbrace =? c_rbrace) with true by reflexivity. reflexivity.
Qed.

(* every item starts with `$` *)
Definition item_body (k : item) : str := tl (item_text k).
Lemma item_text_dollar k nx : item_ok k nx = true -> item_text k = c_dollar :: item_body k.
Proof.
  destruct k as [n a r ds| |ix [p|]]; try reflexivity.
  cbn [item_ok]. intros H. destruct n as [|n']; [discriminate|]. reflexivity.
Qed.
Lemma item_len k nx : item_ok k nx = true -> length (item_text k) = S (length (item_body k)).
Proof. intros H. rewrite (item_text_dollar k nx H). reflexivity. Qed.

Ltac split_andb H :=
  repeat match type of H with
         | (_ && _) = true => let H1 := fresh H in apply andb_prop in H; destruct H as [H H1]
         end.

(* the tokenizer reads exactly the item, whatever the depth, and leaves the context alone *)
Lemma consume_item k nx rest g a d prev :
  item_ok k nx = true ->
  consume (ectx g a d) prev (item_text k ++ nx :: rest) =
    (CTok (item_kind k) (length (item_text k)), ectx g a d).
Proof.
  intros Hok. pose proof (ectx_truthy g a d) as He.
  assert (Hfirst : forall c n, (orelse (field (ectx g a d) (item_text k ++ nx :: rest)) (fun _ =>
                     orelse (repeater_placeholder (item_text k ++ nx :: rest)) (fun _ =>
                     orelse (repeater_number (item_text k ++ nx :: rest)) (fun _ =>
                     orelse (repeater (ectx g a d) (item_text k ++ nx :: rest)) (fun _ =>
                     white_space (item_text k ++ nx :: rest)))))) = CTok c n ->
                   consume (ectx g a d) prev (item_text k ++ nx :: rest) = (CTok c n, ectx g a d)).
  { intros c n H. unfold consume. rewrite H. reflexivity. }
  apply Hfirst. clear Hfirst.
  destruct k as [n at_ r ds| |ix [p|]].
  - (* counter *)
    cbn [item_ok] in Hok. split_andb Hok.
    apply negb_true_iff in Hok. apply Nat.eqb_neq in Hok.
    pose proof (forallb_all_digits ds Hok5) as Hd.
    apply negb_true_iff in Hok3.
    assert (Hends : ends_form at_ r ds (nx :: rest)).
    { unfold ends_form. cbn [peek_p peek_is]. split; [exact Hok3|]. split; [|split].
      - intros ->. cbn [orb] in Hok2. split_andb Hok2. split; apply negb_true_iff; assumption.
      - intros -> -> ->. cbn [negb is_nil orb] in Hok1. split_andb Hok1. split; apply negb_true_iff; assumption.
      - intros ->. cbn [orb] in Hok4. split_andb Hok4. apply negb_true_iff in Hok4.
        split; [exact Hok4|]. destruct ds; [reflexivity|discriminate]. }
    assert (Hshape : exists c2 r', item_text (INum n at_ r ds) ++ nx :: rest = c_dollar :: c2 :: r'
                                   /\ (c2 =? c_lbrace) = false /\ (c2 =? c_hash) = false).
    { cbn [item_text]. destruct n as [|[|n'']]; [congruence| |].
      - destruct at_.
        + cbn [dollars repeat modifier app]. eexists. eexists. split; [reflexivity|]. split; reflexivity.
        + cbn [dollars repeat modifier app]. eexists. eexists. split; [reflexivity|].
          cbn [Nat.eqb negb orb] in Hok0. split_andb Hok0. split; apply negb_true_iff; assumption.
      - cbn [dollars repeat app]. eexists. eexists. split; [reflexivity|]. split; reflexivity. }
    destruct Hshape as [c2 [r' [Es [Hb Hh]]]].
    assert (Hf : field (ectx g a d) (item_text (INum n at_ r ds) ++ nx :: rest) = CNone)
      by (rewrite Es; apply field_not_brace; exact Hb).
    assert (Hp : repeater_placeholder (item_text (INum n at_ r ds) ++ nx :: rest) = CNone)
      by (rewrite Es; apply rp_not_hash; exact Hh).
    rewrite Hf. cbn [orelse]. rewrite Hp. cbn [orelse].
    cbn [item_text]. rewrite <- app_assoc.
    rewrite (repeater_number_form n at_ r ds (nx :: rest) ltac:(lia) Hd Hends). cbn [orelse].
    cbn [item_kind]. unfold form_base. rewrite app_length. unfold dollars. rewrite repeat_length. reflexivity.
  - (* `$#` *)
    cbn [item_text app]. rewrite field_not_brace by reflexivity. cbn [orelse]. reflexivity.
  - (* `${n:placeholder}` *)
    cbn [item_ok] in Hok. split_andb Hok.
    pose proof (forallb_all_digits ix Hok1) as Hd.
    assert (Hne : ix <> []) by (destruct ix; [discriminate|congruence]).
    cbn [item_text]. cbn [app]. rewrite <- !app_assoc. cbn [app]. rewrite <- !app_assoc. cbn [app].
    rewrite (field_index_ph _ ix p (nx :: rest) He Hd Hne Hok0). cbn [orelse item_kind].
    f_equal. cbn [length]. rewrite !app_length. cbn [length]. rewrite app_length. cbn [length]. lia.
  - (* `${n}` *)
    cbn [item_ok] in Hok. split_andb Hok.
    pose proof (forallb_all_digits ix Hok1) as Hd.
    assert (Hne : ix <> []) by (destruct ix; [discriminate|congruence]).
    cbn [item_text]. cbn [app]. rewrite <- !app_assoc. cbn [app].
    rewrite (field_index _ ix (nx :: rest) He Hd Hne). cbn [orelse item_kind].
    f_equal. cbn [length]. rewrite !app_length. cbn [length]. lia.
Qed.

(* ================================================================ the main loop on a whole payload *)
Lemma hd_app_default {A} (x : A) (l r : list A) : l ++ x :: r = hd x l :: tl (l ++ x :: r).
Proof. destruct l; reflexivity. Qed.

Lemma tail_ok_stops d l rest : tail_ok d l = true -> stops d (tail_text l ++ c_rbrace :: rest).
Proof.
  destruct l as [|[k T] l'].
  - cbn [tail_ok tail_text app stops]. intros H. apply Nat.eqb_eq in H. right. split; [reflexivity|exact H].
  - cbn [tail_ok tail_text]. intros H. apply andb_prop in H. destruct H as [Hk _].
    rewrite (item_text_dollar k _ Hk). cbn [app stops]. left. reflexivity.
Qed.

Lemma toks_tail : forall l d g a prev pos rest,
  tail_ok d l = true ->
  toks 0 (ectx g a d) prev pos (tail_text l ++ c_rbrace :: rest) =
    tcons (tail_tokens pos l)
          (toks 0 (ectx g a 0) (last_prev prev (tail_text l)) (pos + length (tail_text l)) (c_rbrace :: rest)).
Proof.
  induction l as [|[k T] l' IH]; intros d g a prev pos rest Hok.
  - cbn [tail_ok] in Hok. apply Nat.eqb_eq in Hok. subst d.
    cbn [tail_text app tail_tokens length]. rewrite Nat.add_0_r. unfold last_prev. cbn [rev].
    symmetry. apply tcons_nil.
  - cbn [tail_ok] in Hok. apply andb_prop in Hok. destruct Hok as [Hk Hrest].
    destruct (walk d T) as [d'|] eqn:Hw; [|discriminate].
    cbn [tail_text tail_tokens]. rewrite <- !app_assoc.
    (* the item *)
    set (after := T ++ tail_text l' ++ c_rbrace :: rest).
    assert (Hafter : after = hd c_rbrace (T ++ tail_text l') :: tl after).
    { unfold after. rewrite app_assoc. apply hd_app_default. }
    set (nx := hd c_rbrace (T ++ tail_text l')) in *.
    pose proof (consume_item k nx (tl after) g a d prev Hk) as Hc.
    rewrite <- Hafter in Hc.
    pose proof (item_text_dollar k nx Hk) as Ed. pose proof (item_len k nx Hk) as El.
    rewrite El in Hc. rewrite Ed in Hc |- *. cbn [app] in Hc |- *.
    rewrite (toks_token _ _ _ _ _ _ _ _ Hc).
    cbn [length]. change (mkTok (item_kind k) pos (pos + S (length (item_body k))) :: ?x) with ([mkTok (item_kind k) pos (pos + S (length (item_body k)))] ++ x).
    cbn [app]. change (mkTok (item_kind k) pos (pos + S (length (item_body k))) ::
                       text_tokens (pos + S (length (item_body k))) T ++
                       tail_tokens (pos + S (length (item_body k)) + length T) l')
      with ([mkTok (item_kind k) pos (pos + S (length (item_body k)))] ++
            (text_tokens (pos + S (length (item_body k))) T ++
             tail_tokens (pos + S (length (item_body k)) + length T) l')).
    rewrite tcons_app. f_equal.
    (* the run *)
    unfold after.
    rewrite (toks_run T (tail_text l' ++ c_rbrace :: rest) g a d d' _ _ Hw (tail_ok_stops d' l' rest Hrest)).
    rewrite tcons_app. f_equal.
    (* the rest *)
    rewrite (IH d' g a _ _ rest Hrest). f_equal. f_equal.
    + change (c_dollar :: item_body k ++ T ++ tail_text l') with ((c_dollar :: item_body k) ++ T ++ tail_text l').
      rewrite !last_prev_app. rewrite last_prev_cons. reflexivity.
    + rewrite !app_length. unfold char. lia.
Qed.

(* the whole payload between the braces of the text *)
Lemma toks_payload P g a prev pos rest :
  payload_ok P = true ->
  toks 0 (ectx g a 0) prev pos (payload_text P ++ c_rbrace :: rest) =
    tcons (payload_tokens pos P)
          (toks 0 (ectx g a 0) (last_prev prev (payload_text P)) (pos + length (payload_text P)) (c_rbrace :: rest)).
Proof.
  destruct P as [T0 l]. unfold payload_ok, payload_text, payload_tokens. cbn [fst snd]. intros Hok.
  destruct (walk 0 T0) as [d|] eqn:Hw; [|discriminate].
  rewrite <- app_assoc.
  rewrite (toks_run T0 (tail_text l ++ c_rbrace :: rest) g a 0 d prev pos Hw (tail_ok_stops d l rest Hok)).
  rewrite tcons_app. f_equal.
  rewrite (toks_tail l d g a _ _ rest Hok). f_equal. f_equal.
  - rewrite last_prev_app. reflexivity.
  - rewrite app_length. lia.
Qed.

(* ================================================================ tokenize (name ++ "{" ++ payload_text P ++ "}") *)
Definition nested_abbr_tokens (name : str) (P : payload) : list token :=
  let n := length name in
  [mkTok (TLiteral name) 0 n; mkTok (TBracket true BExpr) n (n + 1)]
  ++ payload_tokens (n + 1) P
  ++ [mkTok (TBracket false BExpr) (n + 1 + length (payload_text P)) (n + 1 + length (payload_text P) + 1)].

Theorem tokenize_nested name P :
  name_ok name -> payload_ok P = true ->
  tokenize (name ++ c_lbrace :: payload_text P ++ [c_rbrace]) = TOk (nested_abbr_tokens name P).
Proof.
  intros [Hne HF] Hb. unfold tokenize, nested_abbr_tokens.
  destruct name as [|c name']; [congruence|].
  inversion HF as [|x y Hc HF']; subst.
  destruct (name_char_facts c Hc) as [H1 [H2 [H3 [H4 [H5 [H6 H7]]]]]].
  cbn [app]. etransitivity.
  { apply toks_token.
    apply (consume_plain ctx0 None c (name' ++ c_lbrace :: payload_text P ++ [c_rbrace]) H2 H4).
    - unfold is_allowed_repeater. rewrite H5. reflexivity.
    - exact (lit_name (c :: name') None (payload_text P ++ [c_rbrace]) HF). }
  cbn [cgroup cattr cquote ctx0].
  etransitivity.
  { apply f_equal. apply (toks_token (mkCtx 0 0 0 None) _ _ c_lbrace [] (payload_text P ++ [c_rbrace])).
    apply consume_bracket; try reflexivity.
    eexists. apply lit_stops_at_lbrace. }
  cbn [is_open_bracket cgroup cattr cexpr cquote length].
  change (c_lbrace =? c_lbrace) with true. cbn [orb].
  change (mkCtx 0 0 (0 + 1) None) with (ectx 0 0 0).
  etransitivity.
  { apply f_equal. apply f_equal. apply (toks_payload P 0 0 _ _ [] Hb). }
  etransitivity.
  { apply f_equal. apply f_equal. apply f_equal.
    apply (toks_token (ectx 0 0 0) _ _ c_rbrace [] []).
    apply (consume_bracket (mkCtx 0 0 1 None)); try reflexivity.
    eexists. apply lit_stops_at_rbrace. }
  cbn [toks tcons app length].
  repeat (f_equal; try lia).
Qed.

(* ================================================================ the parser: one element, value = the payload's tokens *)
Lemma tail_tokens_plain : forall l pos, Forall not_expr_bracket (tail_tokens pos l).
Proof.
  induction l as [|[k T] l' IH]; intros pos; [constructor|].
  cbn [tail_tokens]. constructor.
  - unfold not_expr_bracket. cbn [tk]. destruct k as [n a r ds| |ix ph]; exact I.
  - apply Forall_app. split; [apply text_tokens_plain|apply IH].
Qed.
Lemma payload_tokens_plain pos P : Forall not_expr_bracket (payload_tokens pos P).
Proof. unfold payload_tokens. apply Forall_app. split; [apply text_tokens_plain|apply tail_tokens_plain]. Qed.

(* ================================================================ SPEC: the value of a payload *)
(* a value is a list of strings and tabstop fields; neighbouring strings are one string *)
Inductive vpiece := PText (s : str) | PField (i : N) (name : str).

Fixpoint join_pieces (ps : list vpiece) : list vtok :=
  match ps with
  | [] => []
  | PField i n :: r => VField i n :: join_pieces r
  | PText s :: r =>
      match join_pieces r with
      | VStr s' :: r' => VStr (s ++ s') :: r'
      | r' => VStr s :: r'
      end
  end.

(* a literal run stands for itself with escapes resolved (inner braces kept), a counter for the counter in
   force under the repeater stack [reps] (C02_numbering_value), `$#` for the wrapped text -- none here --,
   a field for itself *)
Definition lit_piece (T : str) : list vpiece := match T with [] => [] | _ => [PText (unescape T)] end.
Definition item_piece (reps : list rep) (k : item) : vpiece :=
  match k with
  | INum n _ r ds => PText (pad n (str_of_Z (counter_in_force r (form_base ds) reps)))
  | IPh => PText []
  | IField ix ph => PField (opt_default 0 (int_of_str ix)) (match ph with Some p => p | None => [] end)
  end.
Definition payload_pieces (reps : list rep) (P : payload) : list vpiece :=
  lit_piece (fst P) ++ flat_map (fun kt => item_piece reps (fst kt) :: lit_piece (snd kt)) (snd P).
Definition nested_value (reps : list rep) (P : payload) : option (list vtok) :=
  match payload_pieces reps P with [] => None | ps => Some (join_pieces ps) end.

(* ================================================================ stringify_value on the payload's tokens *)
(* what the accumulator of stringify_value contributes in front of a joined value *)
Definition with_acc (acc : option str) (v : list vtok) : list vtok :=
  match acc with
  | None => v
  | Some a => match v with VStr s :: r => VStr (a ++ s) :: r | _ => VStr a :: v end
  end.
Definition acc_app (acc : option str) (s : str) : option str :=
  Some (match acc with Some a => a ++ s | None => s end).

Lemma with_acc_text acc s ps : with_acc acc (join_pieces (PText s :: ps)) = with_acc (acc_app acc s) (join_pieces ps).
Proof.
  cbn [join_pieces]. destruct acc as [a|]; cbn [with_acc acc_app];
    destruct (join_pieces ps) as [|[s'|i n] r']; try reflexivity; rewrite app_assoc; reflexivity.
Qed.

(* states differ from the one we started in only by the two "text was inserted" flags *)
Definition same_counters (st st' : cst) : Prop :=
  cs_repeaters st' = cs_repeaters st /\ cs_guard st' = cs_guard st.
Lemma same_counters_refl st : same_counters st st. Proof. split; reflexivity. Qed.
Lemma same_counters_trans a b c : same_counters a b -> same_counters b c -> same_counters a c.
Proof. intros [H1 H2] [H3 H4]. split; congruence. Qed.

Lemma sva_text_tokens env pos T acc st r :
  stringify_value_acc env (text_tokens pos T ++ r) acc st =
  stringify_value_acc env r (match T with [] => acc | _ => acc_app acc (unescape T) end) st.
Proof.
  unfold text_tokens.
  assert (HW : Forall (fun c => is_space c = true) (ws_part T)) by apply span_all.
  pose proof (ws_body T) as HT.
  pose proof (unescape_ws (ws_part T) (body_part T) HW) as HU. rewrite HT in HU.
  destruct (ws_part T) as [|w W] eqn:EW; destruct (body_part T) as [|b B] eqn:EB.
  - cbn [app] in HT. subst T. reflexivity.
  - cbn [app] in HT. subst T. cbn [app stringify_value_acc tk stringify]. reflexivity.
  - rewrite app_nil_r in HT. clear EW EB. subst T. cbn [app stringify_value_acc stringify tk].
    rewrite HU. cbn [unescape]. rewrite app_nil_r. reflexivity.
  - clear EW EB. subst T. cbn [app] in HU |- *. cbn [stringify_value_acc stringify tk app].
    rewrite HU. unfold acc_app. destruct acc as [a0|]; [rewrite <- app_assoc|]; reflexivity.
Qed.

Lemma sva_item env k nx pos e acc st r :
  ce_text env = WNone -> item_ok k nx = true ->
  exists st1, same_counters st st1 /\
  stringify_value_acc env (mkTok (item_kind k) pos e :: r) acc st =
  match item_piece (cs_repeaters st) k with
  | PText s => stringify_value_acc env r (acc_app acc s) st1
  | PField i n =>
      match stringify_value_acc env r None st1 with
      | Ok (l, st') => Ok ((match acc with Some s => [VStr s] | None => [] end) ++ VField i n :: l, st')
      | ParseErr k p => ParseErr k p | Internal k => Internal k | OutOfFuel => OutOfFuel
      end
  end.
Proof.
  intros Htext Hok. destruct k as [n a rv ds| |ix ph].
  - exists st. split; [apply same_counters_refl|].
    cbn [item_kind item_piece stringify_value_acc tk].
    rewrite (numbering_value env (mkTok (TRepeaterNumber (N.of_nat n) rv (form_base ds) 0) pos e)
               (N.of_nat n) rv (form_base ds) st eq_refl).
    rewrite Nat2N.id. reflexivity.
  - exists (set_text_inserted (set_inserted st)). split; [split; reflexivity|].
    cbn [item_kind item_piece stringify_value_acc tk]. unfold stringify. cbn [tk].
    unfold get_text_at. rewrite Htext. reflexivity.
  - exists st. split; [apply same_counters_refl|].
    cbn [item_ok] in Hok. apply andb_prop in Hok. destruct Hok as [Hok _].
    apply andb_prop in Hok. destruct Hok as [Hne Hd].
    destruct (int_of_str_some ix (forallb_all_digits ix Hd)) as [i Ei].
    { destruct ix; [discriminate|congruence]. }
    cbn [item_kind item_piece stringify_value_acc tk]. rewrite Ei. cbn [opt_default]. reflexivity.
Qed.

Lemma sva_tail env : forall l d pos acc st,
  ce_text env = WNone -> tail_ok d l = true ->
  exists st', same_counters st st' /\
  stringify_value_acc env (tail_tokens pos l) acc st =
  Ok (with_acc acc (join_pieces (flat_map (fun kt => item_piece (cs_repeaters st) (fst kt) :: lit_piece (snd kt)) l)), st').
Proof.
  induction l as [|[k T] l' IH]; intros d pos acc st Htext Hok.
  - exists st. split; [apply same_counters_refl|]. cbn [tail_tokens stringify_value_acc flat_map join_pieces].
    destruct acc; reflexivity.
  - cbn [tail_ok] in Hok. apply andb_prop in Hok. destruct Hok as [Hk Hrest].
    destruct (walk d T) as [d'|] eqn:Hw; [|discriminate].
    cbn [tail_tokens flat_map fst snd].
    destruct (sva_item env k _ pos (pos + length (item_text k))%nat acc st
                (text_tokens (pos + length (item_text k)) T ++ tail_tokens (pos + length (item_text k) + length T) l')
                Htext Hk) as [st1 [Hs1 E1]].
    rewrite E1. clear E1.
    destruct Hs1 as [Hr1 Hg1].
    destruct (item_piece (cs_repeaters st) k) as [s|i n] eqn:Ep.
    + rewrite sva_text_tokens.
      destruct (IH d' (pos + length (item_text k) + length T)%nat
                  (match T with [] => acc_app acc s | _ => acc_app (acc_app acc s) (unescape T) end) st1 Htext Hrest)
        as [st' [Hs' E']].
      exists st'. split; [eapply same_counters_trans; [split; eassumption|exact Hs']|].
      rewrite E'. rewrite Hr1. f_equal. f_equal.
      cbn [app]. rewrite with_acc_text.
      destruct T as [|t0 T']; [reflexivity|]. cbn [lit_piece app]. rewrite with_acc_text. reflexivity.
    + rewrite sva_text_tokens.
      destruct (IH d' (pos + length (item_text k) + length T)%nat
                  (match T with [] => None | _ => acc_app None (unescape T) end) st1 Htext Hrest)
        as [st' [Hs' E']].
      exists st'. split; [eapply same_counters_trans; [split; eassumption|exact Hs']|].
      rewrite E'. rewrite Hr1. f_equal. f_equal.
      cbn [app join_pieces].
      assert (Hv : with_acc (match T with [] => None | _ :: _ => acc_app None (unescape T) end)
                     (join_pieces (flat_map (fun kt => item_piece (cs_repeaters st) (fst kt) :: lit_piece (snd kt)) l')) =
                   join_pieces (lit_piece T ++ flat_map (fun kt => item_piece (cs_repeaters st) (fst kt) :: lit_piece (snd kt)) l')).
      { destruct T as [|t0 T']; [reflexivity|]. cbn [lit_piece app]. rewrite <- with_acc_text. reflexivity. }
      rewrite Hv. destruct acc; reflexivity.
Qed.

Lemma stringify_payload env pos P st :
  ce_text env = WNone -> payload_ok P = true ->
  exists st', same_counters st st' /\
  stringify_value env (payload_tokens pos P) st = Ok (join_pieces (payload_pieces (cs_repeaters st) P), st').
Proof.
  destruct P as [T0 l]. unfold payload_ok, payload_tokens, payload_pieces, stringify_value. cbn [fst snd].
  intros Htext Hok. destruct (walk 0 T0) as [d|] eqn:Hw; [|discriminate].
  rewrite sva_text_tokens.
  destruct (sva_tail env l d (pos + length T0)%nat (match T0 with [] => None | _ => acc_app None (unescape T0) end) st Htext Hok)
    as [st' [Hs' E']].
  exists st'. split; [exact Hs'|]. rewrite E'. f_equal. f_equal.
  destruct T0 as [|t0 T']; [reflexivity|]. cbn [lit_piece app]. rewrite <- with_acc_text. reflexivity.
Qed.

(* ================================================================ convert: the element with its value *)
Lemma tail_tokens_cons k T l pos : exists t r, tail_tokens pos ((k, T) :: l) = t :: r.
Proof. cbn [tail_tokens]. eexists. eexists. reflexivity. Qed.

Lemma payload_tokens_shape pos reps P :
  (payload_tokens pos P = [] /\ payload_pieces reps P = []) \/
  (exists t r p ps, payload_tokens pos P = t :: r /\ payload_pieces reps P = p :: ps).
Proof.
  destruct P as [T0 l]. unfold payload_tokens, payload_pieces. cbn [fst snd].
  destruct T0 as [|t0 T'].
  - destruct l as [|[k T] l'].
    + left. split; reflexivity.
    + right. cbn [lit_piece app flat_map fst snd].
      replace (text_tokens pos []) with (@nil token) by reflexivity. cbn [app tail_tokens].
      do 4 eexists. split; reflexivity.
  - right. destruct (text_tokens_nonempty pos (t0 :: T') ltac:(discriminate)) as [t [r E]]. rewrite E.
    cbn [lit_piece app]. do 4 eexists. split; reflexivity.
Qed.

Lemma conv_nested env (name : str) P pos nt st :
  name <> [] -> tk nt = TLiteral name -> ce_text env = WNone -> payload_ok P = true ->
  exists st', same_counters st st' /\
  conv_stmt env (TElem (Some [nt]) None (Some (payload_tokens pos P)) None false []) st =
    Ok ([ANode (Some name) (nested_value (cs_repeaters st) P) None None [] false], st').
Proof.
  intros Hne Hn Htext Hok.
  destruct name as [|c name']; [congruence|].
  destruct (stringify_payload env pos P st Htext Hok) as [st' [Hs' E']].
  unfold nested_value.
  destruct (payload_tokens_shape pos (cs_repeaters st) P) as [[Et Ep]|[t [r [p [ps [Et Ep]]]]]].
  - exists st. split; [apply same_counters_refl|]. rewrite Et, Ep.
    cbn. unfold stringify. rewrite Hn. cbn. rewrite app_nil_r. reflexivity.
  - exists st'. split; [exact Hs'|]. rewrite Ep.
    cbn [conv_stmt nonempty]. cbn [stringify_name bind]. unfold stringify at 1. rewrite Hn.
    cbn [bind]. rewrite Et. cbn [nonempty]. rewrite <- Et. rewrite E'. rewrite Ep.
    cbn. rewrite app_nil_r. reflexivity.
Qed.

(* ================================================================ text_nested: tokenize + parse + convert *)
Theorem text_nested jsx env mr name P :
  name_ok name -> payload_ok P = true -> ce_text env = WNone ->
  parse_abbr jsx env mr (name ++ c_lbrace :: payload_text P ++ [c_rbrace]) =
    Ok [ANode (Some name) (nested_value [] P) None None [] false].
Proof.
  intros Hname Hb Htext. unfold parse_abbr.
  rewrite (tokenize_nested name P Hname Hb). unfold nested_abbr_tokens.
  set (n := length name).
  set (nt := mkTok (TLiteral name) 0 n).
  set (open := mkTok (TBracket true BExpr) n (n + 1)).
  set (close := mkTok (TBracket false BExpr) (n + 1 + length (payload_text P)) (n + 1 + length (payload_text P) + 1)).
  set (inner := payload_tokens (n + 1) P).
  change ([nt; open] ++ inner ++ [close]) with (nt :: open :: inner ++ [close]).
  rewrite (parse_single jsx _ _ (block_text jsx nt open close name inner eq_refl eq_refl eq_refl
                                  (payload_tokens_plain _ _))).
  unfold convert, leaf_node.
  cbn [lf_name lf_attrs lf_value lf_repeat lf_self].
  cbn [conv_list]. unfold inner.
  destruct (conv_nested env name P (n + 1) nt
              (mkCst false match mr with Some m => Z.of_N m | None => 1000000%Z end [] false)
              (proj1 Hname) eq_refl Htext Hb) as [st' [_ E]].
  rewrite E. cbn [bind app cs_repeaters]. rewrite Htext. reflexivity.
Qed.

(* the parser's own result: ONE element whose value is the payload's tokens, in order *)
Theorem parse_nested jsx name P :
  name_ok name -> payload_ok P = true ->
  exists toks, tokenize (name ++ c_lbrace :: payload_text P ++ [c_rbrace]) = TOk toks /\
    parse jsx toks =
      POk [TElem (Some [mkTok (TLiteral name) 0 (length name)]) None
                 (Some (payload_tokens (length name + 1) P)) None false []].
Proof.
  intros Hname Hb. eexists. split; [apply (tokenize_nested name P Hname Hb)|].
  unfold nested_abbr_tokens.
  set (n := length name).
  set (nt := mkTok (TLiteral name) 0 n).
  set (open := mkTok (TBracket true BExpr) n (n + 1)).
  set (close := mkTok (TBracket false BExpr) (n + 1 + length (payload_text P)) (n + 1 + length (payload_text P) + 1)).
  set (inner := payload_tokens (n + 1) P).
  change ([nt; open] ++ inner ++ [close]) with (nt :: open :: inner ++ [close]).
  rewrite (parse_single jsx _ _ (block_text jsx nt open close name inner eq_refl eq_refl eq_refl
                                  (payload_tokens_plain _ _))).
  reflexivity.
Qed.

(* the text bracket opened after the name is closed by exactly the LAST `}` of the abbreviation: the
   closing Bracket token is the last token and spans the last character; no token between is a brace *)
Theorem nested_closing_brace name P :
  name_ok name -> payload_ok P = true ->
  let s := name ++ c_lbrace :: payload_text P ++ [c_rbrace] in
  exists inner,
    tokenize s = TOk (mkTok (TLiteral name) 0 (length name)
                      :: mkTok (TBracket true BExpr) (length name) (length name + 1)
                      :: inner ++ [mkTok (TBracket false BExpr) (length s - 1) (length s)]) /\
    Forall not_expr_bracket inner.
Proof.
  intros Hname Hb s. exists (payload_tokens (length name + 1) P). split; [|apply payload_tokens_plain].
  unfold s. rewrite (tokenize_nested name P Hname Hb). unfold nested_abbr_tokens. cbn [app].
  f_equal. f_equal. f_equal. f_equal.
  assert (Hlen : length (name ++ c_lbrace :: payload_text P ++ [c_rbrace]) = (length name + 1 + length (payload_text P) + 1)%nat).
  { rewrite app_length. cbn [length]. rewrite app_length. cbn [length]. unfold char. lia. }
  rewrite Hlen. rewrite Nat.add_sub. reflexivity.
Qed.

(* ================================================================ readable consequences of the value spec *)
(* the text a value prints (a field prints its placeholder) *)
Definition vtok_text (v : vtok) : str := match v with VStr s => s | VField _ nm => nm end.
Definition value_text (v : option (list vtok)) : str :=
  match v with Some l => concat (map vtok_text l) | None => [] end.

(* what an item stands for in the output text under the repeater stack [reps] *)
Definition item_out (reps : list rep) (k : item) : str :=
  match k with
  | INum n _ r ds => pad n (str_of_Z (counter_in_force r (form_base ds) reps))
  | IPh => []
  | IField _ ph => match ph with Some p => p | None => [] end
  end.
(* the payload with every literal run unescaped and every counter replaced by its value *)
Definition payload_out (reps : list rep) (P : payload) : str :=
  unescape (fst P) ++ concat (map (fun kt => item_out reps (fst kt) ++ unescape (snd kt)) (snd P)).

Definition vpiece_text (p : vpiece) : str := match p with PText s => s | PField _ nm => nm end.
Lemma join_pieces_text : forall ps, concat (map vtok_text (join_pieces ps)) = concat (map vpiece_text ps).
Proof.
  induction ps as [|[s|i n] ps IH]; [reflexivity| |].
  - cbn [join_pieces map concat vpiece_text]. rewrite <- IH.
    destruct (join_pieces ps) as [|[s'|i' n'] r']; cbn [map concat vtok_text]; [reflexivity| |reflexivity].
    rewrite app_assoc. reflexivity.
  - cbn [join_pieces map concat vtok_text vpiece_text]. rewrite IH. reflexivity.
Qed.

Lemma lit_piece_text T : concat (map vpiece_text (lit_piece T)) = unescape T.
Proof. destruct T; [reflexivity|]. cbn [lit_piece map concat vpiece_text]. apply app_nil_r. Qed.

Lemma item_piece_text reps k : vpiece_text (item_piece reps k) = item_out reps k.
Proof. destruct k as [n a r ds| |ix ph]; reflexivity. Qed.

(* the text of the value = the payload, escapes resolved, counters replaced by their values *)
Theorem nested_value_text reps P : value_text (nested_value reps P) = payload_out reps P.
Proof.
  unfold nested_value, payload_out.
  assert (H : concat (map vpiece_text (payload_pieces reps P)) =
              unescape (fst P) ++ concat (map (fun kt => item_out reps (fst kt) ++ unescape (snd kt)) (snd P))).
  { unfold payload_pieces. rewrite map_app, concat_app, lit_piece_text. f_equal.
    induction (snd P) as [|[k T] l IH]; [reflexivity|].
    cbn [flat_map map concat fst snd app]. rewrite map_app, concat_app, lit_piece_text, item_piece_text, IH.
    rewrite app_assoc. reflexivity. }
  destruct (payload_pieces reps P) as [|p ps] eqn:E.
  - cbn [value_text]. rewrite <- H. reflexivity.
  - cbn [value_text]. rewrite join_pieces_text. exact H.
Qed.

Definition is_field (k : item) : bool := match k with IField _ _ => true | _ => false end.

Lemma join_pieces_texts : forall ps, ps <> [] -> Forall (fun p => match p with PText _ => True | PField _ _ => False end) ps ->
  join_pieces ps = [VStr (concat (map vpiece_text ps))].
Proof.
  induction ps as [|p ps IH]; intros Hne HF; [congruence|].
  inversion HF as [|x y Hp HF']; subst. destruct p as [s|i n]; [|contradiction].
  cbn [join_pieces map concat vpiece_text].
  destruct ps as [|p' ps']; [cbn [join_pieces map concat]; rewrite app_nil_r; reflexivity|].
  rewrite (IH ltac:(discriminate) HF'). reflexivity.
Qed.

(* a payload without `${n}` fields (and not empty) is ONE string *)
Theorem nested_value_flat reps P :
  forallb (fun kt => negb (is_field (fst kt))) (snd P) = true -> payload_text P <> [] ->
  nested_value reps P = Some [VStr (payload_out reps P)].
Proof.
  intros Hnf Hne.
  pose proof (nested_value_text reps P) as Ht. unfold nested_value in *.
  assert (HF : Forall (fun p => match p with PText _ => True | PField _ _ => False end) (payload_pieces reps P)).
  { unfold payload_pieces. apply Forall_app. split.
    - destruct (fst P); repeat constructor.
    - induction (snd P) as [|[k T] l IH]; [constructor|].
      cbn [forallb fst] in Hnf. apply andb_prop in Hnf. destruct Hnf as [Hk Hl].
      cbn [flat_map fst snd]. constructor.
      + destruct k; [exact I|exact I|discriminate].
      + apply Forall_app. split; [destruct T; repeat constructor|apply IH; exact Hl]. }
  destruct (payload_pieces reps P) as [|p ps] eqn:E.
  - exfalso. apply Hne. unfold payload_pieces in E. apply app_eq_nil in E. destruct E as [E1 E2].
    destruct P as [T0 l]. cbn [fst snd] in *. unfold payload_text. cbn [fst snd].
    destruct T0; [|discriminate]. destruct l as [|[k T] l']; [reflexivity|discriminate].
  - rewrite join_pieces_texts by (congruence || exact HF).
    cbn [value_text] in Ht. rewrite join_pieces_text in Ht. rewrite Ht. reflexivity.
Qed.

(* text_literal is the case "no item": a payload that is one run *)
Lemma payload_ok_run T : payload_ok (T, []) = bal 0 T.
Proof.
  unfold payload_ok. cbn [fst snd].
  destruct (bal 0 T) eqn:E.
  - apply bal_walk in E. rewrite E. reflexivity.
  - destruct (walk 0 T) as [d|] eqn:Ew; [|reflexivity]. cbn [tail_ok].
    destruct d; [|reflexivity]. apply bal_walk in Ew. congruence.
Qed.
Lemma nested_value_run reps T : nested_value reps (T, []) = text_value T.
Proof. unfold nested_value, payload_pieces. cbn [fst snd flat_map]. rewrite app_nil_r. destruct T; reflexivity. Qed.

Lemma nested_extends_text_literal (T : str) (reps : list rep) :
  payload_ok (T, []) = bal 0 T /\ payload_text (T, []) = T /\ nested_value reps (T, []) = text_value T.
Proof. split; [apply payload_ok_run|]. split; [apply app_nil_r|apply nested_value_run]. Qed.

(* ================================================================ `name{P}*N`: the parser *)
(* `name{inner}*N`: one element block with value [inner] and the repeater *)
Theorem block_text_rep jsx (nt open close tr : token) (v : str) (inner : list token) (rp : rep) :
  tk nt = TLiteral v -> tk open = TBracket true BExpr -> tk close = TBracket false BExpr ->
  rep_of tr = Some rp -> Forall not_expr_bracket inner ->
  block_ok jsx (nt :: open :: inner ++ [close; tr]) (mkLeaf (Some [nt]) None (Some inner) (Some rp) false).
Proof.
  intros Hn Ho Hc Hr HF. split; [discriminate|]. split.
  - cbn [hd_is]. unfold is_climb_op, is_operator. rewrite Hn. reflexivity.
  - intros rest Hb.
    assert (Eshape : (nt :: open :: inner ++ [close; tr]) ++ rest = nt :: open :: (inner ++ [close]) ++ tr :: rest).
    { cbn [app]. rewrite <- !app_assoc. reflexivity. }
    rewrite Eshape.
    assert (Hname : element_name jsx (nt :: open :: (inner ++ [close]) ++ tr :: rest) = 1%nat).
    { unfold element_name. cbn [app hd_is tl].
      assert (Hchain : jsx_chain (open :: (inner ++ [close]) ++ tr :: rest) = 0%nat).
      { cbn [jsx_chain]. unfold is_operator. rewrite Ho. reflexivity. }
      assert (Hn1 : is_element_name_tok nt = true) by (unfold is_element_name_tok; rewrite Hn; reflexivity).
      assert (Hn2 : is_element_name_tok open = false) by (unfold is_element_name_tok; rewrite Ho; reflexivity).
      destruct (jsx && is_capitalized_literal nt).
      - rewrite Hchain. cbn [skipn span_tok Nat.add]. rewrite Hn2. reflexivity.
      - cbn [skipn span_tok Nat.add]. rewrite Hn1, Hn2. reflexivity. }
    unfold element. rewrite Hname. cbn [app firstn].
    cbn [elem_loop].
    set (s0 := mkEst (Some [nt]) None None None false).
    assert (Htx : text (open :: (inner ++ [close]) ++ tr :: rest) = S (length inner + 1)).
    { unfold text, is_bracket. rewrite Ho. cbn [bctx_eqb Bool.eqb andb].
      rewrite <- app_assoc. cbn [app]. rewrite text_loop_inner by assumption.
      cbn [text_loop]. rewrite Hc. reflexivity. }
    assert (Hbody : elem_body jsx s0 (open :: (inner ++ [close]) ++ tr :: rest)
                    = ECont (mkEst (Some [nt]) None (Some inner) None false) (S (length inner + 1))).
    { unfold elem_body. unfold rep_of. rewrite Ho.
      cbn [s0 e_repeat est_empty e_name e_value e_attrs negb e_self].
      rewrite Htx. f_equal. f_equal.
      cbn [firstn].
      replace (length inner + 1)%nat with (length (inner ++ [close])) by (rewrite app_length; reflexivity).
      rewrite firstn_app, firstn_all, Nat.sub_diag. cbn [firstn]. rewrite app_nil_r.
      rewrite get_text_run by exact Hc. reflexivity. }
    rewrite Hbody. cbn [pred].
    replace (length inner + 1)%nat with (length (inner ++ [close])) by (rewrite app_length; reflexivity).
    rewrite elem_loop_skip.
    cbn [elem_loop].
    assert (Hbody2 : elem_body jsx (mkEst (Some [nt]) None (Some inner) None false) (tr :: rest)
                     = ECont (mkEst (Some [nt]) None (Some inner) (Some rp) false) 1).
    { unfold elem_body. cbn [e_repeat est_empty e_name e_value e_attrs negb]. rewrite Hr. reflexivity. }
    rewrite Hbody2. cbn [pred]. rewrite elem_loop_boundary by exact Hb.
    cbn [shiftE est_empty e_name leaf_node lf_name lf_attrs lf_value lf_repeat lf_self e_attrs e_value e_repeat e_self].
    f_equal. f_equal. f_equal. cbn [length]. rewrite !app_length. cbn [length]. lia.
Qed.

(* ================================================================ `name{P}*N`: the tokenizer *)
Lemma toks_nested_elem name P rest :
  name_ok name -> payload_ok P = true ->
  toks 0 ctx0 None 0 (name ++ c_lbrace :: payload_text P ++ c_rbrace :: rest) =
    tcons (nested_abbr_tokens name P)
          (toks 0 ctx0 (Some c_rbrace) (length name + 1 + length (payload_text P) + 1) rest).
Proof.
  intros [Hne HF] Hb. unfold nested_abbr_tokens.
  destruct name as [|c name']; [congruence|].
  inversion HF as [|x y Hc HF']; subst.
  destruct (name_char_facts c Hc) as [H1 [H2 [H3 [H4 [H5 [H6 H7]]]]]].
  cbn [app]. etransitivity.
  { apply toks_token.
    apply (consume_plain ctx0 None c (name' ++ c_lbrace :: payload_text P ++ c_rbrace :: rest) H2 H4).
    - unfold is_allowed_repeater. rewrite H5. reflexivity.
    - exact (lit_name (c :: name') None (payload_text P ++ c_rbrace :: rest) HF). }
  cbn [cgroup cattr cquote ctx0].
  etransitivity.
  { apply f_equal. apply (toks_token (mkCtx 0 0 0 None) _ _ c_lbrace [] (payload_text P ++ c_rbrace :: rest)).
    apply consume_bracket; try reflexivity.
    eexists. apply lit_stops_at_lbrace. }
  cbn [is_open_bracket cgroup cattr cexpr cquote length].
  change (c_lbrace =? c_lbrace) with true. cbn [orb].
  change (mkCtx 0 0 (0 + 1) None) with (ectx 0 0 0).
  etransitivity.
  { apply f_equal. apply f_equal. apply (toks_payload P 0 0 _ _ rest Hb). }
  etransitivity.
  { apply f_equal. apply f_equal. apply f_equal.
    apply (toks_token (ectx 0 0 0) _ _ c_rbrace [] rest).
    apply (consume_bracket (mkCtx 0 0 1 None)); try reflexivity.
    eexists. apply lit_stops_at_rbrace. }
  cbn [cgroup cattr cexpr cquote length].
  change (is_open_bracket c_rbrace) with false. change (is_open_bracket c_lbrace) with true.
  change (last_prev (Some c_rbrace) []) with (Some c_rbrace).
  change (1 + -1)%Z with 0%Z. cbn [Nat.add].
  rewrite <- !tcons_app. cbn [app]. reflexivity.
Qed.

(* `*` digits after the closing brace is the Repeater token *)
Lemma toks_repeater ds prev pos :
  all_digits ds -> ds <> [] ->
  toks 0 ctx0 prev pos (c_star :: ds) =
    TOk [mkTok (TRepeater (opt_default 1 (int_of_str ds)) 0 false) pos (pos + S (length ds))].
Proof.
  intros Hd Hne.
  assert (Hc : consume ctx0 prev (c_star :: ds ++ []) =
               (CTok (TRepeater (opt_default 1 (int_of_str ds)) 0 false) (S (length ds)), ctx0)).
  { unfold consume.
    assert (Hf : field ctx0 (c_star :: ds ++ []) = CNone) by reflexivity.
    rewrite Hf. cbn [orelse]. rewrite rp_none by reflexivity. cbn [orelse].
    rewrite rn_none by reflexivity. cbn [orelse].
    unfold repeater. replace (is_allowed_repeater c_star ctx0) with true by reflexivity.
    cbn [cquote ctx0 andb].
    rewrite (span_digits ds [] Hd eq_refl).
    destruct ds as [|d0 ds']; [congruence|]. cbn [length].
    change (S (length ds')) with (length (d0 :: ds')). rewrite firstn_app_exact. cbn [orelse]. reflexivity. }
  replace (c_star :: ds) with (c_star :: ds ++ []) by (rewrite app_nil_r; reflexivity).
  etransitivity; [exact (toks_token ctx0 prev pos c_star ds [] _ _ Hc)|reflexivity].
Qed.

Definition rep_count (ds : str) : N := opt_default 1 (int_of_str ds).

Theorem tokenize_nested_rep name P ds :
  name_ok name -> payload_ok P = true -> all_digits ds -> ds <> [] ->
  let L := (length name + 1 + length (payload_text P) + 1)%nat in
  tokenize (name ++ c_lbrace :: payload_text P ++ c_rbrace :: c_star :: ds) =
    TOk (nested_abbr_tokens name P ++ [mkTok (TRepeater (rep_count ds) 0 false) L (L + S (length ds))]).
Proof.
  intros Hname Hb Hd Hne L. unfold tokenize.
  rewrite (toks_nested_elem name P (c_star :: ds) Hname Hb).
  rewrite (toks_repeater ds _ _ Hd Hne). reflexivity.
Qed.

(* ================================================================ `name{P}*N`: every copy *)
From Emmet Require Import proofs.ConvertProofs.

Definition is_ph (k : item) : bool := match k with IPh => true | _ => false end.
Definition no_ph (P : payload) : bool := forallb (fun kt => negb (is_ph (fst kt))) (snd P).

Lemma clean_toks_app a b : clean_toks (a ++ b) = clean_toks a && clean_toks b.
Proof. apply forallb_app. Qed.
Lemma text_tokens_clean pos T : clean_toks (text_tokens pos T) = true.
Proof. unfold text_tokens. rewrite clean_toks_app. destruct (ws_part T); destruct (body_part T); reflexivity. Qed.
Lemma tail_tokens_clean : forall l pos,
  forallb (fun kt => negb (is_ph (fst kt))) l = true -> clean_toks (tail_tokens pos l) = true.
Proof.
  induction l as [|[k T] l' IH]; intros pos H; [reflexivity|].
  cbn [forallb fst] in H. apply andb_prop in H. destruct H as [Hk Hl].
  cbn [tail_tokens].
  change (clean_toks (?t :: ?r)) with (clean_tok t && clean_toks r).
  rewrite clean_toks_app, text_tokens_clean, (IH _ Hl). cbn [andb]. rewrite andb_true_r.
  destruct k as [n a r ds| |ix ph]; [reflexivity|discriminate|reflexivity].
Qed.
Lemma payload_tokens_clean pos P : no_ph P = true -> clean_toks (payload_tokens pos P) = true.
Proof.
  intros H. unfold payload_tokens. rewrite clean_toks_app, text_tokens_clean. apply (tail_tokens_clean _ _ H).
Qed.

(* the value of the payload's tokens under a repeater stack, as the C02 spec [unroll] computes it *)
Lemma value_toks_payload env reps pos P :
  ce_text env = WNone -> payload_ok P = true ->
  option_map (value_toks env reps) (nonempty (Some (payload_tokens pos P))) = nested_value reps P.
Proof.
  intros Htext Hok. unfold nested_value.
  destruct (stringify_payload env pos P (st_of reps) Htext Hok) as [st' [_ E]].
  cbn [st_of cs_repeaters] in E.
  destruct (payload_tokens_shape pos reps P) as [[Et Ep]|[t [r [p [ps [Et Ep]]]]]].
  - rewrite Et, Ep. reflexivity.
  - rewrite Ep. rewrite Et. cbn [nonempty option_map]. rewrite <- Et, <- Ep.
    unfold value_toks, value_acc. unfold stringify_value in E. rewrite E. reflexivity.
Qed.

Lemma flat_map_singleton {A B} (f : A -> list B) (g : A -> B) l : (forall x, f x = [g x]) -> flat_map f l = map g l.
Proof. intros H. induction l as [|x l IH]; [reflexivity|]. cbn [flat_map map]. rewrite H, IH. reflexivity. Qed.

Definition count_of (ds : str) : N := written_count (mkRep (rep_count ds) 0 false).

(* text_nested_repeated.  `name{P}*N` (P without `$#`, N written as the digit string [ds]; `*0` counts as 1) with
   a limit that does not cut it short: exactly N nodes, copy i (0-based) carrying the payload under the repeater
   stack [(N, i)] -- so every counter in it, at whatever brace depth, prints the value of copy i+1 *)
Theorem text_nested_repeated jsx env mr name P ds :
  name_ok name -> payload_ok P = true -> no_ph P = true -> all_digits ds -> ds <> [] -> ce_text env = WNone ->
  let n := count_of ds in
  (Z.of_N n <= budget_of mr)%Z ->
  parse_abbr jsx env mr (name ++ c_lbrace :: payload_text P ++ c_rbrace :: c_star :: ds) =
    Ok (map (fun i => ANode (Some name) (nested_value [mkRep n i false] P) (Some (mkRep n i false)) None [] false)
            (nseq (N.to_nat n) 0%N)).
Proof.
  intros Hname Hb Hnp Hd Hne Htext n Hbud. unfold parse_abbr.
  rewrite (tokenize_nested_rep name P ds Hname Hb Hd Hne). cbv zeta. unfold nested_abbr_tokens.
  set (ln := length name).
  set (nt := mkTok (TLiteral name) 0 ln).
  set (open := mkTok (TBracket true BExpr) ln (ln + 1)).
  set (close := mkTok (TBracket false BExpr) (ln + 1 + length (payload_text P)) (ln + 1 + length (payload_text P) + 1)).
  set (inner := payload_tokens (ln + 1) P).
  set (tr := mkTok (TRepeater (rep_count ds) 0 false) _ _).
  replace (([nt; open] ++ inner ++ [close]) ++ [tr]) with (nt :: open :: inner ++ [close; tr])
    by (cbn [app]; rewrite <- app_assoc; reflexivity).
  rewrite (parse_single jsx _ _ (block_text_rep jsx nt open close tr name inner (mkRep (rep_count ds) 0 false)
                                  eq_refl eq_refl eq_refl eq_refl (payload_tokens_plain _ _))).
  unfold leaf_node. cbn [lf_name lf_attrs lf_value lf_repeat lf_self].
  set (node := TElem (Some [nt]) None (Some inner) (Some (mkRep (rep_count ds) 0 false)) false []).
  assert (Hclean : forallb clean_node [node] = true).
  { cbn [forallb clean_node node clean_otoks clean_oattrs clean_rep rimplicit negb andb].
    unfold inner. rewrite (payload_tokens_clean _ P Hnp). reflexivity. }
  assert (Htot : (total_list [node] <= budget_of mr)%Z).
  { unfold total_list. cbn [map zsum fold_right]. rewrite total_unfold. cbn [node node_rep].
    unfold inner_total. cbn [node elements_of' map zsum fold_right]. unfold n, count_of in Hbud. lia. }
  rewrite (convert_enough env mr [node] Htext Hclean Htot).
  cbn [flat_map]. rewrite app_nil_r. rewrite unroll_unfold. cbn [node node_rep]. cbv zeta.
  fold (count_of ds). fold n.
  destruct Hname as [Hne' HF].
  f_equal. apply flat_map_singleton. intros i.
  unfold node. cbn [once_u flat_map]. unfold leaf_items.
  unfold inner. rewrite (value_toks_payload env _ _ P Htext Hb).
  cbn [nonempty option_map].
  assert (Hnm : name_str env [mkRep n i false] [nt] = name).
  { unfold name_str. cbn [stringify_name]. unfold stringify. cbn [tk nt]. apply app_nil_r. }
  rewrite Hnm. destruct name as [|c0 name']; [congruence|]. reflexivity.
Qed.

(* what a counter prints in copy i (0-based) of N: start + i, or start + N - (i+1) when reversed *)
Lemma item_out_in_copy w a r ds n i reps :
  item_out (mkRep n i false :: reps) (INum w a r ds) = pad w (str_of_Z (counter_value r (form_base ds) (i + 1) n)).
Proof. reflexivity. Qed.

(* ================================================================ the tokenizer BEFORE repair 86fc68a
   (literal() took the depth it was resumed at for the depth of the text: expression_start = ctx['expression']).
   Kept only to show that the theorems above were false for it: see C04_nested_false_before_repair. *)
Definition consume_old (ctx : tctx) (prev : option char) (s : str) : cres * tctx :=
  let first :=
    orelse (field ctx s) (fun _ =>
    orelse (repeater_placeholder s) (fun _ =>
    orelse (repeater_number s) (fun _ =>
    orelse (repeater ctx s) (fun _ =>
    white_space s)))) in
  match first with
  | CNone =>
      let '(v, n, e) := lit (cquote ctx) (cattr ctx) (cexpr ctx) (cexpr ctx) prev false s in
      match n with
      | S _ => (CTok (TLiteral v) n, mkCtx (cgroup ctx) (cattr ctx) e (cquote ctx))
      | O =>
          let t := orelse (operator s) (fun _ => orelse (quote s) (fun _ => bracket s)) in
          let ctx' :=
            match t, s with
            | CTok (TQuote _) _, ch :: _ =>
                mkCtx (cgroup ctx) (cattr ctx) (cexpr ctx)
                      (match cquote ctx with
                       | Some q => if ch =? q then None else Some ch
                       | None => Some ch
                       end)
            | CTok (TBracket op b) _, _ =>
                let d := (if op then 1 else -1)%Z in
                match b with
                | BGroup => mkCtx (cgroup ctx + d) (cattr ctx) (cexpr ctx) (cquote ctx)
                | BAttr => mkCtx (cgroup ctx) (cattr ctx + d) (cexpr ctx) (cquote ctx)
                | BExpr => mkCtx (cgroup ctx) (cattr ctx) (cexpr ctx + d) (cquote ctx)
                end
            | _, _ => ctx
            end in
          (t, ctx')
      end
  | _ => (first, ctx)
  end.

Fixpoint toks_old (skip : nat) (ctx : tctx) (prev : option char) (pos : nat) (s : str) : tres :=
  match s with
  | [] => TOk []
  | c :: r =>
      match skip with
      | S k => toks_old k ctx (Some c) (S pos) r
      | O =>
          match consume_old ctx prev s with
          | (CNone, _) => TErr pos
          | (CErr off, _) => TErr (pos + off)
          | (CTok k n, ctx') =>
              match toks_old (pred n) ctx' (Some c) (S pos) r with
              | TOk l => TOk (mkTok k pos (pos + n) :: l)
              | TErr p => TErr p
              end
          end
      end
  end.
Definition tokenize_old (s : str) : tres := toks_old 0 ctx0 None 0 s.
(* tokenize + parse with the old tokenizer: None = the abbreviation is rejected *)
Definition parses_old (jsx : bool) (s : str) : bool :=
  match tokenize_old s with
  | TErr _ => false
  | TOk toks => match parse jsx toks with POk _ => true | PErr _ => false end
  end.

(* ================================================================ C02: counters inside nested text, per copy *)
(* `name{P}*N` for a payload without `$#` and without `${n}` fields: copy i (0-based) is the node whose value is ONE
   string -- the literal runs, unescaped, with every counter replaced by its value in copy i+1 of N *)
Theorem numbering_nested_text jsx env mr name P ds :
  name_ok name -> payload_ok P = true -> no_ph P = true ->
  forallb (fun kt => negb (is_field (fst kt))) (snd P) = true -> payload_text P <> [] ->
  all_digits ds -> ds <> [] -> ce_text env = WNone ->
  let n := count_of ds in
  (Z.of_N n <= budget_of mr)%Z ->
  parse_abbr jsx env mr (name ++ c_lbrace :: payload_text P ++ c_rbrace :: c_star :: ds) =
    Ok (map (fun i => ANode (Some name) (Some [VStr (payload_out [mkRep n i false] P)]) (Some (mkRep n i false)) None [] false)
            (nseq (N.to_nat n) 0%N)).
Proof.
  intros Hname Hb Hnp Hnf Hne Hd Hdne Htext n Hbud.
  rewrite (text_nested_repeated jsx env mr name P ds Hname Hb Hnp Hd Hdne Htext Hbud).
  f_equal. apply map_ext. intros i. fold n. rewrite (nested_value_flat _ P Hnf Hne). reflexivity.
Qed.

(* ================================================================ `name{P}*N` with `$#` allowed: the copy loop itself *)
Definition nested_copy (name : str) (P : payload) (reps : list rep) (n i : N) : anode :=
  ANode (Some name) (nested_value (mkRep n i false :: reps) P) (Some (mkRep n i false)) None [] false.

Lemma once_nested env (name : str) P pos nt rp cur st :
  name <> [] -> tk nt = TLiteral name -> ce_text env = WNone -> payload_ok P = true ->
  exists st', same_counters st st' /\
  once_gen env (TElem (Some [nt]) None (Some (payload_tokens pos P)) rp false []) cur st =
    Ok ([ANode (Some name) (nested_value (cs_repeaters st) P) cur None [] false], st').
Proof.
  intros Hne Hn Htext Hok.
  destruct name as [|c name']; [congruence|].
  destruct (stringify_payload env pos P st Htext Hok) as [st' [Hs' E']].
  unfold nested_value.
  destruct (payload_tokens_shape pos (cs_repeaters st) P) as [[Et Ep]|[t [r [p [ps [Et Ep]]]]]].
  - exists st. split; [apply same_counters_refl|]. rewrite Et, Ep.
    cbn. unfold stringify. rewrite Hn. cbn. rewrite app_nil_r. reflexivity.
  - exists st'. split; [exact Hs'|]. rewrite Ep.
    cbn [once_gen nonempty]. cbn [stringify_name bind]. unfold stringify at 1. rewrite Hn.
    cbn [bind]. rewrite Et. cbn [nonempty]. rewrite <- Et. rewrite E'. rewrite Ep.
    cbn. rewrite app_nil_r. reflexivity.
Qed.

Lemma iter_nested env (name : str) P pos nt rp n reps :
  name <> [] -> tk nt = TLiteral name -> ce_text env = WNone -> payload_ok P = true ->
  forall k i acc st,
    (exists v, cs_repeaters st = mkRep n v false :: reps) ->
    (Z.of_nat k <= cs_guard st)%Z -> i + N.of_nat k = n ->
    exists st',
      iter_gen env (TElem (Some [nt]) None (Some (payload_tokens pos P)) rp false []) n false k i acc st =
        Ok (acc ++ map (nested_copy name P reps n) (nseq k i), st').
Proof.
  intros Hne Hn Htext Hok.
  induction k as [|k IH]; intros i acc st [v Hreps] Hg Hi.
  - exists st. cbn [iter_gen nseq map]. rewrite app_nil_r. reflexivity.
  - cbn [iter_gen].
    assert (Hlt : (i <? n) = true) by (apply N.ltb_lt; lia).
    rewrite Hlt.
    assert (Hr1 : cs_repeaters (set_top_value i st) = mkRep n i false :: reps).
    { unfold set_top_value. rewrite Hreps. reflexivity. }
    assert (Hg1 : cs_guard (set_top_value i st) = cs_guard st).
    { unfold set_top_value. rewrite Hreps. reflexivity. }
    destruct (once_nested env name P pos nt rp (Some (mkRep n i false)) (set_top_value i st) Hne Hn Htext Hok)
      as [st2 [[Hr2 Hg2] E]].
    rewrite E. cbn [bind andb]. rewrite Hr1.
    fold (nested_copy name P reps n i).
    destruct (cs_guard (dec_guard st2) <=? 0)%Z eqn:Ez.
    + (* the budget is used up exactly with the last copy *)
      assert (k = O).
      { unfold dec_guard in Ez. cbn [cs_guard] in Ez. rewrite Hg2, Hg1 in Ez. lia. }
      subst k. eexists. cbn [nseq map]. reflexivity.
    + destruct (IH (i + 1) (acc ++ [nested_copy name P reps n i]) (dec_guard st2)) as [st' E'].
      * exists i. unfold dec_guard. cbn [cs_repeaters]. rewrite Hr2, Hr1. reflexivity.
      * unfold dec_guard. cbn [cs_guard]. rewrite Hg2, Hg1. lia.
      * lia.
      * exists st'. rewrite E'. cbn [nseq map]. rewrite <- app_assoc. reflexivity.
Qed.

(* text_nested_repeated_full: as text_nested_repeated, `$#` allowed (it stands for nothing: there is no wrap text) *)
Theorem text_nested_repeated_full jsx env mr name P ds :
  name_ok name -> payload_ok P = true -> all_digits ds -> ds <> [] -> ce_text env = WNone ->
  let n := count_of ds in
  (Z.of_N n <= budget_of mr)%Z ->
  parse_abbr jsx env mr (name ++ c_lbrace :: payload_text P ++ c_rbrace :: c_star :: ds) =
    Ok (map (fun i => ANode (Some name) (nested_value [mkRep n i false] P) (Some (mkRep n i false)) None [] false)
            (nseq (N.to_nat n) 0%N)).
Proof.
  intros Hname Hb Hd Hne Htext n Hbud. unfold parse_abbr.
  rewrite (tokenize_nested_rep name P ds Hname Hb Hd Hne). cbv zeta. unfold nested_abbr_tokens.
  set (ln := length name).
  set (nt := mkTok (TLiteral name) 0 ln).
  set (open := mkTok (TBracket true BExpr) ln (ln + 1)).
  set (close := mkTok (TBracket false BExpr) (ln + 1 + length (payload_text P)) (ln + 1 + length (payload_text P) + 1)).
  set (inner := payload_tokens (ln + 1) P).
  set (tr := mkTok (TRepeater (rep_count ds) 0 false) _ _).
  replace (([nt; open] ++ inner ++ [close]) ++ [tr]) with (nt :: open :: inner ++ [close; tr])
    by (cbn [app]; rewrite <- app_assoc; reflexivity).
  rewrite (parse_single jsx _ _ (block_text_rep jsx nt open close tr name inner (mkRep (rep_count ds) 0 false)
                                  eq_refl eq_refl eq_refl eq_refl (payload_tokens_plain _ _))).
  unfold leaf_node. cbn [lf_name lf_attrs lf_value lf_repeat lf_self].
  unfold convert. cbn [conv_list]. rewrite conv_stmt_unfold. unfold conv_stmt_body. cbn [node_rep].
  unfold eff_count. cbn [rimplicit rcount rvalue].
  change (if rep_count ds =? 0 then 1 else rep_count ds) with n.
  set (st0 := push_rep (mkRep n 0 false) _).
  assert (Hn1 : (1 <= n)%N) by apply written_count_pos.
  assert (Hrounds : N.to_nat (N.min n (Z.to_N (Z.max (cs_guard st0) 1))) = N.to_nat n).
  { f_equal. unfold st0, push_rep. cbn [cs_guard]. unfold budget_of in Hbud. lia. }
  rewrite Hrounds.
  destruct (iter_nested env name P (ln + 1) nt (Some (mkRep (rep_count ds) 0 false)) n [] (proj1 Hname) eq_refl Htext Hb
              (N.to_nat n) 0%N [] st0) as [st' E].
  - exists 0%N. reflexivity.
  - unfold st0, push_rep. cbn [cs_guard]. unfold budget_of in Hbud. lia.
  - lia.
  - unfold inner. rewrite E. cbn [bind app]. rewrite app_nil_r. rewrite Htext. reflexivity.
Qed.

(* C02 reading of it: without `${n}` fields every copy is ONE string *)
Theorem numbering_nested_text_full jsx env mr name P ds :
  name_ok name -> payload_ok P = true ->
  forallb (fun kt => negb (is_field (fst kt))) (snd P) = true -> payload_text P <> [] ->
  all_digits ds -> ds <> [] -> ce_text env = WNone ->
  let n := count_of ds in
  (Z.of_N n <= budget_of mr)%Z ->
  parse_abbr jsx env mr (name ++ c_lbrace :: payload_text P ++ c_rbrace :: c_star :: ds) =
    Ok (map (fun i => ANode (Some name) (Some [VStr (payload_out [mkRep n i false] P)]) (Some (mkRep n i false)) None [] false)
            (nseq (N.to_nat n) 0%N)).
Proof.
  intros Hname Hb Hnf Hne Hd Hdne Htext n Hbud.
  rewrite (text_nested_repeated_full jsx env mr name P ds Hname Hb Hd Hdne Htext Hbud).
  f_equal. apply map_ext. intros i. fold n. rewrite (nested_value_flat _ P Hnf Hne). reflexivity.
Qed.
