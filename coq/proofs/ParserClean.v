(* C02 -- what the parser puts into a tree comes from the token list:
   every token of a name / value / attribute is one of the input tokens (or the literal `id` / `class`
   the parser makes for `#x` / `.x`), every repeater is the payload of one of the input Repeater tokens.
   Hence (with SafeBridge.parse_tree_ok: no Repeater token inside a name / value):
     * a token list without `$#` tokens and without implicit repeaters (read by the three-state
       automaton [W MPlain] that every tokenizer output satisfies) parses to [clean_node] trees only --
       the domain of C02's copy / budget theorems;
     * every tokenizer output parses to [conv_node] trees only -- the domain of C04_wrap_implicit.
   Text level: no `$#` in the text and a digit after every `*`  ==>  no such tokens. *)
From Coq Require Import List Bool Lia Arith ZArith.
From Emmet Require Import lib.Base model.MarkupTokenizer model.MarkupParser model.MarkupConvert
     proofs.SafeParser proofs.SafeConvert proofs.SafeBridge proofs.SafeBridgeTok.
From Emmet Require proofs.ConvertProofs proofs.WrapFull.
Import ListNotations.

(* ================================================================ provenance, generic in what is tracked *)
Section Prov.
  Variable P : token -> bool.          (* holds for every input token *)
  Variable Q : rep -> bool.            (* holds for the payload of every input Repeater token *)
  Hypothesis Pid : P (literal_tok s_id) = true.
  Hypothesis Pclass : P (literal_tok s_class) = true.

  Definition Pl (l : list token) : bool := forallb P l.
  Definition Qt (t : token) : bool := match rep_of t with Some r => Q r | None => true end.
  Definition Ql (l : list token) : bool := forallb Qt l.
  Definition oP (o : option (list token)) : bool := match o with Some l => Pl l | None => true end.
  Definition attrP (a : tattr) : bool := oP (ta_name a) && oP (ta_value a).
  Definition oattrsP (o : option (list tattr)) : bool := match o with Some l => forallb attrP l | None => true end.
  Definition oQ (o : option rep) : bool := match o with Some r => Q r | None => true end.
  Fixpoint nodePQ (n : tnode) : bool :=
    match n with
    | TElem name attrs value rp _ els => oP name && oattrsP attrs && oP value && oQ rp && forallb nodePQ els
    | TGroup els rp => oQ rp && forallb nodePQ els
    end.

  Lemma Pl_firstn : forall n l, Pl l = true -> Pl (firstn n l) = true.
  Proof.
    induction n as [|n IH]; intros [|x l] H; try reflexivity.
    cbn [Pl forallb firstn] in *. apply andb_true_iff in H. destruct H as [H1 H2]. rewrite H1. apply IH. exact H2.
  Qed.
  Lemma Pl_skipn : forall n l, Pl l = true -> Pl (skipn n l) = true.
  Proof.
    induction n as [|n IH]; intros [|x l] H; try reflexivity; try exact H.
    cbn [Pl forallb skipn] in *. apply andb_true_iff in H. apply IH. apply H.
  Qed.
  Lemma Pl_tl : forall l, Pl l = true -> Pl (tl l) = true.
  Proof. intros [|x l] H; [reflexivity|]. cbn [Pl forallb tl] in *. apply andb_true_iff in H. apply H. Qed.
  Lemma Pl_get_text : forall l, Pl l = true -> Pl (get_text l) = true.
  Proof.
    intros l H. unfold get_text. destruct (rev l); [apply Pl_tl; exact H|].
    destruct (is_bracket t (Some BExpr) (Some false)); [apply Pl_firstn|]; apply Pl_tl; exact H.
  Qed.
  Lemma Ql_skipn : forall n l, Ql l = true -> Ql (skipn n l) = true.
  Proof.
    induction n as [|n IH]; intros [|x l] H; try reflexivity; try exact H.
    cbn [Ql forallb skipn] in *. apply andb_true_iff in H. apply IH. apply H.
  Qed.

  Lemma attrP_mk : forall n v e m, oP n = true -> oP v = true -> attrP (mkTAttr n v e m) = true.
  Proof. intros n v e m H H0. unfold attrP. cbn [ta_name ta_value]. rewrite H, H0. reflexivity. Qed.

  Lemma attribute_P : forall toks a n, Pl toks = true -> attribute toks = AOk a n -> attrP a = true.
  Proof.
    intros toks a n H E. unfold attribute in E.
    destruct (quoted toks) as [|m|p]; [| |discriminate].
    - destruct (literal true toks) as [|n1]; [discriminate|].
      set (r := skipn (S n1) toks) in *.
      assert (Hr1 : Pl (tl r) = true) by (apply Pl_tl, Pl_skipn, H).
      assert (Hn : oP (Some (firstn (S n1) toks)) = true) by (apply Pl_firstn, H).
      assert (Hv : forall k, oP (Some (firstn k (tl r))) = true) by (intros k; apply Pl_firstn, Hr1).
      destruct (hd_is (fun t => is_operator t (Some OpEqual)) r).
      + destruct (quoted (tl r)) as [|m|p]; [| |discriminate].
        * destruct (literal true (tl r)) as [|m]; injection E as <- <-; apply attrP_mk; auto.
          exact (Hv (S m)).
        * injection E as <- <-. apply attrP_mk; auto.
      + injection E as <- <-. apply attrP_mk; auto.
    - injection E as <- <-. apply attrP_mk; [reflexivity|]. apply (Pl_firstn m toks H).
  Qed.

  Lemma attr_set_loop_P : forall toks skip acc l c,
    Pl toks = true -> forallb attrP acc = true ->
    attr_set_loop skip acc toks = POk (l, c) -> forallb attrP l = true.
  Proof.
    induction toks as [|t r IH]; intros skip acc l c H Hacc E.
    - cbn in E. inversion E; subst. exact Hacc.
    - rewrite attr_set_loop_cons in E.
      assert (Hr : Pl r = true) by (apply (Pl_tl (t :: r)), H).
      destruct skip as [|k].
      + destruct (attribute (t :: r)) as [|a n|p] eqn:A; [| |discriminate].
        * destruct (is_bracket t (Some BAttr) (Some false)). { inversion E; subst. exact Hacc. }
          destruct (is_white_space_tok t); [|discriminate].
          destruct (attr_set_loop 0 acc r) as [[l' c']|] eqn:E2; [|discriminate]. inversion E; subst.
          eapply IH; eauto.
        * destruct (attr_set_loop (pred n) (acc ++ [a]) r) as [[l' c']|] eqn:E2; [|discriminate]. inversion E; subst.
          eapply IH; [exact Hr| |exact E2].
          rewrite forallb_app, Hacc. cbn [forallb]. rewrite (attribute_P _ _ _ H A). reflexivity.
      + destruct (attr_set_loop k acc r) as [[l' c']|] eqn:E2; [|discriminate]. inversion E; subst.
        eapply IH; eauto.
  Qed.

  Lemma attribute_set_P : forall toks l n, Pl toks = true -> attribute_set toks = ASOk l n -> forallb attrP l = true.
  Proof.
    intros [|t r] l n H E; cbn [attribute_set] in E; [discriminate|].
    destruct (is_bracket t (Some BAttr) (Some true)); [|discriminate].
    destruct (attr_set_loop 0 [] r) as [[l' c]|] eqn:E2; [|discriminate]. inversion E; subst.
    apply (attr_set_loop_P r 0 [] l c (Pl_tl (t :: r) H) eq_refl E2).
  Qed.

  Lemma short_attribute_P : forall jsx ty toks a n, Pl toks = true ->
    short_attribute jsx ty toks = Some (a, n) -> attrP a = true.
  Proof.
    intros jsx ty toks a n H E. unfold short_attribute in E.
    destruct (span_tok (fun t => is_operator t (Some ty)) toks) as [|c]; [discriminate|].
    set (r := skipn (S c) toks) in *.
    assert (Hr : Pl r = true) by (apply Pl_skipn, H).
    assert (Hname : oP (Some [literal_tok (match ty with OpId => s_id | _ => s_class end)]) = true).
    { cbn [oP Pl forallb]. destruct ty; rewrite ?Pid, ?Pclass; reflexivity. }
    destruct (if jsx then text r else 0) as [|tx].
    - destruct (literal false r) as [|mm]; injection E as <- <-; apply attrP_mk; auto.
      exact (Pl_firstn (S mm) r Hr).
    - injection E as <- <-. apply attrP_mk; auto. exact (Pl_get_text _ (Pl_firstn (S tx) r Hr)).
  Qed.

  Definition estPQ (s : est) : bool :=
    oP (e_name s) && oattrsP (e_attrs s) && oP (e_value s) && oQ (e_repeat s).

  Lemma estPQ_parts : forall s, estPQ s = true ->
    oP (e_name s) = true /\ oattrsP (e_attrs s) = true /\ oP (e_value s) = true /\ oQ (e_repeat s) = true.
  Proof.
    intros s H. unfold estPQ in H. repeat (apply andb_true_iff in H; destruct H as [H ?]). auto.
  Qed.
  Lemma estPQ_mk : forall a b c d e, oP a = true -> oattrsP b = true -> oP c = true -> oQ d = true ->
    estPQ (mkEst a b c d e) = true.
  Proof. intros. unfold estPQ. cbn [e_name e_attrs e_value e_repeat]. rewrite H, H0, H1, H2. reflexivity. Qed.

  Lemma est_add_attrs_PQ : forall s l, estPQ s = true -> forallb attrP l = true -> estPQ (est_add_attrs s l) = true.
  Proof.
    intros s l H Hl. destruct (estPQ_parts s H) as [P1 [P2 [P3 P4]]]. unfold est_add_attrs.
    apply estPQ_mk; auto. cbn [oattrsP]. destruct (e_attrs s) as [old|]; [|exact Hl].
    cbn [oattrsP] in P2. rewrite forallb_app, P2, Hl. reflexivity.
  Qed.

  Lemma Qt_rep : forall t rp, Qt t = true -> rep_of t = Some rp -> Q rp = true.
  Proof. intros t rp H E. unfold Qt in H. rewrite E in H. exact H. Qed.

  Lemma elem_body_PQ : forall jsx s toks, Pl toks = true -> Ql toks = true -> estPQ s = true ->
    match elem_body jsx s toks with
    | EBreak s' _ => estPQ s' = true
    | ECont s' _ => estPQ s' = true
    | EErr _ => True
    end.
  Proof.
    intros jsx s toks H HQ Hs. unfold elem_body.
    destruct toks as [|t r]; [exact Hs|].
    destruct (estPQ_parts s Hs) as [P1 [P2 [P3 P4]]].
    assert (Ht : Qt t = true) by (cbn [Ql forallb] in HQ; apply andb_true_iff in HQ; apply HQ).
    assert (G : match (let tx := match e_value s with None => text (t :: r) | Some _ => O end in
            match tx with
            | S _ => ECont (mkEst (e_name s) (e_attrs s) (Some (get_text (firstn tx (t :: r)))) (e_repeat s) (e_self s)) tx
            | O =>
                match short_attribute jsx OpId (t :: r) with
                | Some (a, n) => ECont (est_add_attrs s [a]) n
                | None =>
                    match short_attribute jsx OpClass (t :: r) with
                    | Some (a, n) => ECont (est_add_attrs s [a]) n
                    | None =>
                        match attribute_set (t :: r) with
                        | ASErr p => EErr p
                        | ASOk l n => ECont (est_add_attrs s l) n
                        | ASNone =>
                            if negb (est_empty s) && is_operator t (Some OpClose) then
                              let s' := mkEst (e_name s) (e_attrs s) (e_value s) (e_repeat s) true in
                              match e_repeat s', r with
                              | None, t2 :: _ =>
                                  match rep_of t2 with
                                  | Some rp => EBreak (mkEst (e_name s) (e_attrs s) (e_value s) (Some rp) true) 2
                                  | None => EBreak s' 1
                                  end
                              | _, _ => EBreak s' 1
                              end
                            else EBreak s O
                        end
                    end
                end
            end) with
    | EBreak s' _ => estPQ s' = true
    | ECont s' _ => estPQ s' = true
    | EErr _ => True
    end).
    { cbv zeta.
      destruct (match e_value s with None => text (t :: r) | Some _ => O end) as [|tx] eqn:TX.
      - destruct (short_attribute jsx OpId (t :: r)) as [[a n]|] eqn:S1.
        { apply est_add_attrs_PQ; auto. cbn [forallb]. rewrite (short_attribute_P _ _ _ _ _ H S1). reflexivity. }
        destruct (short_attribute jsx OpClass (t :: r)) as [[a n]|] eqn:S2.
        { apply est_add_attrs_PQ; auto. cbn [forallb]. rewrite (short_attribute_P _ _ _ _ _ H S2). reflexivity. }
        destruct (attribute_set (t :: r)) as [|l n|p] eqn:AS.
        + destruct (negb (est_empty s) && is_operator t (Some OpClose)); [|exact Hs].
          cbn [e_repeat]. destruct (e_repeat s) eqn:Er; [apply estPQ_mk; auto|].
          destruct r as [|t2 r2]; [apply estPQ_mk; auto|].
          destruct (rep_of t2) as [rp|] eqn:R2; apply estPQ_mk; auto.
          cbn [oQ]. apply (Qt_rep t2); [|exact R2].
          cbn [Ql forallb] in HQ. apply andb_true_iff in HQ. destruct HQ as [_ HQ].
          apply andb_true_iff in HQ. apply HQ.
        + apply est_add_attrs_PQ; auto. eapply attribute_set_P; eauto.
        + exact I.
      - apply estPQ_mk; auto. cbn [oP]. apply Pl_get_text, Pl_firstn, H. }
    destruct (e_repeat s); [exact G|].
    destruct (negb (est_empty s)); [|exact G].
    destruct (rep_of t) as [rp|] eqn:R; [|exact G].
    apply estPQ_mk; auto. cbn [oQ]. apply (Qt_rep t); assumption.
  Qed.

  Lemma elem_loop_PQ : forall jsx toks skip s s' c, Pl toks = true -> Ql toks = true -> estPQ s = true ->
    elem_loop jsx skip s toks = POk (s', c) -> estPQ s' = true.
  Proof.
    intros jsx. induction toks as [|t r IH]; intros skip s s' c H HQ Hs E.
    - cbn in E. inversion E; subst. exact Hs.
    - rewrite elem_loop_cons in E.
      assert (Hr : Pl r = true) by (apply (Pl_tl (t :: r)), H).
      assert (HQr : Ql r = true) by (apply (Ql_skipn 1 (t :: r)), HQ).
      destruct skip as [|k].
      + pose proof (elem_body_PQ jsx s (t :: r) H HQ Hs) as HB.
        destruct (elem_body jsx s (t :: r)) as [s1 n|s1 n|p]; [| |discriminate].
        * inversion E; subst. exact HB.
        * destruct (elem_loop jsx (pred n) s1 r) as [[s2 c2]|] eqn:E2; [|discriminate]. inversion E; subst.
          eapply IH; eauto.
      + destruct (elem_loop jsx k s r) as [[s2 c2]|] eqn:E2; [|discriminate]. inversion E; subst.
        eapply IH; eauto.
  Qed.

  Lemma element_PQ : forall jsx toks node c, Pl toks = true -> Ql toks = true ->
    element jsx toks = POk (Some (node, c)) -> nodePQ node = true.
  Proof.
    intros jsx toks node c H HQ E. unfold element in E.
    remember (element_name jsx toks) as nn eqn:Enn.
    set (s0 := mkEst (match nn with O => None | S _ => Some (firstn nn toks) end) None None None false) in *.
    assert (H0 : estPQ s0 = true).
    { apply estPQ_mk; try reflexivity. destruct nn; [reflexivity|]. cbn [oP]. apply Pl_firstn, H. }
    destruct (elem_loop jsx nn s0 toks) as [[s c']|] eqn:EL; [|discriminate].
    pose proof (elem_loop_PQ jsx toks nn s0 s c' H HQ H0 EL) as Hs.
    destruct (est_empty s); [discriminate|]. inversion E; subst.
    destruct (estPQ_parts s Hs) as [P1 [P2 [P3 P4]]].
    cbn [nodePQ forallb]. rewrite P1, P2, P3, P4. reflexivity.
  Qed.

  Lemma add_child_PQ : forall c n, nodePQ c = true -> nodePQ n = true -> nodePQ (add_child c n) = true.
  Proof.
    intros [name attrs value rp sc els|els rp] n Hc Hn; cbn [add_child nodePQ] in *.
    - repeat (apply andb_true_iff in Hc; destruct Hc as [Hc ?]).
      rewrite Hc, H2, H1, H0. rewrite forallb_app, H. cbn [forallb]. rewrite Hn. reflexivity.
    - apply andb_true_iff in Hc. destruct Hc as [H1 H2]. rewrite H1, forallb_app, H2. cbn [forallb]. rewrite Hn. reflexivity.
  Qed.

  Lemma close_all_PQ : forall stack cur, nodePQ cur = true -> forallb nodePQ stack = true ->
    nodePQ (close_all cur stack) = true.
  Proof.
    induction stack as [|p st IH]; intros cur Hc Hs; cbn [close_all]; [exact Hc|].
    cbn [forallb] in Hs. apply andb_true_iff in Hs. destruct Hs as [Hp Hs].
    apply IH; [apply add_child_PQ; assumption|exact Hs].
  Qed.

  Lemma climb_PQ : forall k cur stack c' s', nodePQ cur = true -> forallb nodePQ stack = true ->
    climb k cur stack = (c', s') -> nodePQ c' = true /\ forallb nodePQ s' = true.
  Proof.
    induction k as [|k IH]; intros cur stack c' s' Hc Hs E; cbn [climb] in E.
    - inversion E; subst. auto.
    - destruct stack as [|p st]. { inversion E; subst. auto. }
      cbn [forallb] in Hs. apply andb_true_iff in Hs. destruct Hs as [Hp Hs].
      eapply IH; [|exact Hs|exact E]. apply add_child_PQ; assumption.
  Qed.

  Lemma elements_of_PQ : forall n, nodePQ n = true -> forallb nodePQ (elements_of n) = true.
  Proof.
    intros [name attrs value rp sc els|els rp] H; cbn [nodePQ elements_of] in *; apply andb_true_iff in H; apply H.
  Qed.

  Lemma stmts_PQ : forall jsx toks skip cur stack els c, Pl toks = true -> Ql toks = true ->
    nodePQ cur = true -> forallb nodePQ stack = true ->
    stmts jsx skip cur stack toks = POk (els, c) -> forallb nodePQ els = true.
  Proof.
    intros jsx. induction toks as [|t r IH]; intros skip cur stack els c H HQ Hc Hs E.
    - cbn in E. inversion E; subst. apply elements_of_PQ. apply close_all_PQ; assumption.
    - rewrite stmts_cons in E.
      assert (Hr : Pl r = true) by (apply (Pl_tl (t :: r)), H).
      assert (HQr : Ql r = true) by (apply (Ql_skipn 1 (t :: r)), HQ).
      destruct skip as [|k].
      + assert (HP : match parsed_of jsx t r with POk (Some (node, _)) => nodePQ node = true | _ => True end).
        { unfold parsed_of. destruct (element jsx (t :: r)) as [[[node n]|]|p] eqn:EE; [| |exact I].
          - exact (element_PQ jsx (t :: r) node n H HQ EE).
          - destruct (is_bracket t (Some BGroup) (Some true)); [|exact I].
            destruct (stmts jsx 0 (TGroup [] None) [] r) as [[gels m]|] eqn:EG; [|exact I].
            pose proof (IH 0 (TGroup [] None) [] gels m Hr HQr eq_refl eq_refl EG) as HG.
            destruct (skipn m r) as [|c0 rest] eqn:Esk; [cbn [nodePQ oQ]; exact HG|].
            destruct (is_bracket c0 (Some BGroup) (Some false)); [|cbn [nodePQ oQ]; exact HG].
            destruct rest as [|t2 rest']; [cbn [nodePQ oQ]; exact HG|].
            destruct (rep_of t2) as [rp|] eqn:R2; [|cbn [nodePQ oQ]; exact HG].
            cbn [nodePQ oQ]. rewrite HG, andb_true_r. apply (Qt_rep t2); [|exact R2].
            pose proof (Ql_skipn m r HQr) as Hq. rewrite Esk in Hq. cbn [Ql forallb] in Hq.
            apply andb_true_iff in Hq. destruct Hq as [_ Hq]. apply andb_true_iff in Hq. apply Hq. }
        destruct (parsed_of jsx t r) as [[[node n]|]|p]; [| |discriminate].
        * cbv zeta in E.
          match type of E with context [if hd_is is_child_op ?a then ?x else ?y] =>
            destruct (if hd_is is_child_op a then x else y) as [[c1 s1] n1] eqn:ST end.
          assert (Hnext : nodePQ c1 = true /\ forallb nodePQ s1 = true).
          { match type of ST with (if ?b then _ else _) = _ => destruct b end.
            - inversion ST; subst. cbn [forallb]. rewrite Hc, Hs. auto.
            - match type of ST with (if ?b then _ else _) = _ => destruct b end.
              + inversion ST; subst. split; [apply add_child_PQ; assumption|exact Hs].
              + match type of ST with (let '(c', s') := ?e in _) = _ => destruct e as [c' s'] eqn:CL end.
                inversion ST; subst. eapply climb_PQ; [|exact Hs|exact CL]. apply add_child_PQ; assumption. }
          destruct Hnext as [Hc1 Hs1].
          destruct (stmts jsx (pred n1) c1 s1 r) as [[els' c']|] eqn:E2; [|discriminate]. inversion E; subst.
          eapply IH; eauto.
        * inversion E; subst. apply elements_of_PQ. apply close_all_PQ; assumption.
      + destruct (stmts jsx k cur stack r) as [[els' c']|] eqn:E2; [|discriminate]. inversion E; subst.
        eapply IH; eauto.
  Qed.

  Theorem parse_PQ : forall jsx toks root, Pl toks = true -> Ql toks = true ->
    parse jsx toks = POk root -> forallb nodePQ root = true.
  Proof.
    intros jsx toks root H HQ E. unfold parse in E.
    destruct (stmts jsx 0 (TGroup [] None) [] toks) as [[els c]|] eqn:ES; [|discriminate].
    destruct (skipn c toks); [|discriminate]. inversion E; subst.
    eapply stmts_PQ; [exact H|exact HQ| | |exact ES]; reflexivity.
  Qed.
End Prov.

(* ================================================================ the two domains *)
Import ConvertProofs WrapFull.

(* C07's [tnode_ok] is this development's [conv_node] *)
Lemma tok_ok_conv t : tok_ok t = conv_tok t.
Proof. reflexivity. Qed.
Lemma tnode_ok_conv : forall n, tnode_ok n = conv_node n.
Proof.
  induction n as [name attrs value rp sc els IH|els rp IH] using ConvertProofs.tnode_ind';
    (assert (Hels : forallb tnode_ok els = forallb conv_node els);
     [clear - IH; induction els as [|c l IHl]; [reflexivity|];
      inversion IH as [|x y Hc Hl]; subst; cbn [forallb]; rewrite Hc, (IHl Hl); reflexivity|]);
    cbn [tnode_ok conv_node]; rewrite Hels; reflexivity.
Qed.
Lemma forallb_tnode_ok_conv l : forallb tnode_ok l = forallb conv_node l.
Proof. induction l as [|c l IH]; [reflexivity|]. cbn [forallb]. rewrite tnode_ok_conv, IH. reflexivity. Qed.

(* tokens that are not `$#`; repeaters that are written with a number *)
Definition not_ph (t : token) : bool := negb (ph_tok t).
Definition counted (r : rep) : bool := negb (rimplicit r).

Lemma clean_tok_split t : conv_tok t = true -> not_ph t = true -> clean_tok t = true.
Proof.
  unfold conv_tok, not_ph, ph_tok, clean_tok. destruct (tk t) as [v|v|s|op b|o|c v i|size rev base par| |name idx]; auto.
Qed.
Lemma clean_toks_split l : conv_toks l = true -> Pl not_ph l = true -> clean_toks l = true.
Proof.
  induction l as [|t r IH]; intros H1 H2; [reflexivity|].
  cbn [conv_toks Pl clean_toks forallb] in *. apply andb_true_iff in H1. apply andb_true_iff in H2.
  destruct H1 as [A1 A2]. destruct H2 as [B1 B2]. rewrite (clean_tok_split t A1 B1). apply IH; assumption.
Qed.
Lemma clean_otoks_split o : conv_otoks o = true -> oP not_ph o = true -> clean_otoks o = true.
Proof. destruct o as [l|]; [apply clean_toks_split|reflexivity]. Qed.
Lemma clean_oattrs_split o : conv_oattrs o = true -> oattrsP not_ph o = true -> clean_oattrs o = true.
Proof.
  destruct o as [l|]; [|reflexivity]. cbn [conv_oattrs oattrsP clean_oattrs].
  induction l as [|a r IH]; intros H1 H2; [reflexivity|].
  cbn [forallb] in *. apply andb_true_iff in H1. apply andb_true_iff in H2.
  destruct H1 as [A1 A2]. destruct H2 as [B1 B2]. rewrite (IH A2 B2), andb_true_r.
  unfold conv_attr in A1. unfold attrP in B1. apply andb_true_iff in A1. apply andb_true_iff in B1.
  destruct A1 as [A11 A12]. destruct B1 as [B11 B12]. unfold clean_attr.
  rewrite (clean_otoks_split _ A11 B11), (clean_otoks_split _ A12 B12). reflexivity.
Qed.

Theorem clean_node_split : forall n, conv_node n = true -> nodePQ not_ph counted n = true -> clean_node n = true.
Proof.
  induction n as [name attrs value rp sc els IH|els rp IH] using ConvertProofs.tnode_ind'; intros H1 H2;
    cbn [conv_node nodePQ clean_node] in *.
  - repeat (apply andb_true_iff in H1; destruct H1 as [H1 ?]).
    repeat (apply andb_true_iff in H2; destruct H2 as [H2 ?]).
    rewrite (clean_otoks_split name), (clean_oattrs_split attrs), (clean_otoks_split value) by assumption.
    assert (Hr : clean_rep rp = true) by (destruct rp; assumption). rewrite Hr. cbn [andb].
    match goal with A : forallb conv_node els = true, B : forallb (nodePQ not_ph counted) els = true |- _ =>
      revert A B end. clear - IH.
    induction els as [|c l IHl]; intros A B; [reflexivity|]. inversion IH; subst.
    cbn [forallb] in *. apply andb_true_iff in A. apply andb_true_iff in B. destruct A, B.
    rewrite H1 by assumption. apply IHl; assumption.
  - apply andb_true_iff in H2. destruct H2 as [Hq H2].
    assert (Hr : clean_rep rp = true) by (destruct rp; assumption). rewrite Hr. cbn [andb].
    revert H1 H2. clear - IH.
    induction els as [|c l IHl]; intros A B; [reflexivity|]. inversion IH; subst.
    cbn [forallb] in *. apply andb_true_iff in A. apply andb_true_iff in B. destruct A, B.
    rewrite H1 by assumption. apply IHl; assumption.
Qed.

(* no `$#` token, no Repeater token without a number *)
Definition plain_tokens (toks : list token) : bool :=
  forallb (fun t => match tk t with
                    | TRepeaterPlaceholder => false
                    | TRepeater _ _ implicit => negb implicit
                    | _ => true
                    end) toks.

Lemma plain_tokens_PQ toks : plain_tokens toks = true -> Pl not_ph toks = true /\ Ql counted toks = true.
Proof.
  induction toks as [|t r IH]; intros H; [split; reflexivity|].
  cbn [plain_tokens forallb] in H. apply andb_true_iff in H. destruct H as [Ht Hr].
  destruct (IH Hr) as [I1 I2]. cbn [Pl Ql forallb]. fold (Pl not_ph r). fold (Ql counted r). rewrite I1, I2.
  unfold not_ph, ph_tok, Qt, rep_of, counted. cbn [rimplicit].
  destruct (tk t) as [v|v|s|op b|o|c v i|size rev base par| |name idx]; try discriminate; auto.
  cbn [rimplicit negb andb]. rewrite Ht. auto.
Qed.

(* (2) token level.  [W MPlain toks] holds for every tokenizer output (SafeBridgeTok.tokenize_W). *)
Theorem parser_output_clean jsx toks root :
  W MPlain toks = true -> plain_tokens toks = true ->
  parse jsx toks = POk root -> forallb clean_node root = true.
Proof.
  intros HW Hp E. destruct (plain_tokens_PQ toks Hp) as [H1 H2].
  pose proof (parse_tree_ok jsx toks root HW E) as Hok. rewrite forallb_tnode_ok_conv in Hok.
  pose proof (parse_PQ not_ph counted eq_refl eq_refl jsx toks root H1 H2 E) as Hpq.
  clear - Hok Hpq. induction root as [|c l IH]; [reflexivity|].
  cbn [forallb] in *. apply andb_true_iff in Hok. apply andb_true_iff in Hpq. destruct Hok, Hpq.
  rewrite clean_node_split by assumption. apply IH; assumption.
Qed.

(* every tokenizer output parses to printable trees: the domain of C04_wrap_implicit / convert_wrap_full *)
Theorem parser_output_printable jsx s toks root :
  tokenize s = TOk toks -> parse jsx toks = POk root -> forallb conv_node root = true.
Proof.
  intros Ht E. rewrite <- forallb_tnode_ok_conv. eapply parse_tree_ok; [|exact E]. eapply tokenize_W; exact Ht.
Qed.

(* ================================================================ the tokenizer: which text yields such tokens *)
(* `$#` does not occur; every `*` is followed by a digit *)
Fixpoint no_dollar_hash (s : str) : bool :=
  match s with
  | c1 :: r => match r with
               | c2 :: _ => negb ((c1 =? c_dollar)%N && (c2 =? c_hash)%N)
               | [] => true
               end && no_dollar_hash r
  | [] => true
  end.
Fixpoint stars_counted (s : str) : bool :=
  match s with
  | c :: r => (if (c =? c_star)%N then peek_p is_number r else true) && stars_counted r
  | [] => true
  end.

Definition plain_kind (k : tkind) : bool :=
  match k with TRepeaterPlaceholder => false | TRepeater _ _ implicit => negb implicit | _ => true end.

Lemma span_zero_peek p r : span p r = 0 -> peek_p p r = false.
Proof. destruct r as [|c r]; [reflexivity|]. cbn [span peek_p]. destruct (p c); [discriminate|reflexivity]. Qed.

Lemma field_is_field : forall ctx s k n, field ctx s = CTok k n -> exists name idx, k = TField name idx.
Proof.
  intros ctx s k n H. unfold field in H.
  destruct (truthy (cexpr ctx) || truthy (cattr ctx)); [|discriminate].
  destruct s as [|c1 [|c2 r]]; try discriminate.
  destruct ((c1 =? c_dollar)%N && (c2 =? c_lbrace)%N); [|discriminate].
  assert (G : forall (body : option (option N * str * nat) + nat),
             match body with
             | inr off => CErr off
             | inl None => CNone
             | inl (Some (idx, name, used)) =>
                 if peek_is c_rbrace (skipn used r)
                 then CTok (TField name idx) (2 + used + 1)
                 else CErr (2 + used)
             end = CTok k n -> exists name idx, k = TField name idx).
  { intros [[[[idx name] used]|]|off] HH; try discriminate.
    destruct (peek_is c_rbrace (skipn used r)); [|discriminate]. inversion HH; subst. eauto. }
  exact (G _ H).
Qed.

Lemma consume_plain ctx prev c r k n ctx' :
  consume ctx prev (c :: r) = (CTok k n, ctx') ->
  match r with c2 :: _ => negb ((c =? c_dollar)%N && (c2 =? c_hash)%N) | [] => true end = true ->
  (if (c =? c_star)%N then peek_p is_number r else true) = true ->
  plain_kind k = true.
Proof.
  intros E Hd Hs. unfold consume in E.
  destruct (field ctx (c :: r)) as [|kf nf|off] eqn:F.
  - cbn [orelse] in E.
    destruct (repeater_placeholder (c :: r)) as [|kp np|off] eqn:Pp.
    + cbn [orelse] in E.
      destruct (repeater_number (c :: r)) as [|kn nn|off] eqn:Nn.
      * cbn [orelse] in E.
        destruct (repeater ctx (c :: r)) as [|kr nr|off] eqn:Rr.
        -- cbn [orelse] in E.
           destruct (white_space (c :: r)) as [|kw nw|off] eqn:Ww.
           ++ destruct (lit (cquote ctx) (cattr ctx) (Z.min (cexpr ctx) 1) (cexpr ctx) prev false (c :: r)) as [[v nl] e].
              destruct nl as [|nl].
              ** inversion E as [[E1 E2]]. clear E E2.
                 unfold operator, quote, bracket, orelse in E1.
                 destruct (operator_type c); [inversion E1; reflexivity|].
                 destruct (is_quote c); [inversion E1; reflexivity|].
                 destruct (bracket_type c); [inversion E1; reflexivity|discriminate].
              ** inversion E; reflexivity.
           ++ inversion E; subst. unfold white_space in Ww. destruct (span is_space (c :: r)); inversion Ww; reflexivity.
           ++ inversion E.
        -- inversion E; subst. clear E. cbn [repeater] in Rr.
           destruct (is_allowed_repeater c _ && _) eqn:A; [|discriminate].
           assert (Hc : (c =? c_star)%N = true).
           { unfold is_allowed_repeater in A. repeat (apply andb_true_iff in A; destruct A as [A ?]). exact A. }
           rewrite Hc in Hs.
           destruct (span is_number r) eqn:Sp.
           ++ apply span_zero_peek in Sp. rewrite Sp in Hs. discriminate.
           ++ inversion Rr; reflexivity.
        -- inversion E.
      * inversion E; subst. unfold repeater_number in Nn.
        destruct (span (N.eqb c_dollar) (c :: r)); [discriminate|].
        destruct (peek_is c_at _); inversion Nn; reflexivity.
      * inversion E.
    + inversion E; subst. exfalso. cbn [repeater_placeholder] in Pp.
      destruct r as [|c2 r2]; [discriminate|].
      destruct ((c =? c_dollar)%N && (c2 =? c_hash)%N); [discriminate|discriminate].
    + inversion E.
  - inversion E; subst. destruct (field_is_field _ _ _ _ F) as [nm [ix ->]]. reflexivity.
  - inversion E.
Qed.

Lemma toks_plain : forall s skip ctx prev pos l,
  no_dollar_hash s = true -> stars_counted s = true ->
  toks skip ctx prev pos s = TOk l -> plain_tokens l = true.
Proof.
  induction s as [|c r IH]; intros skip ctx prev pos l Hd Hs E; cbn [toks] in E.
  - inversion E; reflexivity.
  - cbn [no_dollar_hash stars_counted] in Hd, Hs.
    apply andb_true_iff in Hd. destruct Hd as [Hd1 Hd2]. apply andb_true_iff in Hs. destruct Hs as [Hs1 Hs2].
    destruct skip as [|k].
    + destruct (consume ctx prev (c :: r)) as [[|kd n|off] ctx'] eqn:C; try discriminate.
      destruct (toks (Nat.pred n) ctx' (Some c) (S pos) r) as [l'|] eqn:T; [|discriminate].
      inversion E; subst. cbn [plain_tokens forallb tk].
      pose proof (consume_plain _ _ _ _ _ _ _ C Hd1 Hs1) as Hk. unfold plain_kind in Hk. rewrite Hk. cbn [andb].
      eapply IH; eauto.
    + eapply IH; eauto.
Qed.

Theorem tokenize_plain s l :
  no_dollar_hash s = true -> stars_counted s = true -> tokenize s = TOk l -> plain_tokens l = true.
Proof. intros Hd Hs E. unfold tokenize in E. eapply toks_plain; eauto. Qed.

(* (2) composed with the tokenizer *)
Theorem text_output_clean jsx s toks root :
  no_dollar_hash s = true -> stars_counted s = true ->
  tokenize s = TOk toks -> parse jsx toks = POk root -> forallb clean_node root = true.
Proof.
  intros Hd Hs Et Ep. eapply parser_output_clean; [|eapply tokenize_plain; eauto|exact Ep].
  eapply tokenize_W; exact Et.
Qed.

(* from the abbreviation text: convert is the wrap spec, whatever the text, the wrap lines and the limit *)
Theorem convert_text_full jsx env max_repeat s toks root :
  tokenize s = TOk toks -> parse jsx toks = POk root ->
  convert env max_repeat root = Ok (convert_w env max_repeat root).
Proof.
  intros Ht Ep. apply convert_wrap_full. exact (parser_output_printable jsx s toks root Ht Ep).
Qed.
