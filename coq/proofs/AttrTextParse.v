(* C03 / C04: the parser on the tokens of an element with `#id`, `.class` and `[ ... ]` attribute sets
   (the layout [elem_toks] that AttrText.tokenize_elem produces from the text): element() consumes the
   whole block and collects exactly the written attributes, in order.  The block satisfies
   ParserGroups.gblock_ok / ParserSpine.block_ok, so such elements plug into the C01 parser theorems. *)
From Coq Require Import ZArith List Bool Lia.
From Emmet Require Import lib.Base model.MarkupTokenizer model.MarkupParser proofs.ParserSpine proofs.ParserGroups
     proofs.TextSpec proofs.TextProofs proofs.TextParse proofs.AttrParseProofs proofs.AttrText.
Local Open Scope nat_scope.

(* ================================================================ attribute runs, generalised *)
(* [reads ts a]: attribute() reads the token run [ts] as the TokenAttribute [a] whenever white space
   or the closing `]` follows.  (AttrParseProofs.attribute_reads: every well-formed written attribute is
   such a run; below also unquoted values with parentheses.) *)
Definition reads (ts : list token) (a : tattr) : Prop :=
  ts <> [] /\ forall rest, ends_attr rest -> attribute (ts ++ rest) = AOk a (length ts).

Lemma reads_wattr w : wf w -> reads (wtokens w) (wparsed w).
Proof.
  intros W. split.
  - destruct (wtokens_nonempty w W) as [t [r E]]. rewrite E. discriminate.
  - intros rest E. apply attribute_reads; assumption.
Qed.

Definition run := (list token * tattr * list token)%type.
Fixpoint render_runs (l : list run) : list token :=
  match l with
  | [] => []
  | (ts, _, ws) :: r => ts ++ ws ++ render_runs r
  end.
Fixpoint runs_ok (l : list run) : Prop :=
  match l with
  | [] => True
  | (ts, a, ws) :: r => reads ts a /\ forallb is_white_space_tok ws = true /\ (r <> [] -> ws <> []) /\ runs_ok r
  end.

Lemma attr_set_loop_run ts a rest acc : reads ts a -> ends_attr rest ->
  attr_set_loop 0 acc (ts ++ rest) = lift (length ts) (attr_set_loop 0 (acc ++ [a]) rest).
Proof.
  intros [Hne R] E. pose proof (R rest E) as A.
  destruct ts as [|t r]; [congruence|].
  change ((t :: r) ++ rest) with (t :: (r ++ rest)) in *.
  cbn [attr_set_loop]. rewrite A. cbn [length pred].
  rewrite attr_set_loop_skip.
  destruct (attr_set_loop 0 (acc ++ [a]) rest) as [[l c]|]; reflexivity.
Qed.

Lemma attr_set_loop_runs : forall l acc close after,
  runs_ok l -> is_close_attr close = true ->
  attr_set_loop 0 acc (render_runs l ++ close :: after) =
  POk (acc ++ map (fun r => snd (fst r)) l, length (render_runs l) + 1).
Proof.
  induction l as [|[[ts a] ws] r IH]; intros acc close after OK C.
  - simpl. rewrite attribute_close by exact C. unfold is_close_attr in C. rewrite C. rewrite app_nil_r. reflexivity.
  - simpl in OK. destruct OK as [W [Hws [Hne OKr]]].
    cbn [render_runs]. rewrite <- !app_assoc.
    rewrite (attr_set_loop_run ts a); [|exact W|].
    + rewrite attr_set_loop_ws by exact Hws.
      rewrite IH by assumption. cbn [lift map fst snd].
      rewrite <- app_assoc. simpl. f_equal. f_equal. rewrite !app_length. lia.
    + destruct ws as [|t ws'].
      * simpl. destruct r as [|x r']; [simpl; right; exact C|]. exfalso. apply Hne; [discriminate|reflexivity].
      * apply ends_attr_ws; [exact Hws|discriminate].
Qed.

Theorem attribute_set_runs open lead l close after :
  is_bracket open (Some BAttr) (Some true) = true -> forallb is_white_space_tok lead = true ->
  runs_ok l -> is_close_attr close = true ->
  attribute_set (open :: lead ++ render_runs l ++ close :: after) =
  ASOk (map (fun r => snd (fst r)) l) (length (open :: lead ++ render_runs l) + 1).
Proof.
  intros O L OK C. unfold attribute_set. rewrite O.
  rewrite attr_set_loop_ws by exact L.
  rewrite attr_set_loop_runs by assumption. cbn [lift app length]. f_equal. rewrite !app_length. lia.
Qed.

(* ================================================================ unquoted values with parentheses *)
Lemma uq_toks_nil n pos : uq_toks n pos [] = [].
Proof. destruct n; reflexivity. Qed.

Lemma pdepth_asafe : forall w v d, forallb asafe w = true -> pdepth d (w ++ v) = pdepth d v.
Proof.
  induction w as [|c w IH]; intros v d H; [reflexivity|].
  cbn [forallb] in H. apply andb_true_iff in H. destruct H as [Hc Hw].
  destruct (asafe_not_paren c Hc) as [H1 H2]. cbn [app pdepth]. rewrite H1, H2. apply IH. exact Hw.
Qed.

(* literal(allow_brackets=True) runs through the whole value and keeps the parenthesis count *)
Lemma literal_uq : forall n v, length v <= n -> forallb usafe v = true ->
  forall d d' pos rest, pdepth d v = Some d' ->
  literal_n true 0 0 (Z.of_nat d) (uq_toks n pos v ++ rest) =
    length (uq_toks n pos v) + literal_n true 0 0 (Z.of_nat d') rest.
Proof.
  induction n as [|n IH]; intros v Hlen Hsafe d d' pos rest Hd.
  - destruct v; [|cbn [length] in Hlen; lia]. cbn in Hd. injection Hd as <-. reflexivity.
  - destruct v as [|c r].
    { cbn in Hd. injection Hd as <-. reflexivity. }
    cbn [length] in Hlen. pose proof Hsafe as Hsafe0.
    cbn [forallb] in Hsafe. apply andb_true_iff in Hsafe. destruct Hsafe as [Hc Hr].
    cbn [uq_toks]. cbn [pdepth] in Hd.
    destruct (c =? c_lparen)%N eqn:E1.
    { cbn [app literal_n length]. replace (truthy 0) with false by reflexivity.
      cbn [is_quote_tok is_operator is_white_space_tok is_repeater_tok tk tk1 orb negb bump].
      replace (Z.of_nat d + 1)%Z with (Z.of_nat (S d)) by lia.
      rewrite (IH r ltac:(lia) Hr (S d) d' (pos + 1) rest Hd). reflexivity. }
    destruct (c =? c_rparen)%N eqn:E2.
    { destruct d as [|d0]; [discriminate|].
      cbn [app literal_n length]. replace (truthy 0) with false by reflexivity.
      cbn [is_quote_tok is_operator is_white_space_tok is_repeater_tok tk tk1 orb negb bump counter].
      replace (truthy (Z.of_nat (S d0))) with true by (unfold truthy; destruct (Z.of_nat (S d0) =? 0)%Z eqn:E; [lia|reflexivity]).
      cbn [negb].
      replace (Z.of_nat (S d0) + -1)%Z with (Z.of_nat d0) by lia.
      rewrite (IH r ltac:(lia) Hr d0 d' (pos + 1) rest Hd). reflexivity. }
    assert (Hca : asafe c = true).
    { unfold usafe, is_paren in Hc. rewrite E1, E2 in Hc. cbn [orb] in Hc. rewrite orb_false_r in Hc. exact Hc. }
    set (v := c :: r) in *.
    set (k := span asafe v).
    set (w := firstn k v). set (v' := skipn k v).
    assert (HW : forallb asafe w = true) by (apply Forall_forallb, span_all).
    assert (HT : w ++ v' = v) by apply firstn_skipn.
    assert (Hwne : w <> []).
    { unfold w, k, v. cbn [span]. rewrite Hca. cbn [firstn]. discriminate. }
    assert (Hv'safe : forallb usafe v' = true) by (apply forallb_skipn; exact Hsafe0).
    assert (Hlen' : length v' <= n).
    { assert (length v = length w + length v') by (rewrite <- HT, app_length; reflexivity).
      destruct w; [congruence|]. cbn [length] in *. unfold v in H. cbn [length] in H. lia. }
    assert (Hd' : pdepth d v' = Some d').
    { rewrite <- (pdepth_asafe w v' d HW), HT. unfold v. cbn [pdepth]. rewrite E1, E2. exact Hd. }
    clearbody w v' k.
    cbn [app literal_n length]. replace (truthy 0) with false by reflexivity.
    cbn [is_quote_tok is_operator is_white_space_tok is_repeater_tok tk word_tok orb].
    rewrite (IH v' Hlen' Hv'safe d d' _ rest Hd'). reflexivity.
Qed.

Lemma uq_toks_head v pos :
  v <> [] -> forallb usafe v = true ->
  exists t r, uq_toks (length v) pos v = t :: r /\
    ((exists w, tk t = TLiteral w) \/ (exists o, tk t = TBracket o BGroup)).
Proof.
  intros Hne Hs. destruct v as [|c r]; [congruence|]. cbn [length uq_toks].
  destruct (c =? c_lparen)%N; [eexists; eexists; split; [reflexivity|right; eexists; reflexivity]|].
  destruct (c =? c_rparen)%N; [eexists; eexists; split; [reflexivity|right; eexists; reflexivity]|].
  eexists; eexists; split; [reflexivity|left; eexists; reflexivity].
Qed.

(* ================================================================ one written attribute as a run *)
Definition attr_tattr (pos : nat) (a : sattr) : tattr :=
  let p := pos + length (aname_text a) in
  mkTAttr (Some [aname_tok pos a])
    (match sa_value a with
     | SNone | SEmpty => None
     | SUnq v => Some (uq_toks (length v) (p + 1) v)
     | SQuo s q => Some (tk1 (TQuote s) (p + 1) :: text_tokens (p + 2) q ++ [tk1 (TQuote s) (p + 2 + length q)])
     | SBrace e =>
         Some (tk1 (TBracket true BExpr) (p + 1) :: text_tokens (p + 2) e ++ [tk1 (TBracket false BExpr) (p + 2 + length e)])
     end) false false.

Lemma text_tokens_forallb (p : token -> bool) pos T :
  (forall t v, tk t = TWhiteSpace v -> p t = true) -> (forall t v, tk t = TLiteral v -> p t = true) ->
  forallb p (text_tokens pos T) = true.
Proof.
  intros Hw Hl. unfold text_tokens. rewrite forallb_app. apply andb_true_iff. split.
  - destruct (ws_part T); [reflexivity|]. cbn [forallb]. erewrite Hw by reflexivity. reflexivity.
  - destruct (body_part T); [reflexivity|]. cbn [forallb]. erewrite Hl by reflexivity. reflexivity.
Qed.

Lemma attr_reads pos a : sattr_ok a -> reads (attr_toks pos a) (attr_tattr pos a).
Proof.
  intros [_ [_ [_ [_ Hv]]]].
  assert (Hn : AttrParseProofs.name_ok [aname_tok pos a]) by (split; [discriminate|reflexivity]).
  unfold attr_toks, attr_tattr. set (p := pos + length (aname_text a)).
  destruct (sa_value a) as [| |v|s q|e]; cbn [val_toks sval_ok] in *.
  - exact (reads_wattr (WName [aname_tok pos a]) Hn).
  - exact (reads_wattr (WEmpty [aname_tok pos a] (tk1 (TOperator OpEqual) p)) (conj Hn eq_refl)).
  - (* unquoted, possibly with parentheses *)
    destruct Hv as [Hne [Hsafe Hbal]]. split; [discriminate|]. intros rest E.
    set (U := uq_toks (length v) (p + 1) v).
    change ((aname_tok pos a :: tk1 (TOperator OpEqual) p :: U) ++ rest)
      with ([aname_tok pos a] ++ tk1 (TOperator OpEqual) p :: (U ++ rest)).
    rewrite attribute_unfold_name by (try exact Hn; apply eq_stops; reflexivity).
    cbn [hd_is tl]. replace (is_operator (tk1 (TOperator OpEqual) p) (Some OpEqual)) with true by reflexivity.
    cbv zeta.
    destruct (uq_toks_head v (p + 1) Hne Hsafe) as [t [r [EU Hk]]]. fold U in EU.
    assert (Hq : quoted (U ++ rest) = QNone).
    { rewrite EU. cbn [app]. unfold quoted. destruct Hk as [[w Hk]|[o Hk]]; rewrite Hk; reflexivity. }
    rewrite Hq.
    assert (Hl : literal true (U ++ rest) = length U).
    { pose proof (literal_uq (length v) v (le_n _) Hsafe 0 0 (p + 1) rest Hbal) as L.
      cbn [Z.of_nat] in L. unfold literal, U. rewrite L. rewrite (ends_attr_stops rest E). lia. }
    rewrite Hl. destruct (length U) as [|m] eqn:ELU; [rewrite EU in ELU; discriminate|].
    rewrite <- ELU. rewrite firstn_app_exact. reflexivity.
  - assert (W : wf (WQuoted [aname_tok pos a] (tk1 (TOperator OpEqual) p) (tk1 (TQuote s) (p + 1)) (text_tokens (p + 2) q)
                            (tk1 (TQuote s) (p + 2 + length q)))).
    { cbn [wf]. split; [exact Hn|]. split; [reflexivity|]. exists s. split; [reflexivity|]. split; [reflexivity|].
      apply text_tokens_forallb; intros t v H; unfold is_quote_tok; rewrite H; reflexivity. }
    exact (reads_wattr _ W).
  - assert (W : wf (WExpr [aname_tok pos a] (tk1 (TOperator OpEqual) p) (tk1 (TBracket true BExpr) (p + 1))
                          (text_tokens (p + 2) e) (tk1 (TBracket false BExpr) (p + 2 + length e)))).
    { cbn [wf]. split; [exact Hn|]. split; [reflexivity|]. split; [reflexivity|]. split; [reflexivity|].
      apply text_tokens_forallb; intros t v H; unfold is_bracket; rewrite H; reflexivity. }
    exact (reads_wattr _ W).
Qed.

(* ---------------------------------------------------------------- the attribute list *)
Lemma ws_toks_ws pos w : forallb is_white_space_tok (ws_toks pos w) = true.
Proof. destruct w; reflexivity. Qed.

Fixpoint lay (pos : nat) (l : list (sattr * str)) : list run :=
  match l with
  | [] => []
  | (a, w) :: l' =>
      (attr_toks pos a, attr_tattr pos a, ws_toks (pos + length (attr_text a)) w)
      :: lay (pos + length (attr_text a) + length w) l'
  end.

Lemma lay_render : forall l pos, render_runs (lay pos l) = attrs_toks pos l.
Proof.
  induction l as [|[a w] l IH]; intros pos; [reflexivity|].
  cbn [lay render_runs attrs_toks]. rewrite IH. reflexivity.
Qed.

Lemma lay_nonempty pos l : l <> [] -> lay pos l <> [].
Proof. destruct l as [|[a w] l]; [congruence|discriminate]. Qed.

Lemma lay_ok : forall l pos,
  Forall (fun aw => sattr_ok (fst aw) /\ ws_ok (snd aw)) l -> seps_ok l -> runs_ok (lay pos l).
Proof.
  induction l as [|[a w] l IH]; intros pos HF Hs; [exact I|].
  inversion HF as [|x y [Ha Hw] HF']; subst. cbn [fst snd] in *. cbn [seps_ok] in Hs. destruct Hs as [Hsep Hs'].
  cbn [lay runs_ok]. split; [apply attr_reads; exact Ha|]. split; [apply ws_toks_ws|]. split.
  - intros Hne. assert (Hl : l <> []) by (intros ->; apply Hne; reflexivity).
    specialize (Hsep Hl). destruct w; [congruence|discriminate].
  - apply IH; assumption.
Qed.

Definition set_tattrs (pos : nat) (l : list (sattr * str)) : list tattr := map (fun r => snd (fst r)) (lay pos l).

(* `[ lead a1 w1 ... an wn ]`: attribute_set reads back exactly the written attributes and consumes through `]` *)
Lemma attribute_set_part pos lead l after :
  spart_ok (PSet lead l) ->
  attribute_set (part_toks pos (PSet lead l) ++ after) =
    ASOk (set_tattrs (pos + 1 + length lead) l) (length (part_toks pos (PSet lead l))).
Proof.
  intros [Hlead [HF Hs]]. cbn [part_toks]. rewrite <- lay_render.
  pose proof (attribute_set_runs (tk1 (TBracket true BAttr) pos) (ws_toks (pos + 1) lead) (lay (pos + 1 + length lead) l)
                (tk1 (TBracket false BAttr) (pos + 1 + length lead + length (attrs_text l))) after
                eq_refl (ws_toks_ws _ _) (lay_ok l _ HF Hs) eq_refl) as H.
  cbn [app]. rewrite <- !app_assoc. cbn [app]. rewrite H.
  unfold set_tattrs. f_equal. cbn [length]. rewrite !app_length. cbn [length]. lia.
Qed.

(* ================================================================ the element loop *)
(* what may follow a shorthand value: any token that is not part of a literal run *)
Definition pstop (rest : list token) : Prop := match rest with [] => True | t :: _ => plain t = false end.

Lemma literal_false_stop rest : pstop rest -> literal_n false 0 0 0 rest = 0.
Proof.
  destruct rest as [|t r]; [reflexivity|]. cbn [pstop]. unfold plain. intros H. cbn [literal_n].
  replace (truthy 0) with false by reflexivity.
  unfold is_quote_tok, is_operator, is_white_space_tok, is_repeater_tok.
  destruct (tk t); try discriminate; reflexivity.
Qed.

Lemma pstop_not_name rest : pstop rest -> span_tok is_element_name_tok rest = 0.
Proof.
  destruct rest as [|t r]; [reflexivity|]. cbn [pstop span_tok]. unfold plain, is_element_name_tok.
  intros H. destruct (tk t); try discriminate; reflexivity.
Qed.

Definition short_tattr (nm : str) (pos : nat) (v : str) (multiple : bool) : tattr :=
  mkTAttr (Some [literal_tok nm]) (Some [word_tok pos v]) false multiple.

Definition part_tattrs (pos : nat) (p : spart) : list tattr :=
  match p with
  | PId k v => [short_tattr s_id (pos + S k) v (Nat.ltb 1 (S k))]
  | PClass k v => [short_tattr s_class (pos + S k) v (Nat.ltb 1 (S k))]
  | PSet lead l => set_tattrs (pos + 1 + length lead) l
  end.
Fixpoint parts_tattrs (pos : nat) (ps : list spart) : list tattr :=
  match ps with
  | [] => []
  | p :: ps' => part_tattrs pos p ++ parts_tattrs (pos + length (part_text p)) ps'
  end.
Fixpoint add_parts (s : est) (pos : nat) (ps : list spart) : est :=
  match ps with
  | [] => s
  | p :: ps' => add_parts (est_add_attrs s (part_tattrs pos p)) (pos + length (part_text p)) ps'
  end.

(* `#v` / `.v`, also with the operator repeated *)
Lemma op_run_length o pos n : length (op_run o pos n) = n.
Proof. revert pos. induction n as [|n IH]; intros pos; [reflexivity|]. cbn [op_run length]. rewrite IH. reflexivity. Qed.

Lemma span_op_run ty : (ty = OpId \/ ty = OpClass) -> forall n pos X,
  span_tok (fun t => is_operator t (Some ty)) (op_run ty pos n ++ X) = n + span_tok (fun t => is_operator t (Some ty)) X.
Proof.
  intros Hty. induction n as [|n IH]; intros pos X; [reflexivity|].
  cbn [op_run app span_tok]. replace (is_operator (tk1 (TOperator ty) pos) (Some ty)) with true
    by (destruct Hty as [-> | ->]; reflexivity).
  rewrite IH. reflexivity.
Qed.

Lemma short_attribute_word jsx ty n pos w rest :
  (ty = OpId \/ ty = OpClass) -> (exists v, tk w = TLiteral v) -> pstop rest ->
  short_attribute jsx ty (op_run ty pos (S n) ++ w :: rest) =
    Some (mkTAttr (Some [literal_tok (match ty with OpId => s_id | _ => s_class end)]) (Some [w]) false (Nat.ltb 1 (S n)),
          S n + 1).
Proof.
  intros Hty [v Hw] Hst. unfold short_attribute.
  rewrite (span_op_run ty Hty (S n) pos (w :: rest)).
  assert (E2 : is_operator w (Some ty) = false) by (unfold is_operator; rewrite Hw; reflexivity).
  cbn [span_tok]. rewrite E2. rewrite Nat.add_0_r.
  assert (Hsk : skipn (S n) (op_run ty pos (S n) ++ w :: rest) = w :: rest).
  { rewrite <- (op_run_length ty pos (S n)) at 1. apply skipn_app_exact. }
  rewrite Hsk.
  assert (Htx : text (w :: rest) = 0) by (unfold text, is_bracket; rewrite Hw; reflexivity).
  rewrite Htx.
  assert (Hl : literal false (w :: rest) = 1).
  { unfold literal. cbn [literal_n]. replace (truthy 0) with false by reflexivity.
    unfold is_quote_tok, is_operator, is_white_space_tok, is_repeater_tok. rewrite Hw. cbn [orb].
    rewrite literal_false_stop by exact Hst. reflexivity. }
  rewrite Hl. destruct jsx; reflexivity.
Qed.

Lemma short_attribute_other jsx ty t r :
  is_operator t (Some ty) = false -> short_attribute jsx ty (t :: r) = None.
Proof. intros H. unfold short_attribute. cbn [span_tok]. rewrite H. reflexivity. Qed.

Lemma elem_body_default jsx s t r (res : estep) :
  rep_of t = None ->
  (let tx := match e_value s with None => text (t :: r) | Some _ => 0 end in
   match tx with
   | S _ => ECont (mkEst (e_name s) (e_attrs s) (Some (get_text (firstn tx (t :: r)))) (e_repeat s) (e_self s)) tx
   | O =>
       match short_attribute jsx OpId (t :: r) with
       | Some (a, n) => ECont (est_add_attrs s [a]) n
       | None =>
           match short_attribute jsx OpClass (t :: r) with
           | Some (a, n) => ECont (est_add_attrs s [a]) n
           | None =>
               match attribute_set (t :: r) with
               | ASErr p => EErr p
               | ASOk l n => ECont (est_add_attrs s l) n
               | ASNone =>
                   if negb (est_empty s) && is_operator t (Some OpClose) then
                     let s' := mkEst (e_name s) (e_attrs s) (e_value s) (e_repeat s) true in
                     match e_repeat s', r with
                     | None, t2 :: _ =>
                         match rep_of t2 with
                         | Some rp => EBreak (mkEst (e_name s) (e_attrs s) (e_value s) (Some rp) true) 2
                         | None => EBreak s' 1
                         end
                     | _, _ => EBreak s' 1
                     end
                   else EBreak s O
               end
           end
       end
   end) = res ->
  elem_body jsx s (t :: r) = res.
Proof.
  intros Hr H. unfold elem_body. rewrite Hr.
  destruct (e_repeat s), (negb (est_empty s)); exact H.
Qed.

Lemma text_zero t r : is_bracket t (Some BExpr) (Some true) = false -> text (t :: r) = 0.
Proof. intros H. unfold text. rewrite H. reflexivity. Qed.

Lemma elem_body_part jsx s pos p rest :
  spart_ok p -> pstop rest ->
  elem_body jsx s (part_toks pos p ++ rest) = ECont (est_add_attrs s (part_tattrs pos p)) (length (part_toks pos p)).
Proof.
  intros Hok Hst. destruct p as [k v|k v|lead l]; cbn [part_toks].
  - rewrite <- app_assoc. cbn [app]. rewrite app_length, op_run_length. cbn [length].
    cbn [op_run app]. apply elem_body_default; [reflexivity|]. cbv zeta.
    rewrite text_zero by reflexivity.
    change (tk1 (TOperator OpId) pos :: op_run OpId (pos + 1) k ++ word_tok (pos + S k) v :: rest)
      with (op_run OpId pos (S k) ++ word_tok (pos + S k) v :: rest).
    rewrite (short_attribute_word jsx OpId k pos) by (try exact Hst; auto; eexists; reflexivity).
    destruct (e_value s); reflexivity.
  - rewrite <- app_assoc. cbn [app]. rewrite app_length, op_run_length. cbn [length].
    cbn [op_run app]. apply elem_body_default; [reflexivity|]. cbv zeta.
    rewrite text_zero by reflexivity.
    rewrite (short_attribute_other jsx OpId) by reflexivity.
    change (tk1 (TOperator OpClass) pos :: op_run OpClass (pos + 1) k ++ word_tok (pos + S k) v :: rest)
      with (op_run OpClass pos (S k) ++ word_tok (pos + S k) v :: rest).
    rewrite (short_attribute_word jsx OpClass k pos) by (try exact Hst; auto; eexists; reflexivity).
    destruct (e_value s); reflexivity.
  - cbn [app]. apply elem_body_default; [reflexivity|]. cbv zeta.
    rewrite text_zero by reflexivity.
    rewrite (short_attribute_other jsx OpId) by reflexivity.
    rewrite (short_attribute_other jsx OpClass) by reflexivity.
    pose proof (attribute_set_part pos lead l rest Hok) as H. cbn [part_toks app] in H. rewrite H.
    destruct (e_value s); reflexivity.
Qed.

Lemma part_toks_pstop pos p rest : pstop (part_toks pos p ++ rest).
Proof. destruct p; reflexivity. Qed.

Lemma parts_toks_pstop pos ps rest : pstop rest -> pstop (parts_toks pos ps ++ rest).
Proof.
  intros H. destruct ps as [|p ps']; [exact H|]. cbn [parts_toks]. rewrite <- app_assoc. apply part_toks_pstop.
Qed.

Lemma part_toks_cons pos p : exists t r, part_toks pos p = t :: r.
Proof. destruct p; cbn [part_toks op_run app]; eauto. Qed.

Lemma elem_loop_parts jsx : forall ps s pos rest,
  Forall spart_ok ps -> pstop rest ->
  elem_loop jsx 0 s (parts_toks pos ps ++ rest) =
    shiftE (length (parts_toks pos ps)) (elem_loop jsx 0 (add_parts s pos ps) rest).
Proof.
  induction ps as [|p ps IH]; intros s pos rest HF Hst.
  - cbn [parts_toks app length add_parts]. destruct (elem_loop jsx 0 s rest) as [[s' c]|e]; reflexivity.
  - inversion HF as [|x y Hp HF']; subst.
    cbn [parts_toks add_parts]. rewrite <- app_assoc.
    pose proof (elem_body_part jsx s pos p (parts_toks (pos + length (part_text p)) ps ++ rest) Hp
                  (parts_toks_pstop _ ps rest Hst)) as Hb.
    destruct (part_toks_cons pos p) as [t [r E]]. rewrite E in *.
    cbn [app] in *. cbn [elem_loop]. rewrite Hb. cbn [length pred].
    rewrite elem_loop_skip. rewrite IH by assumption.
    rewrite app_length. cbn [length].
    destruct (elem_loop jsx 0 (add_parts (est_add_attrs s (part_tattrs pos p)) (pos + length (part_text p)) ps) rest)
      as [[s' c]|e]; cbn [shiftE]; [|reflexivity].
    f_equal. f_equal. lia.
Qed.

(* at `>`, `+`, `^`, `)` or the end the element is complete *)
Lemma elem_loop_gboundary jsx s rest : gboundary rest -> elem_loop jsx 0 s rest = POk (s, 0).
Proof.
  destruct rest as [|t r]; [reflexivity|]. cbn [gboundary]. unfold op_tok, gclose_tok. intros Hb.
  cbn [elem_loop].
  assert (E : elem_body jsx s (t :: r) = EBreak s 0).
  { apply elem_body_default.
    - unfold rep_of. destruct Hb as [H|[H|[H|H]]]; rewrite H; reflexivity.
    - cbv zeta.
      assert (Htx : text (t :: r) = 0).
      { unfold text, is_bracket. destruct Hb as [H|[H|[H|H]]]; rewrite H; reflexivity. }
      assert (Hid : short_attribute jsx OpId (t :: r) = None).
      { apply short_attribute_other. unfold is_operator. destruct Hb as [H|[H|[H|H]]]; rewrite H; reflexivity. }
      assert (Hcl : short_attribute jsx OpClass (t :: r) = None).
      { apply short_attribute_other. unfold is_operator. destruct Hb as [H|[H|[H|H]]]; rewrite H; reflexivity. }
      assert (Has : attribute_set (t :: r) = ASNone).
      { unfold attribute_set, is_bracket. destruct Hb as [H|[H|[H|H]]]; rewrite H; reflexivity. }
      assert (Hclose : is_operator t (Some OpClose) = false).
      { unfold is_operator. destruct Hb as [H|[H|[H|H]]]; rewrite H; reflexivity. }
      rewrite Htx, Hid, Hcl, Has, Hclose, andb_false_r. destruct (e_value s); reflexivity. }
  rewrite E. reflexivity.
Qed.

Lemma gboundary_pstop rest : gboundary rest -> pstop rest.
Proof.
  destruct rest as [|t r]; [auto|]. cbn [gboundary pstop]. unfold op_tok, gclose_tok, plain.
  intros [H|[H|[H|H]]]; rewrite H; reflexivity.
Qed.

(* ---------------------------------------------------------------- what the loop has collected *)
Lemma add_parts_fields : forall ps s pos,
  e_name (add_parts s pos ps) = e_name s /\ e_value (add_parts s pos ps) = e_value s /\
  e_repeat (add_parts s pos ps) = e_repeat s /\ e_self (add_parts s pos ps) = e_self s /\
  e_attrs (add_parts s pos ps) =
    match ps with
    | [] => e_attrs s
    | _ => Some (match e_attrs s with None => [] | Some o => o end ++ parts_tattrs pos ps)
    end.
Proof.
  induction ps as [|p ps IH]; intros s pos; [repeat split; reflexivity|].
  cbn [add_parts parts_tattrs].
  destruct (IH (est_add_attrs s (part_tattrs pos p)) (pos + length (part_text p))) as [H1 [H2 [H3 [H4 H5]]]].
  rewrite H1, H2, H3, H4, H5. cbn [est_add_attrs e_name e_value e_repeat e_self e_attrs].
  repeat split; try reflexivity.
  destruct ps as [|q ps'].
  - cbn [parts_tattrs]. rewrite app_nil_r. destruct (e_attrs s); reflexivity.
  - destruct (e_attrs s); cbn [app]; rewrite ?app_assoc; reflexivity.
Qed.

(* ================================================================ the element block *)
Definition head_upper (s : str) : bool := match s with c :: _ => in_range c_A c_Z c | [] => false end.
(* under jsx a Capitalized name followed by `.Capitalized` is a component path, not a class *)
Definition jsx_ok (jsx : bool) (e : selem) : Prop := jsx = false \/ head_upper (se_name e) = false.

Definition elem_tattrs (pos : nat) (e : selem) : option (list tattr) :=
  match se_parts e with
  | [] => None
  | ps => Some (parts_tattrs (pos + length (se_name e)) ps)
  end.
Definition elem_value (pos : nat) (e : selem) : option (list token) :=
  match se_text e with
  | None => None
  | Some T => Some (text_tokens (pos + length (se_name e) + length (parts_text (se_parts e)) + 1) T)
  end.
Definition elem_leaf (pos : nat) (e : selem) : leaf :=
  mkLeaf (Some [word_tok pos (se_name e)]) (elem_tattrs pos e) (elem_value pos e) None (se_close e).

(* `{ inner }` after the parts: text() takes the whole run *)
Lemma text_tokens_plain' pos T : Forall not_expr_bracket (text_tokens pos T).
Proof.
  unfold text_tokens. apply Forall_app. split.
  - destruct (ws_part T); repeat constructor.
  - destruct (body_part T); repeat constructor.
Qed.

Lemma elem_body_text jsx s open inner close rest :
  tk open = TBracket true BExpr -> tk close = TBracket false BExpr -> Forall not_expr_bracket inner ->
  e_value s = None ->
  elem_body jsx s (open :: (inner ++ [close]) ++ rest) =
    ECont (mkEst (e_name s) (e_attrs s) (Some inner) (e_repeat s) (e_self s)) (S (length inner + 1)).
Proof.
  intros Ho Hc HF Hv. apply elem_body_default; [unfold rep_of; rewrite Ho; reflexivity|]. cbv zeta. rewrite Hv.
  assert (Htx : text (open :: (inner ++ [close]) ++ rest) = S (length inner + 1)).
  { unfold text, is_bracket. rewrite Ho. cbn [bctx_eqb Bool.eqb andb].
    rewrite <- app_assoc. cbn [app]. rewrite text_loop_inner by assumption.
    cbn [text_loop]. rewrite Hc. reflexivity. }
  rewrite Htx. f_equal. f_equal.
  cbn [firstn]. rewrite <- app_assoc.
  replace (length inner + 1) with (length (inner ++ [close])) by (rewrite app_length; reflexivity).
  rewrite app_assoc. rewrite firstn_app, firstn_all, Nat.sub_diag. cbn [firstn]. rewrite app_nil_r.
  rewrite get_text_run by exact Hc. reflexivity.
Qed.

Definition set_value (s : est) (v : option (list token)) : est :=
  match v with None => s | Some _ => mkEst (e_name s) (e_attrs s) v (e_repeat s) (e_self s) end.

Lemma elem_loop_tail jsx s pos t R :
  e_value s = None ->
  elem_loop jsx 0 s (tail_toks pos t ++ R) =
    shiftE (length (tail_toks pos t))
           (elem_loop jsx 0 (set_value s (match t with None => None | Some T => Some (text_tokens (pos + 1) T) end)) R).
Proof.
  intros Hv. destruct t as [T|]; cbn [tail_toks set_value app length].
  - cbn [elem_loop].
    rewrite (elem_body_text jsx s (tk1 (TBracket true BExpr) pos) (text_tokens (pos + 1) T)
               (tk1 (TBracket false BExpr) (pos + 1 + length T)) R eq_refl eq_refl (text_tokens_plain' _ _) Hv).
    cbn [pred].
    replace (length (text_tokens (pos + 1) T) + 1) with (length (text_tokens (pos + 1) T ++ [tk1 (TBracket false BExpr) (pos + 1 + length T)]))
      by (rewrite app_length; reflexivity).
    rewrite elem_loop_skip.
    destruct (elem_loop jsx 0 _ R) as [[s' c]|p]; reflexivity.
  - destruct (elem_loop jsx 0 s R) as [[s' c]|p]; reflexivity.
Qed.

(* the self-closing mark `/` ends the element *)
Definition set_self (s : est) (b : bool) : est :=
  if b then mkEst (e_name s) (e_attrs s) (e_value s) (e_repeat s) true else s.

Lemma elem_loop_close jsx s pos b rest :
  est_empty s = false -> e_repeat s = None -> gboundary rest ->
  elem_loop jsx 0 s (close_toks pos b ++ rest) = POk (set_self s b, length (close_toks pos b)).
Proof.
  intros Hne Hrep Hb. destruct b; cbn [close_toks set_self app length]; [|apply elem_loop_gboundary; exact Hb].
  cbn [elem_loop].
  assert (E : elem_body jsx s (tk1 (TOperator OpClose) pos :: rest)
              = EBreak (mkEst (e_name s) (e_attrs s) (e_value s) (e_repeat s) true) 1).
  { apply elem_body_default; [reflexivity|]. cbv zeta.
    rewrite text_zero by reflexivity.
    rewrite (short_attribute_other jsx OpId) by reflexivity.
    rewrite (short_attribute_other jsx OpClass) by reflexivity.
    replace (attribute_set (tk1 (TOperator OpClose) pos :: rest)) with ASNone by reflexivity.
    rewrite Hne. cbn [negb andb]. replace (is_operator (tk1 (TOperator OpClose) pos) (Some OpClose)) with true by reflexivity.
    cbn [e_repeat]. rewrite Hrep.
    destruct rest as [|t2 r2]; [destruct (e_value s); reflexivity|].
    pose proof (gboundary_rep_none (t2 :: r2) Hb) as Hr. cbn in Hr. rewrite Hr.
    destruct (e_value s); reflexivity. }
  rewrite E. reflexivity.
Qed.

Lemma close_toks_pstop pos b rest : gboundary rest -> pstop (close_toks pos b ++ rest).
Proof. destruct b; cbn [close_toks app]; [intros _; reflexivity|apply gboundary_pstop]. Qed.

Lemma tail_toks_pstop pos t R : pstop R -> pstop (tail_toks pos t ++ R).
Proof. destruct t; cbn [tail_toks app]; [intros _; reflexivity|auto]. Qed.

Theorem elem_gblock jsx pos e :
  selem_ok e -> jsx_ok jsx e -> gblock_ok jsx (elem_toks pos e) (elem_leaf pos e).
Proof.
  intros [Hn [Hp Ht]] Hj. split; [discriminate|]. split; [reflexivity|].
  intros rest Hb. unfold elem_toks. cbn [app]. rewrite <- !app_assoc.
  set (nt := word_tok pos (se_name e)).
  set (p1 := pos + length (se_name e)).
  set (p2 := p1 + length (parts_text (se_parts e))).
  set (CL := close_toks (p2 + length (tail_text (se_text e))) (se_close e) ++ rest).
  set (TL := tail_toks p2 (se_text e) ++ CL).
  set (X := parts_toks p1 (se_parts e) ++ TL).
  assert (HCL : pstop CL) by (apply close_toks_pstop; exact Hb).
  assert (HTL : pstop TL) by (apply tail_toks_pstop; exact HCL).
  assert (HX : pstop X) by (apply parts_toks_pstop; exact HTL).
  assert (Hcap : jsx && is_capitalized_literal nt = false).
  { destruct Hj as [->|Hj]; [reflexivity|]. unfold is_capitalized_literal, nt, word_tok. cbn [tk].
    unfold head_upper in Hj. destruct (se_name e); [apply andb_false_r|]. rewrite Hj. apply andb_false_r. }
  assert (Hname : element_name jsx (nt :: X) = 1).
  { unfold element_name. cbn [hd_is]. rewrite Hcap. cbn [Nat.add skipn span_tok].
    replace (is_element_name_tok nt) with true by reflexivity.
    rewrite (pstop_not_name X HX). reflexivity. }
  unfold element. rewrite Hname. cbn [firstn elem_loop].
  unfold X. rewrite elem_loop_parts by assumption.
  destruct (add_parts_fields (se_parts e) (mkEst (Some [nt]) None None None false) p1)
    as [H1 [H2 [H3 [H4 H5]]]].
  cbn [e_name e_value e_repeat e_self e_attrs] in *.
  unfold TL. rewrite elem_loop_tail by assumption.
  set (s1 := add_parts (mkEst (Some [nt]) None None None false) p1 (se_parts e)) in *.
  set (s2 := set_value s1 (match se_text e with None => None | Some T => Some (text_tokens (p2 + 1) T) end)).
  assert (Hs2 : e_name s2 = Some [nt] /\ e_repeat s2 = None /\ e_attrs s2 = e_attrs s1 /\ e_self s2 = false /\
                e_value s2 = match se_text e with None => None | Some T => Some (text_tokens (p2 + 1) T) end).
  { unfold s2. destruct (se_text e); cbn [set_value e_name e_repeat e_attrs e_self e_value]; auto. }
  destruct Hs2 as [G1 [G2 [G3 [G4 G5]]]].
  unfold CL. rewrite elem_loop_close; [| |exact G2|exact Hb].
  2:{ unfold est_empty. rewrite G1. reflexivity. }
  cbn [shiftE].
  assert (Hemp : est_empty (set_self s2 (se_close e)) = false).
  { unfold est_empty, set_self. destruct (se_close e); cbn [e_name]; rewrite G1; reflexivity. }
  rewrite Hemp.
  unfold elem_leaf, elem_tattrs, elem_value, leaf_node. cbn [lf_name lf_attrs lf_value lf_repeat lf_self].
  fold p1. fold p2.
  assert (Hf : e_name (set_self s2 (se_close e)) = Some [nt] /\ e_attrs (set_self s2 (se_close e)) = e_attrs s1 /\
               e_value (set_self s2 (se_close e)) = e_value s2 /\ e_repeat (set_self s2 (se_close e)) = None /\
               e_self (set_self s2 (se_close e)) = se_close e).
  { unfold set_self. destruct (se_close e); cbn [e_name e_attrs e_value e_repeat e_self]; auto. }
  destruct Hf as [F1 [F2 [F3 [F4 F5]]]]. rewrite F1, F2, F3, F4, F5, G5, H5.
  cbn [length]. rewrite !app_length.
  destruct (se_parts e) as [|p ps]; reflexivity.
Qed.

Lemma boundary_gboundary rest : boundary rest -> gboundary rest.
Proof. destruct rest as [|t r]; [auto|]. cbn [boundary gboundary]. tauto. Qed.

Theorem elem_block jsx pos e :
  selem_ok e -> jsx_ok jsx e -> block_ok jsx (elem_toks pos e) (elem_leaf pos e).
Proof.
  intros H Hj. destruct (elem_gblock jsx pos e H Hj) as [H1 [H2 H3]].
  split; [exact H1|]. split; [exact H2|]. intros rest Hb. apply H3. apply boundary_gboundary. exact Hb.
Qed.
