(* C01, implicit names: every element carries the class / id attribute it was written with, at
   chunk level.  The open tags of the output (FormatAttrChunks.open_tags: the chunk `<name`, then
   every chunk up to the one ending with `>` as attribute text) are, in document order, the
   elements of the denoted tree: names as in ExpandImplicitStr.idenote, attribute text as
   AttrProofs.attr_out_spec prescribes for the written shorthand (` class="cls"` / ` id="x"` under
   the default tables and quotes).
   Spec side: the same marks as for the names, labelled with the written shorthand (`.cls`, `#id`
   or nothing) instead of the name, unrolled by the same ExpandGroups.unrollM. *)
From Emmet Require Import lib.Base model.MarkupTokenizer model.MarkupParser model.MarkupConvert
     model.MarkupResolve model.OutStream model.FormatHtml model.FormatIndent model.MarkupExpand.
From Emmet Require Import proofs.ParserSpine proofs.ParserGroups proofs.TokenizeRender proofs.NumberingProofs
     proofs.ConvertProofs proofs.SafeResolve proofs.IndentStream proofs.HtmlEvents proofs.AttrProofs proofs.ExpandTree proofs.ExpandFlat
     proofs.ExpandRepeat proofs.ExpandGroupsTok proofs.ExpandGroups proofs.ImplicitSpec proofs.ExpandImplicit
     proofs.ExpandImplicitTok proofs.ExpandImplicitStr proofs.FormatAttrChunks.
Local Open Scope nat_scope.

(* ================================================================ SPEC *)
(* the shorthand as written: `.cls`, `#id`, or nothing *)
Definition av_label (av : option (str * str)) : str :=
  match av with
  | Some (k, w) => (if str_eqb k s_class then c_dot else c_hash) :: w
  | None => []
  end.
(* ... read back *)
Definition label_attr (t : str) : option aattr :=
  match t with
  | ch :: w => if (ch =? c_dot)%N then Some (sh_aattr s_class w)
               else if (ch =? c_hash)%N then Some (sh_aattr s_id w) else None
  | [] => None
  end.
(* the attribute text of an open tag written with that shorthand: what push_attribute writes *)
Definition sh_attr_text (c : oconfig) (t : str) : str :=
  match label_attr t with Some a => form_text (attr_out_spec c a) | None => [] end.

Fixpoint imarksSU (p : nat) (u : iunit) : list smark :=
  match u with
  | IE _ sh r => [SE p (sh_text sh) (copies_of r)]
  | IG body r => SO p :: imarks_with imarksSU p 0 body ++ [SC p (copies_of r)]
  end.
Definition imarksS (off d : nat) (xs : istmt) : list smark := imarks_with imarksSU off d xs.
(* the unrolled preorder (depth, written shorthand) list *)
Definition unrollS (xs : istmt) : list (nat * str) := unrollM (imarksS 0 0 xs).

(* ================================================================ labels of token trees *)
Definition tlabel (b : option (list tattr)) : str :=
  match attrs_view b with Some av => av_label av | None => [] end.

(* the same tree, every element named by its label *)
Fixpoint rl (n : tnode) : tnode :=
  match n with
  | TElem a b c r s els => TElem (Some [literal_tok (tlabel b)]) b c r s (map rl els)
  | TGroup els r => TGroup (map rl els) r
  end.
Definition rl_leaf (l : leaf) : leaf :=
  mkLeaf (Some [literal_tok (tlabel (lf_attrs l))]) (lf_attrs l) (lf_value l) (lf_repeat l) (lf_self l).
Definition rlm (m : mark) : mark :=
  match m with MElem d l => MElem d (rl_leaf l) | other => other end.

Lemma preM_rl : forall n d, preM d (rl n) = map rlm (preM d n).
Proof.
  induction n as [a b c r s els IH|els r IH] using tnode_ind'; intros d; cbn [rl].
  - rewrite !preM_elem. cbn [map rlm rl_leaf lf_attrs lf_value lf_repeat lf_self]. f_equal.
    unfold preML. rewrite map_flat_map, flat_map_concat_map, map_map, <- flat_map_concat_map.
    apply flat_map_ext_Forall. eapply Forall_impl; [|exact IH]. cbn beta. intros k Hk. apply Hk.
  - rewrite !preM_group. cbn [map rlm]. rewrite map_app. cbn [map rlm]. f_equal. f_equal.
    unfold preML. rewrite map_flat_map, flat_map_concat_map, map_map, <- flat_map_concat_map.
    apply flat_map_ext_Forall. eapply Forall_impl; [|exact IH]. cbn beta. intros k Hk. apply Hk.
Qed.

Lemma preML_rl l d : preML d (map rl l) = map rlm (preML d l).
Proof.
  unfold preML. rewrite map_flat_map, flat_map_concat_map, map_map, <- flat_map_concat_map.
  apply flat_map_ext. intros k. apply preM_rl.
Qed.

(* marks labelled with the shorthand *)
Definition mkS (m : mark) : smark :=
  match m with
  | MElem d l => SE d (tlabel (lf_attrs l)) (leaf_copies l)
  | MOpen d => SO d
  | MClose d r => SC d (orep_copies r)
  end.
Lemma mk_rlm m : mk (rlm m) = mkS m.
Proof. destruct m as [d l| |]; reflexivity. Qed.

Lemma smk_rl l d : smk d (map rl l) = map mkS (preML d l).
Proof. unfold smk. rewrite preML_rl, map_map. apply map_ext. intros m. apply mk_rlm. Qed.

(* ---------------------------------------------------------------- the marks of a laid-out statement *)
Lemma tlabel_ie n sh r pos : tlabel (lf_attrs (ie_leaf n sh r pos)) = sh_text sh.
Proof. unfold ie_leaf, tlabel. cbn [lf_attrs]. destruct sh as [[[|] w]|]; reflexivity. Qed.

Definition iunit_marksS (u : iunit) : Prop :=
  forall pos p, map mkS (denoteU p (fst (lay_iunit pos u))) = imarksSU p u.

Lemma istmt_marksS : forall xs, Forall (fun x => iunit_marksS (fst x)) xs ->
  forall pos off d, map mkS (denoteG off d (fst (lay_istmt pos xs))) = imarksS off d xs.
Proof.
  induction xs as [|[u o] xs' IH]; intros HF pos off d; [reflexivity|].
  inversion HF as [|x l Hu Hr]; subst. cbn [fst] in Hu.
  destruct xs' as [|y xs''].
  - cbn [lay_istmt lay_istmt_with fst denoteG denote_with imarksS imarks_with]. rewrite !app_nil_r. apply Hu.
  - rewrite lay_istmt_cons. cbn [fst]. cbn [denoteG denote_with].
    fold (denoteG off (next_depth d o) (fst (lay_istmt (pos + iulen u + length (op_text o)) (y :: xs'')))).
    rewrite map_app, (Hu pos (off + d)), (IH Hr (pos + iulen u + length (op_text o)) off (next_depth d o)). reflexivity.
Qed.

Theorem iunit_marksS_all : forall u, iunit_marksS u.
Proof.
  induction u as [n sh r|body r IH] using iunit_ind'; intros pos p.
  - cbn [lay_iunit fst denoteU map mkS imarksSU]. rewrite tlabel_ie. f_equal. f_equal.
    unfold leaf_copies, ie_leaf, copies_of. cbn [lf_repeat]. destruct r; reflexivity.
  - cbn [lay_iunit fst denoteU imarksSU]. fold (lay_istmt (pos + 1) body).
    fold (denoteG p 0 (fst (lay_istmt (pos + 1) body))). fold (imarksS p 0 body).
    cbn [map mkS]. rewrite map_app, (istmt_marksS body IH (pos + 1) p 0). cbn [map mkS]. rewrite copies_of_leaf. reflexivity.
Qed.

(* ================================================================ labels of unrolled forests *)
Definition alabel (at_ : option (list aattr)) : str :=
  match aattrs_view at_ with Some av => av_label av | None => [] end.
Fixpoint plabels (d : nat) (n : anode) : list (nat * str) :=
  match n with ANode _ _ _ at_ ch _ => (d, alabel at_) :: flat_map (plabels (S d)) ch end.
Definition plabelsL (d : nat) (l : list anode) : list (nat * str) := flat_map (plabels d) l.

Lemma plabels_attach d r items : plabelsL d (attach_repeater items r) = plabelsL d items.
Proof.
  unfold plabelsL, attach_repeater. induction items as [|x l IH]; [reflexivity|]. cbn [map flat_map]. rewrite IH. f_equal.
  destruct x as [nm v [rp|] at_ ch sc]; reflexivity.
Qed.

Lemma plabels_rnode cfg : forall n pn d, plabels d (rnode cfg pn n) = plabels d n.
Proof.
  induction n as [nm v rp at_ ch sc IH] using anode_ind'. intros pn d. cbn [rnode plabels]. f_equal.
  rewrite flat_map_concat_map, map_map, <- flat_map_concat_map.
  apply flat_map_ext_Forall. eapply Forall_impl; [|exact IH]. cbn beta. intros k Hk. apply Hk.
Qed.

Lemma xshape_rl_elem d a b c r s els :
  xshape [] d (rl (TElem a b c r s els)) =
  ncopies (N.to_nat (orep_copies r)) ((d, tlabel b) :: flat_map (xshape [] (S d)) (map rl els)).
Proof. cbn [rl]. rewrite xshape_elem. reflexivity. Qed.

Section UnrollLabels.
  Variable env : cenv.
  Variables P Pv : str -> bool.

  Definition label_claim (c : tnode) : Prop :=
    inamed P Pv c = true -> forall reps d, plabelsL d (unroll env reps c) = xshape [] d (rl c).

  Lemma once_labels node :
    inamed P Pv node = true -> Forall label_claim (elements_of' node) ->
    forall cur reps d,
      plabelsL d (once_u env node cur reps) =
      match node with
      | TGroup els _ => flat_map (xshape [] d) (map rl els)
      | TElem a b c r s els => (d, tlabel b) :: flat_map (xshape [] (S d)) (map rl els)
      end.
  Proof.
    intros Hn IH cur reps d.
    assert (Hkids : forall d', forallb (inamed P Pv) (elements_of' node) = true ->
              plabelsL d' (flat_map (unroll env reps) (elements_of' node)) = flat_map (xshape [] d') (map rl (elements_of' node))).
    { intros d' Hall. unfold plabelsL. rewrite flat_map_flat_map.
      rewrite (flat_map_concat_map (xshape [] d') (map rl _)), map_map, <- flat_map_concat_map.
      apply flat_map_ext_Forall. apply Forall_forall. intros c Hc.
      rewrite Forall_forall in IH. rewrite forallb_forall in Hall. apply (IH c Hc (Hall c Hc) reps d'). }
    destruct node as [a b c r s els|els r]; cbn [inamed elements_of' once_u] in *.
    - apply andb_prop in Hn. destruct Hn as [Hl Hels].
      destruct (leaf_items_ileaf env reps P Pv (mkLeaf a b c r s) cur (flat_map (unroll env reps) els) Hl)
        as [nv [av [_ [_ [_ [_ [Hav E]]]]]]].
      cbn [lf_name lf_attrs lf_value lf_self] in E, Hav. rewrite E.
      unfold plabelsL in *. cbn [flat_map plabels]. rewrite app_nil_r, (Hkids (S d) Hels).
      unfold alabel, tlabel. rewrite aattrs_view_av, Hav. reflexivity.
    - apply andb_prop in Hn. destruct Hn as [_ Hels].
      destruct cur; [rewrite plabels_attach|]; apply (Hkids d Hels).
  Qed.

  Theorem unroll_labels : forall node, label_claim node.
  Proof.
    induction node as [a b c r s els IH|els r IH] using tnode_ind'; intros Hn reps d; rewrite unroll_unfold; cbn [node_rep].
    - pose proof (once_labels (TElem a b c r s els) Hn IH) as H. rewrite xshape_rl_elem.
      destruct r as [r0|]; cbn [orep_copies].
      + cbv zeta. unfold plabelsL, ncopies. rewrite flat_map_flat_map. apply flat_map_ext. intros i. apply H.
      + change (N.to_nat 1) with 1. rewrite ncopies_one. apply H.
    - pose proof (once_labels (TGroup els r) Hn IH) as H. cbn [rl]. rewrite xshape_group. cbn [app].
      destruct r as [r0|]; cbn [orep_copies].
      + cbv zeta. unfold plabelsL, ncopies. rewrite flat_map_flat_map. apply flat_map_ext. intros i. apply H.
      + change (N.to_nat 1) with 1. rewrite ncopies_one. apply H.
  Qed.
End UnrollLabels.

(* ================================================================ the open tags of the final forest *)
Lemma ptags_names c : forall n d, map fst (ptags c n) = map (fun p => tag_name c (snd p)) (pnames d n).
Proof.
  induction n as [nm v rp at_ ch sc IH] using anode_ind'. intros d. cbn [ptags pnames map fst snd]. f_equal.
  rewrite !map_flat_map. apply flat_map_ext_Forall. eapply Forall_impl; [|exact IH]. cbn beta. intros k Hk. apply (Hk (S d)).
Qed.

Lemma label_attr_av Pv av : av_ok Pv av = true ->
  label_attr (av_label av) = match av with Some (k, w) => Some (sh_aattr k w) | None => None end.
Proof.
  destruct av as [[k w]|]; [|reflexivity]. cbn [av_ok]. intros H. apply andb_prop in H. destruct H as [Hk _].
  destruct (sh_key_cases k Hk) as [-> | ->]; reflexivity.
Qed.

Lemma attrs_text_av c Pv av : av_ok Pv av = true -> attrs_text c (av_attrs av) = sh_attr_text c (av_label av).
Proof.
  intros H. unfold sh_attr_text. rewrite (label_attr_av Pv av H). destruct av as [[k w]|]; [|reflexivity].
  cbn [av_attrs attrs_text filter]. assert (E : should_output_attribute (sh_aattr k w) = true) by reflexivity.
  rewrite E. cbn [map concat]. apply app_nil_r.
Qed.

Section FinalForest.
  Variable c : oconfig.
  Variable cfg : mconfig.
  Variables P Pv : str -> bool.
  Hypothesis HP : forall x, P x = true -> x <> [] /\ nolt x = true /\ nocrlf x = true /\ name_start x = true.
  (* both shorthand forms of a written value are plain: free of line breaks and of '>' *)
  Hypothesis HPa : forall w, Pv w = true ->
    attr_okb c (sh_aattr s_class w) = true /\ attr_okb c (sh_aattr s_id w) = true.

  Lemma av_attr_ok av : av_ok Pv av = true ->
    forallb (attr_okb c) (match av_attrs av with Some l => l | None => [] end) = true.
  Proof.
    destruct av as [[k w]|]; [|reflexivity]. cbn [av_ok av_attrs forallb]. intros H. apply andb_prop in H. destruct H as [Hk Hw].
    destruct (HPa w Hw) as [A B]. destruct (sh_key_cases k Hk) as [-> | ->]; [rewrite A|rewrite B]; reflexivity.
  Qed.

  Lemma rnode_final : forall n, inode P Pv n = true -> forall pn d,
    fnode c (rnode cfg pn n) = true /\
    map snd (ptags c (rnode cfg pn n)) = map (fun p => sh_attr_text c (snd p)) (plabels d n).
  Proof.
    induction n as [nm v rp at_ ch sc IH] using anode_ind'. intros Hs pn d.
    destruct (inode_inv P Pv _ Hs) as [av [E [Hn [Ha [Hp Hch]]]]]. cbn [an_name an_repeat an_children] in *.
    injection E as -> ->. subst sc.
    destruct (rname_clean cfg P HP pn nm Hn) as [Hne [H1 [H2 H3]]].
    cbn [rnode]. set (x := rname cfg pn nm) in *.
    assert (Hk : forall k, In k ch -> forall d', fnode c (rnode cfg (Some (Some x)) k) = true /\
                   map snd (ptags c (rnode cfg (Some (Some x)) k)) = map (fun p => sh_attr_text c (snd p)) (plabels d' k)).
    { intros k Hk d'. rewrite Forall_forall in IH. rewrite forallb_forall in Hch. apply (IH k Hk (Hch k Hk)). }
    split.
    - cbn [fnode]. destruct x as [|x0 x']; [contradiction|]. rewrite H2, H3, (av_attr_ok av Ha). cbn [andb].
      apply forallb_forall. intros k Hk'. apply in_map_iff in Hk'. destruct Hk' as [k0 [<- Hk0]]. apply (Hk k0 Hk0 0).
    - cbn [ptags plabels map snd]. f_equal.
      + unfold alabel. rewrite aattrs_view_av. apply (attrs_text_av c Pv av Ha).
      + rewrite !map_flat_map. rewrite (flat_map_concat_map _ (map _ ch)), map_map, <- flat_map_concat_map.
        apply flat_map_ext_Forall. apply Forall_forall. intros k Hk'. apply (Hk k Hk' (S d)).
  Qed.
End FinalForest.

(* ================================================================ tree level *)
Theorem expand_attrs_I (P Pv : str -> bool) x s toks root :
  (forall n, P n = true -> name_sem x n = true) ->
  (forall w, Pv w = true -> attr_okb (xc_o x) (sh_aattr s_class w) = true /\ attr_okb (xc_o x) (sh_aattr s_id w) = true) ->
  cfg_ok x = true -> mc_bem (xc_m x) = false ->
  tokenize s = TOk toks -> parse (mc_jsx (xc_m x)) toks = POk root ->
  forallb (inamed P Pv) root = true ->
  (total_list root <= budget_of (mc_max_repeat (xc_m x)))%Z ->
  exists st,
    expand_markup x s = Ok st /\
    map fst (open_tags (fst (xread st))) =
      map (fun p => tag_name (xc_o x) (snd p)) (resolve_names (imp_model (xc_m x)) [] (flat_map (xshape [] 0) root)) /\
    map snd (open_tags (fst (xread st))) =
      map (fun p => sh_attr_text (xc_o x) (snd p)) (flat_map (xshape [] 0) (map rl root)).
Proof.
  intros HP HPa Hc Hbem Ht Hp Hn Hb.
  destruct (expand_forest_I P Pv x s toks root HP Hc Hbem Ht Hp Hn Hb) as [He [Hin Hshape]].
  unfold cfg_ok in Hc. apply andb_prop in Hc. destruct Hc as [_ Hclean].
  set (m := xc_m x) in *. set (env := mkCenv (mc_text m) (mc_variables m) (mc_href m)) in *.
  set (forest := flat_map (unroll env []) root) in *.
  assert (HP3 : forall n, P n = true -> n <> [] /\ nolt n = true /\ nocrlf n = true /\ name_start n = true)
    by (intros n H; apply (name_sem_clean x), HP, H).
  assert (Hfin : forall n, In n forest ->
            fnode (xc_o x) (rnode m None n) = true /\
            map snd (ptags (xc_o x) (rnode m None n)) = map (fun p => sh_attr_text (xc_o x) (snd p)) (plabels 0 n)).
  { intros n Hn'. rewrite forallb_forall in Hin. apply (rnode_final (xc_o x) m P Pv HP3 HPa n (Hin n Hn') None 0). }
  eexists. split; [exact He|].
  rewrite (format_open_tags (xc_o x) _ Hclean)
    by (apply forallb_forall; intros n Hn'; apply in_map_iff in Hn'; destruct Hn' as [n0 [<- Hn0]]; apply (Hfin n0 Hn0)).
  split.
  - rewrite (resolve_forest m root), <- Hshape. unfold pnamesL. rewrite !map_flat_map.
    apply flat_map_ext. intros n. apply ptags_names.
  - assert (El : plabelsL 0 forest = flat_map (xshape [] 0) (map rl root)).
    { unfold forest, plabelsL. rewrite flat_map_flat_map.
      rewrite (flat_map_concat_map (xshape [] 0) (map rl root)), map_map, <- flat_map_concat_map.
      apply flat_map_ext_Forall. apply Forall_forall. intros k Hk. rewrite forallb_forall in Hn.
      apply (unroll_labels env P Pv k (Hn k Hk) [] 0). }
    rewrite <- El. unfold plabelsL. rewrite !map_flat_map.
    rewrite (flat_map_concat_map _ (map _ forest)), map_map, <- flat_map_concat_map.
    apply flat_map_ext_Forall. apply Forall_forall. intros n Hn'. apply (Hfin n Hn').
Qed.

(* ================================================================ string level *)
(* a written class / id value: a wide name whose two attribute forms are plain under the configuration *)
Definition ivalue_fine_c (c : oconfig) (w : str) : bool :=
  wide_name w && attr_okb c (sh_aattr s_class w) && attr_okb c (sh_aattr s_id w).

Definition impl_attr_ok (x : xconfig) (xs : istmt) : bool :=
  impl_ok x xs && ifine (iname_fine x) (ivalue_fine_c (xc_o x)) xs.

Theorem expand_implicit_attrs (x : xconfig) (xs : istmt) :
  impl_attr_ok x xs = true ->
  exists st,
    expand_markup x (render4 xs) = Ok st /\
    map fst (open_tags (fst (xread st))) =
      map (fun p => tag_name (xc_o x) (snd p)) (idenote (mc_inline (xc_m x)) (mc_context_name (xc_m x)) xs) /\
    map snd (open_tags (fst (xread st))) =
      map (fun p => sh_attr_text (xc_o x) (snd p)) (unrollS xs).
Proof.
  intros H0. unfold impl_attr_ok in H0. apply andb_prop in H0. destruct H0 as [H Hfc]. unfold impl_ok in H.
  apply andb_prop in H. destruct H as [H Hbud]. apply andb_prop in H. destruct H as [H Hfine].
  apply andb_prop in H. destruct H as [H Hjsx]. apply andb_prop in H. destruct H as [H Hwfb].
  apply andb_prop in H. destruct H as [H Hctx]. apply andb_prop in H. destruct H as [Hc Hbem].
  apply negb_true_iff in Hbem. apply Z.leb_le in Hbud.
  set (m := xc_m x) in *.
  pose proof (iwfb_ok xs Hwfb) as Hwf.
  pose proof (toks_render4 xs Hwf) as Htok.
  destruct (parse_gflat (mc_jsx m) _ _ (lay_istmt_gflat (mc_jsx m) xs Hwf Hjsx 0)) as [Hp Hm].
  set (root := closed (grun (fst (lay_istmt 0 xs)) root0)) in *.
  destruct (istmt_marks (iname_fine x) (ivalue_fine_c (xc_o x)) xs
              (proj2 (Forall_forall _ _) (fun u _ => iunit_marks_all (iname_fine x) (ivalue_fine_c (xc_o x)) (fst u))) 0 0 0)
    as [Hall Hsm].
  specialize (Hall Hwf Hfc). specialize (Hsm Hwf). rewrite <- Hm in Hall, Hsm.
  pose proof (inamed_forest_of_marks (iname_fine x) (ivalue_fine_c (xc_o x)) root 0 Hall) as Hnamed.
  fold (smk 0 root) in Hsm.
  assert (Hshape : flat_map (xshape [] 0) root = unrollI xs).
  { unfold unrollI, unrollM. rewrite <- Hsm. rewrite unrollX_forest by lia. reflexivity. }
  assert (HsmS : smk 0 (map rl root) = imarksS 0 0 xs).
  { rewrite smk_rl, Hm. apply (istmt_marksS xs (proj2 (Forall_forall _ _) (fun u _ => iunit_marksS_all (fst u))) 0 0 0). }
  assert (HshapeS : flat_map (xshape [] 0) (map rl root) = unrollS xs).
  { unfold unrollS, unrollM. rewrite <- HsmS. rewrite unrollX_forest by lia. reflexivity. }
  assert (HPsem : forall n, iname_fine x n = true -> name_sem x n = true).
  { intros n Hn. unfold iname_fine in Hn. apply andb_prop in Hn. apply name_fine_w_sem, Hn. }
  assert (HPa : forall w, ivalue_fine_c (xc_o x) w = true ->
            attr_okb (xc_o x) (sh_aattr s_class w) = true /\ attr_okb (xc_o x) (sh_aattr s_id w) = true).
  { intros w Hw. unfold ivalue_fine_c in Hw. apply andb_prop in Hw. destruct Hw as [Hw B]. apply andb_prop in Hw. destruct Hw as [_ A]. auto. }
  destruct (expand_attrs_I (iname_fine x) (ivalue_fine_c (xc_o x)) x (render4 xs) _ _ HPsem HPa Hc Hbem Htok Hp Hnamed)
    as [st [He [Hn1 Hn2]]].
  { pose proof (total_list_le_cost root 0) as Hle. unfold icost in Hbud. rewrite <- Hsm in Hbud.
    rewrite unrollX_forest in Hbud by lia. unfold m in *. lia. }
  exists st. split; [exact He|]. split.
  - rewrite Hn1, Hshape. unfold idenote. f_equal.
    apply (resolve_names_ext (fun p => documented_parent p = true)).
    + unfold imp_model, imp_spec. cbn [pn_of]. rewrite implicit_name_of_eq. cbn [parent_str]. fold m.
      apply implicit_spec_ok. exact Hctx.
    + intros p Hd. unfold imp_model, imp_spec. cbn [pn_of]. rewrite implicit_name_of_eq. cbn [parent_str].
      apply implicit_spec_ok. exact Hd.
    + intros po. unfold imp_spec. pose proof spec_values_documented as Hv. rewrite forallb_forall in Hv.
      apply Hv, implicit_spec_value.
    + constructor.
    + rewrite <- Hshape. apply Forall_flat_map. intros k Hk. rewrite forallb_forall in Hnamed.
      eapply Forall_impl; [|apply (xshape_names (iname_fine x) (ivalue_fine_c (xc_o x)) k 0 (Hnamed k Hk))].
      cbn beta. intros a Ha Hne. specialize (Ha Hne). unfold iname_fine in Ha. apply andb_prop in Ha. apply Ha.
  - rewrite Hn2, HshapeS. reflexivity.
Qed.
