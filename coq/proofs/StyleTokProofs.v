(* C05: the scanner step of value_seq_expand -- the string rendered from a property name and a
   sequence of numbers / colours (with the connectors the statement defines) tokenizes into
   exactly the token shape the end-to-end theorem of StyleValueProofs asks for.
   For ALL digit strings, units, hex strings, lengths. *)
From Coq Require Import ZifyBool String.
From Emmet Require Import lib.Base lib.StyleLib model.CssTokenizer model.CssParser model.Score model.Color
     model.CssSnippets model.CssResolve model.CssFormat
     proofs.CssTokenizerProofs proofs.StyleDashProofs proofs.StyleProofs proofs.StyleValueProofs.
Local Open Scope nat_scope.

(* ------------------------------------------------------------------ the loop: skipping, one round *)
Lemma ctoks_nil src v k br acc pos : ctoks src v k br acc pos [] = CTOk (rev acc).
Proof. destruct k; reflexivity. Qed.

Lemma ctoks_skip : forall k s src v br acc pos,
  ctoks src v k br acc pos s = ctoks src v 0 br acc (pos + k) (skipn k s).
Proof.
  induction k as [|k IH]; intros s src v br acc pos.
  - rewrite Nat.add_0_r. reflexivity.
  - destruct s as [|c r]; [rewrite !ctoks_nil; reflexivity|].
    cbn [ctoks skipn]. rewrite IH. replace (S pos + k) with (pos + S k) by lia. reflexivity.
Qed.

Definition not_bracket (k : ckind) : Prop := match k with CBracket _ => False | _ => True end.

Lemma ctoks_round src v br acc pos s k n :
  cconsume (Nat.eqb br 0 && negb v) (Nat.eqb pos 0) s = CTok k n -> not_bracket k ->
  ctoks src v 0 br acc pos s =
  match (if should_consume_dash_after k then coperator (skipn n s) else CNone) with
  | CTok k2 _ =>
      ctoks src v 0 br (mkCTok k2 (pos + n) (pos + n + 1) :: mkCTok k pos (pos + n) :: acc)
            (pos + n + 1) (skipn (n + 1) s)
  | _ => ctoks src v 0 br (mkCTok k pos (pos + n) :: acc) (pos + n) (skipn n s)
  end.
Proof.
  intros Hc Hk.
  pose proof (cconsume_ok (Nat.eqb br 0 && negb v) (Nat.eqb pos 0) s) as Hok. rewrite Hc in Hok.
  cbn [ccres_ok] in Hok.
  destruct s as [|c r]; [cbn [length] in Hok; lia|].
  cbn [ctoks]. rewrite Hc.
  assert (Hplain : ctoks src v (pred n) br (mkCTok k pos (pos + n) :: acc) (S pos) r =
                   ctoks src v 0 br (mkCTok k pos (pos + n) :: acc) (pos + n) (skipn n (c :: r))).
  { rewrite ctoks_skip. replace (S pos + pred n) with (pos + n) by lia.
    destruct n as [|n']; [lia|]. reflexivity. }
  assert (Hop : forall k2, ctoks src v n br (mkCTok k2 (pos + n) (pos + n + 1) :: mkCTok k pos (pos + n) :: acc) (S pos) r =
                           ctoks src v 0 br (mkCTok k2 (pos + n) (pos + n + 1) :: mkCTok k pos (pos + n) :: acc)
                                 (pos + n + 1) (skipn (n + 1) (c :: r))).
  { intros k2. rewrite ctoks_skip. replace (S pos + n) with (pos + n + 1) by lia.
    replace (n + 1) with (S n) by lia. reflexivity. }
  destruct k; try contradiction;
    (destruct (if should_consume_dash_after _ then coperator (skipn n (c :: r)) else CNone) as [|k2 n2| |];
     [exact Hplain|apply Hop|exact Hplain|exact Hplain]).
Qed.

(* ------------------------------------------------------------------ character facts (ASCII sweep) *)
Definition ascii : list N := map N.of_nat (seq 0 128).
Lemma ascii_in c : (c < 128)%N -> In c ascii.
Proof. intros H. unfold ascii. apply in_map_iff. exists (N.to_nat c). split; [lia|]. apply in_seq. lia. Qed.

Definition is_none {A} (o : option A) : bool := match o with None => true | Some _ => false end.

(* a letter is none of the characters that start another token *)
Definition alpha_facts (c : char) : bool :=
  negb (is_alpha c) ||
  (negb (is_number c) && is_none (assoc_N c css_operator_map) && negb (is_space c) && negb (is_quote c) &&
   negb (is_cbracket c) && negb (is_ident_prefix c) && is_alpha_word c && is_cliteral c &&
   negb (c =? c_dash)%N && negb (c =? c_dollar)%N && negb (c =? c_dot)%N && negb (c =? c_hash)%N).
Lemma alpha_sweep : forallb alpha_facts ascii = true.
Proof. vm_compute. reflexivity. Qed.

Lemma alpha_lt c : is_alpha c = true -> (c < 128)%N.
Proof. unfold is_alpha, in_range, c_a, c_z, c_A, c_Z. lia. Qed.

Lemma alpha_facts_of c : is_alpha c = true ->
  is_number c = false /\ assoc_N c css_operator_map = None /\ is_space c = false /\ is_quote c = false /\
  is_cbracket c = false /\ is_ident_prefix c = false /\ is_alpha_word c = true /\ is_cliteral c = true /\
  (c =? c_dash)%N = false /\ (c =? c_dollar)%N = false /\ (c =? c_dot)%N = false /\ (c =? c_hash)%N = false.
Proof.
  intros H. pose proof alpha_sweep as S. rewrite forallb_forall in S.
  specialize (S c (ascii_in c (alpha_lt c H))). unfold alpha_facts in S. rewrite H in S. cbn [negb orb] in S.
  repeat (apply andb_true_iff in S; destruct S as [S ?]).
  repeat match goal with
         | h : negb ?b = true |- _ => apply negb_true_iff in h
         end.
  destruct (assoc_N c css_operator_map); [discriminate|].
  repeat split; assumption.
Qed.

(* an ASCII character that is a decimal digit is one of 0..9; no decimal digit is a letter / _ / one of the
   punctuation characters of the grammar *)
Definition digit_facts (c : char) : bool :=
  negb (is_number c) ||
  (negb (is_alpha_word c) && negb (c =? c_dash)%N && negb (c =? c_dollar)%N && negb (c =? c_dot)%N &&
   negb (c =? c_hash)%N && negb (c =? c_percent)%N && negb (c =? c_excl)%N && negb (c =? c_slash)%N).
Lemma digit_sweep : forallb digit_facts ascii = true.
Proof. vm_compute. reflexivity. Qed.

Lemma alpha_word_lt c : is_alpha_word c = true -> (c < 128)%N.
Proof. unfold is_alpha_word, is_alpha, in_range, c_under, c_a, c_z, c_A, c_Z. lia. Qed.

Lemma digit_facts_of c : is_number c = true ->
  is_alpha_word c = false /\ (c =? c_dash)%N = false /\ (c =? c_dollar)%N = false /\ (c =? c_dot)%N = false /\
  (c =? c_hash)%N = false /\ (c =? c_percent)%N = false /\ (c =? c_excl)%N = false /\ (c =? c_slash)%N = false.
Proof.
  intros H. destruct (N.ltb_spec c 128) as [Hlt|Hge].
  - pose proof digit_sweep as S. rewrite forallb_forall in S.
    specialize (S c (ascii_in c Hlt)). unfold digit_facts in S. rewrite H in S. cbn [negb orb] in S.
    repeat (apply andb_true_iff in S; destruct S as [S ?]).
    repeat match goal with
           | h : negb ?b = true |- _ => apply negb_true_iff in h
           end.
    repeat split; assumption.
  - split.
    + destruct (is_alpha_word c) eqn:E; [|reflexivity]. apply alpha_word_lt in E. lia.
    + unfold c_dash, c_dollar, c_dot, c_hash, c_percent, c_excl, c_slash. repeat split; apply N.eqb_neq; lia.
Qed.

(* ------------------------------------------------------------------ spans over rendered text *)
Lemma cspan_app p (l rest : str) :
  Forall (fun c => p c = true) l -> cpeek_p p rest = false -> cspan p (l ++ rest) = length l.
Proof.
  intros Hl Hr. induction Hl as [|c l Hc _ IH]; cbn [app length].
  - destruct rest as [|r rest']; [reflexivity|]. cbn [cpeek_p] in Hr. cbn [cspan]. rewrite Hr. reflexivity.
  - cbn [cspan]. rewrite Hc, IH. reflexivity.
Qed.

Lemma firstn_app_exact {A} (l r : list A) : firstn (length l) (l ++ r) = l.
Proof. rewrite firstn_app, Nat.sub_diag, firstn_all. cbn. apply app_nil_r. Qed.

Lemma skipn_app_exact {A} (l r : list A) : skipn (length l) (l ++ r) = r.
Proof. rewrite skipn_app, Nat.sub_diag, skipn_all. reflexivity. Qed.

(* ------------------------------------------------------------------ the property name *)
Definition key_ok (key : str) : Prop := key <> [] /\ Forall (fun c => is_alpha c = true) key.

Lemma cconsume_key at_start key after :
  key_ok key -> cpeek_p is_cliteral after = false ->
  cconsume true at_start (key ++ after) = CTok (CLiteral key) (length key).
Proof.
  intros [Hne Hall] Hafter. destruct key as [|k0 ktl]; [contradiction|].
  inversion Hall as [|? ? Hk0 Htl]; subst.
  destruct (alpha_facts_of k0 Hk0) as [Hnum [Hop [Hsp [Hq [Hbr [Hip [Haw [Hcl [Hd [Hdl [Hdot Hh]]]]]]]]]]].
  cbn [app]. unfold cconsume.
  assert (H1 : ccustom_property (k0 :: ktl ++ after) = CNone).
  { unfold ccustom_property. destruct (ktl ++ after); [reflexivity|]. rewrite Hd. reflexivity. }
  assert (H2 : cfield (k0 :: ktl ++ after) = CNone).
  { unfold cfield. destruct (ktl ++ after); [reflexivity|]. rewrite Hdl. reflexivity. }
  assert (H3 : cnumber_value (k0 :: ktl ++ after) = CNone).
  { unfold cnumber_value, consume_number. cbn [cpeek_is]. rewrite Hd.
    unfold number_body. cbn [cspan]. rewrite Hnum. cbn [skipn cpeek_is]. rewrite Hdot. reflexivity. }
  assert (H4 : ccolor_value (k0 :: ktl ++ after) = CNone).
  { unfold ccolor_value. rewrite Hh. reflexivity. }
  assert (H5 : cstring_value (k0 :: ktl ++ after) = CNone).
  { unfold cstring_value. rewrite Hq. reflexivity. }
  assert (H6 : cbracket (k0 :: ktl ++ after) = CNone).
  { unfold cbracket. rewrite Hbr. reflexivity. }
  assert (H7 : coperator (k0 :: ktl ++ after) = CNone).
  { unfold coperator. rewrite Hop. reflexivity. }
  assert (H8 : cwhite_space (k0 :: ktl ++ after) = CNone).
  { unfold cwhite_space. cbn [cspan]. rewrite Hsp. reflexivity. }
  rewrite H1; cbn [corelse]. rewrite H2; cbn [corelse]. rewrite H3; cbn [corelse]. rewrite H4; cbn [corelse].
  rewrite H5; cbn [corelse]. rewrite H6; cbn [corelse]. rewrite H7; cbn [corelse]. rewrite H8; cbn [corelse].
  unfold cliteral. rewrite Hip, Haw.
  rewrite cspan_app.
  - cbn [length]. f_equal. f_equal.
    change (k0 :: ktl ++ after) with ((k0 :: ktl) ++ after).
    change (S (length ktl)) with (length (k0 :: ktl)). apply firstn_app_exact.
  - eapply Forall_impl; [|exact Htl]. intros c Hc. apply alpha_facts_of in Hc. tauto.
  - exact Hafter.
Qed.

(* ------------------------------------------------------------------ numbers *)
Record numv := mkNum { nv_neg : bool; nv_ip : str; nv_fp : option str; nv_unit : str }.

Definition dot_part (fpo : option str) : str := match fpo with Some f => c_dot :: f | None => [] end.
Definition num_raw (n : numv) : str := (if nv_neg n then [c_dash] else []) ++ nv_ip n ++ dot_part (nv_fp n).
Definition num_text (n : numv) : str := num_raw n ++ nv_unit n.

Definition unit_ok (u : str) : Prop :=
  u = [] \/ u = [c_percent] \/ (u <> [] /\ Forall (fun c => is_alpha_word c = true) u).

Definition numv_ok (n : numv) : Prop :=
  all_digits (nv_ip n) /\
  match nv_fp n with Some f => all_digits f | None => True end /\
  (nv_ip n <> [] \/ exists f, nv_fp n = Some f /\ f <> []) /\
  unit_ok (nv_unit n).

(* float(raw) of the raw text, as the model computes it *)
Definition the_dec (raw : str) : dec := match dec_of_raw raw with Some v => v | None => dec_zero end.
Definition num_kind (n : numv) : ckind := CNumber (the_dec (num_raw n)) (num_raw n) (nv_unit n).

(* what may follow the number's text: not a letter / _ ; after a unit-less number also not % . or a digit *)
Definition num_after_ok (n : numv) (after : str) : Prop :=
  match after with
  | [] => True
  | c :: _ => is_alpha_word c = false /\
              (nv_unit n = [] -> (c =? c_percent)%N = false /\ is_number c = false /\ (c =? c_dot)%N = false)
  end.

Lemma number_body_render ip fpo rest :
  all_digits ip -> match fpo with Some f => all_digits f | None => True end ->
  (ip <> [] \/ exists f, fpo = Some f /\ f <> []) ->
  cpeek_p is_number rest = false -> (fpo = None -> cpeek_is c_dot rest = false) ->
  number_body (ip ++ dot_part fpo ++ rest) = length (ip ++ dot_part fpo) /\ 1 <= length (ip ++ dot_part fpo).
Proof.
  intros Hip Hfp Hne Hrest Hdot. unfold number_body.
  assert (Hx : cpeek_p is_number (dot_part fpo ++ rest) = false).
  { destruct fpo as [f|]; [cbn [dot_part app cpeek_p]; exact dot_not_number|exact Hrest]. }
  rewrite (cspan_app is_number ip _ Hip Hx). rewrite skipn_app_exact.
  destruct fpo as [f|]; cbn [dot_part app].
  - cbn [cpeek_is]. rewrite N.eqb_refl. cbn [tl].
    rewrite (cspan_app is_number f rest Hfp Hrest).
    rewrite app_length. cbn [length].
    destruct (length ip) eqn:Ei; destruct (length f) eqn:Ef; cbv iota beta; try (split; lia).
    exfalso. destruct Hne as [Hne|[f' [E Hne]]].
    + destruct ip; [contradiction|discriminate].
    + inversion E; subst f'. destruct f; [contradiction|discriminate].
  - rewrite (Hdot eq_refl). rewrite app_nil_r. split; [reflexivity|].
    destruct Hne as [Hne|[f' [E _]]]; [|discriminate]. destruct ip; [contradiction|cbn [length]; lia].
Qed.

(* the first character of the numeric text is a digit or the dot *)
Lemma num_head ip fpo rest :
  all_digits ip -> (ip <> [] \/ exists f, fpo = Some f /\ f <> []) ->
  exists x tl, ip ++ dot_part fpo ++ rest = x :: tl /\ (is_number x = true \/ x = c_dot).
Proof.
  intros Hip Hne. destruct ip as [|d ip'].
  - destruct Hne as [Hne|[f [E _]]]; [contradiction|]. subst fpo. cbn. eexists _, _. split; [reflexivity|right; reflexivity].
  - inversion Hip; subst. cbn. eexists _, _. split; [reflexivity|left; assumption].
Qed.

Lemma head_not_dash_dollar x : (is_number x = true \/ x = c_dot) ->
  (x =? c_dash)%N = false /\ (x =? c_dollar)%N = false.
Proof.
  intros [H| ->]; [|split; reflexivity]. apply digit_facts_of in H. tauto.
Qed.

Lemma consume_number_render n rest :
  numv_ok n ->
  cpeek_p is_number (nv_unit n ++ rest) = false ->
  (nv_fp n = None -> cpeek_is c_dot (nv_unit n ++ rest) = false) ->
  consume_number (num_text n ++ rest) = length (num_raw n) /\ 1 <= length (num_raw n).
Proof.
  intros [Hip [Hfp [Hne Hu]]] Hr Hd. unfold consume_number, num_text, num_raw.
  destruct (number_body_render (nv_ip n) (nv_fp n) (nv_unit n ++ rest) Hip Hfp Hne Hr Hd) as [Hnb Hge].
  destruct (nv_neg n); cbn [app].
  - cbn [cpeek_is]. rewrite N.eqb_refl. cbn [tl].
    repeat rewrite <- app_assoc. rewrite Hnb. cbn [length].
    destruct (length (nv_ip n ++ dot_part (nv_fp n))) eqn:E; [lia|]. split; lia.
  - repeat rewrite <- app_assoc.
    destruct (num_head (nv_ip n) (nv_fp n) (nv_unit n ++ rest) Hip Hne) as [x [tl0 [Ex Hx]]].
    rewrite Ex. cbn [cpeek_is]. destruct (head_not_dash_dollar x Hx) as [Hxd _]. rewrite Hxd.
    rewrite <- Ex. rewrite Hnb.
    destruct (length (nv_ip n ++ dot_part (nv_fp n))) eqn:E; [lia|]. split; lia.
Qed.

Lemma alpha_word_not_percent c : is_alpha_word c = true -> (c =? c_percent)%N = false.
Proof. unfold is_alpha_word, is_alpha, in_range, c_under, c_a, c_z, c_A, c_Z, c_percent. lia. Qed.

Lemma alpha_word_not_number c : is_alpha_word c = true -> is_number c = false.
Proof.
  intros H. destruct (is_number c) eqn:E; [|reflexivity]. apply digit_facts_of in E. destruct E as [E _]. congruence.
Qed.

Lemma alpha_word_not_dot c : is_alpha_word c = true -> (c =? c_dot)%N = false.
Proof. unfold is_alpha_word, is_alpha, in_range, c_under, c_a, c_z, c_A, c_Z, c_dot. lia. Qed.

(* facts about the text that follows the raw number: unit ++ after *)
Lemma unit_after_facts n after :
  unit_ok (nv_unit n) -> num_after_ok n after ->
  cpeek_p is_number (nv_unit n ++ after) = false /\
  cpeek_is c_dot (nv_unit n ++ after) = false /\
  (if cpeek_is c_percent (nv_unit n ++ after) then 1 else cspan is_alpha_word (nv_unit n ++ after)) = length (nv_unit n).
Proof.
  intros Hu Ha. destruct Hu as [E|[E|[Hne Hall]]].
  - rewrite E in *. cbn [app length]. destruct after as [|c r]; [repeat split; reflexivity|].
    destruct Ha as [Haw Hc]. destruct (Hc E) as [Hp [Hn Hd]]. cbn [cpeek_p cpeek_is cspan].
    rewrite Hn, Hd, Hp, Haw. repeat split; reflexivity.
  - rewrite E. cbn. repeat split; reflexivity.
  - destruct (nv_unit n) as [|u0 u] eqn:E; [contradiction|]. inversion Hall as [|? ? Hu0 Hu']; subst.
    cbn [app cpeek_p cpeek_is]. rewrite (alpha_word_not_number u0 Hu0), (alpha_word_not_dot u0 Hu0), (alpha_word_not_percent u0 Hu0).
    split; [reflexivity|]. split; [reflexivity|].
    change (u0 :: u ++ after) with ((u0 :: u) ++ after). apply cspan_app; [exact Hall|].
    destruct after as [|c r]; [reflexivity|]. destruct Ha as [Haw _]. exact Haw.
Qed.

Lemma cconsume_number short at_start n after :
  numv_ok n -> num_after_ok n after ->
  cconsume short at_start (num_text n ++ after) = CTok (num_kind n) (length (num_text n)).
Proof.
  intros Hok Ha. pose proof Hok as [Hip [Hfp [Hne Hu]]].
  destruct (unit_after_facts n after Hu Ha) as [F1 [F2 F3]].
  unfold num_text in *. rewrite <- app_assoc.
  assert (Hcn : consume_number (num_raw n ++ nv_unit n ++ after) = length (num_raw n) /\ 1 <= length (num_raw n)).
  { pose proof (consume_number_render n after Hok F1 (fun _ => F2)) as H. unfold num_text in H.
    rewrite <- app_assoc in H. exact H. }
  destruct Hcn as [Hcn Hge].
  (* earlier alternatives *)
  assert (Hhead : exists c1 tl1, num_raw n ++ nv_unit n ++ after = c1 :: tl1 /\
                    (forall c2 r, tl1 = c2 :: r -> ((c1 =? c_dash) && (c2 =? c_dash))%N = false) /\
                    (c1 =? c_dollar)%N = false).
  { unfold num_raw. repeat rewrite <- app_assoc.
    destruct (num_head (nv_ip n) (nv_fp n) (nv_unit n ++ after) Hip Hne) as [x [tl0 [Ex Hx]]].
    destruct (head_not_dash_dollar x Hx) as [Hxd Hxl].
    destruct (nv_neg n); cbn [app].
    - rewrite Ex. exists c_dash, (x :: tl0). split; [reflexivity|]. split; [|reflexivity].
      intros c2 r E. inversion E; subst. rewrite Hxd. apply andb_false_r.
    - rewrite Ex. exists x, tl0. split; [reflexivity|]. split; [|exact Hxl].
      intros c2 r E. rewrite Hxd. reflexivity. }
  destruct Hhead as [c1 [tl1 [Es [Hcp Hdl]]]].
  unfold cconsume.
  assert (H1 : ccustom_property (num_raw n ++ nv_unit n ++ after) = CNone).
  { rewrite Es. unfold ccustom_property. destruct tl1 as [|c2 r]; [reflexivity|]. rewrite (Hcp c2 r eq_refl). reflexivity. }
  assert (H2 : cfield (num_raw n ++ nv_unit n ++ after) = CNone).
  { rewrite Es. unfold cfield. destruct tl1 as [|c2 r]; [reflexivity|]. rewrite Hdl. reflexivity. }
  rewrite H1; cbn [corelse]. rewrite H2; cbn [corelse].
  destruct (consume_number_spec (num_raw n ++ nv_unit n ++ after)) as [_ Hd].
  rewrite Hcn in Hd. destruct Hd as [d Hd]; [lia|]. rewrite firstn_app_exact in Hd.
  unfold cnumber_value. rewrite Hcn.
  destruct (length (num_raw n)) as [|m] eqn:El; [lia|]. rewrite <- El.
  rewrite firstn_app_exact, skipn_app_exact.
  rewrite Hd. rewrite F3. rewrite firstn_app_exact. cbn [corelse].
  unfold num_kind, the_dec. rewrite Hd. rewrite app_length. reflexivity.
Qed.

(* ------------------------------------------------------------------ colours *)
Record colv := mkCol { cv_hex : str; cv_alpha : option str }.

Definition col_raw (c : colv) : str := cv_hex c ++ dot_part (cv_alpha c).
Definition col_text (c : colv) : str := c_hash :: col_raw c.
(* the alpha text handed to parse_color: '' | '1' (a lone dot) | '.ddd' *)
Definition alpha_txt (a : option str) : str :=
  match a with None => [] | Some [] => [(c_0 + 1)%N] | Some f => c_dot :: f end.

Definition colv_ok (c : colv) : Prop :=
  cv_hex c <> [] /\ Forall hexc (cv_hex c) /\ match cv_alpha c with Some f => all_digits f | None => True end.

Definition col_kind (c : colv) : ckind :=
  match parse_color (cv_hex c) (alpha_txt (cv_alpha c)) with
  | Some (r, g, b, a) => CColor r g b a (col_raw c)
  | None => CLiteral []
  end.

(* what may follow a colour: not a hex digit, not a dot, not a digit *)
Definition col_after_ok (after : str) : Prop :=
  match after with
  | [] => True
  | c :: _ => is_hex c = false /\ (c =? c_dot)%N = false /\ is_number c = false
  end.

Lemma hash_facts : is_number c_hash = false /\ (c_hash =? c_dash)%N = false /\ (c_hash =? c_dollar)%N = false /\
                   (c_hash =? c_dot)%N = false.
Proof. repeat split; reflexivity. Qed.

Lemma dot_not_hex : is_hex c_dot = false.
Proof. reflexivity. Qed.

Lemma color_alpha_render (a : option str) after :
  match a with Some f => all_digits f | None => True end -> col_after_ok after ->
  color_alpha (dot_part a ++ after) = (alpha_txt a, length (dot_part a)).
Proof.
  intros Ha Hafter. unfold color_alpha. destruct a as [f|]; cbn [dot_part app].
  - cbn [cpeek_is]. rewrite N.eqb_refl. cbn [tl].
    assert (Hr : cpeek_p is_number after = false).
    { destruct after as [|c r]; [reflexivity|]. destruct Hafter as [_ [_ H]]. exact H. }
    rewrite (cspan_app is_number f after Ha Hr).
    destruct f as [|d f']; [reflexivity|]. cbn [length alpha_txt].
    change (firstn (S (S (length f'))) (c_dot :: (d :: f') ++ after)) with (c_dot :: firstn (length (d :: f')) ((d :: f') ++ after)).
    rewrite firstn_app_exact. reflexivity.
  - destruct after as [|c r]; [reflexivity|]. destruct Hafter as [_ [H _]]. cbn [cpeek_is]. rewrite H. reflexivity.
Qed.

Lemma alpha_txt_ok (a : option str) :
  match a with Some f => all_digits f | None => True end ->
  alpha_txt a = [] \/ exists d, dec_of_raw (alpha_txt a) = Some d.
Proof.
  intros Ha. destruct a as [f|]; [|left; reflexivity]. right.
  destruct f as [|d0 f']; [vm_compute; eexists; reflexivity|]. cbn [alpha_txt].
  unfold dec_of_raw. rewrite dot_not_dash.
  apply (dec_of_body_ok false [] (Some (d0 :: f'))); [constructor|exact Ha|].
  right. eexists; split; [reflexivity|discriminate].
Qed.

Lemma cconsume_color short at_start c after :
  colv_ok c -> col_after_ok after ->
  cconsume short at_start (col_text c ++ after) = CTok (col_kind c) (length (col_text c)).
Proof.
  intros [Hne [Hhex Ha]] Hafter. unfold col_text, col_raw. cbn [app].
  destruct hash_facts as [Hn [Hd [Hdl Hdot]]].
  unfold cconsume.
  assert (H1 : ccustom_property (c_hash :: (cv_hex c ++ dot_part (cv_alpha c)) ++ after) = CNone).
  { unfold ccustom_property. destruct ((cv_hex c ++ dot_part (cv_alpha c)) ++ after); reflexivity. }
  assert (H2 : cfield (c_hash :: (cv_hex c ++ dot_part (cv_alpha c)) ++ after) = CNone).
  { unfold cfield. destruct ((cv_hex c ++ dot_part (cv_alpha c)) ++ after); reflexivity. }
  assert (H3 : cnumber_value (c_hash :: (cv_hex c ++ dot_part (cv_alpha c)) ++ after) = CNone).
  { unfold cnumber_value, consume_number. cbn [cpeek_is]. rewrite Hd. unfold number_body. cbn [cspan].
    rewrite Hn. cbn [skipn cpeek_is]. rewrite Hdot. reflexivity. }
  rewrite H1; cbn [corelse]. rewrite H2; cbn [corelse]. rewrite H3; cbn [corelse].
  unfold ccolor_value. rewrite N.eqb_refl.
  rewrite <- app_assoc.
  assert (Hx : cpeek_p is_hex (dot_part (cv_alpha c) ++ after) = false).
  { destruct (cv_alpha c) as [f|]; [cbn [dot_part app cpeek_p]; exact dot_not_hex|].
    cbn [dot_part app]. destruct after as [|x r]; [reflexivity|]. destruct Hafter as [H _]. exact H. }
  rewrite (cspan_app is_hex (cv_hex c) _ Hhex Hx).
  destruct (length (cv_hex c)) as [|m] eqn:El; [destruct (cv_hex c); [contradiction|discriminate]|].
  rewrite <- El. rewrite skipn_app_exact, firstn_app_exact.
  rewrite (color_alpha_render (cv_alpha c) after Ha Hafter).
  destruct (parse_color_ok (cv_hex c) (alpha_txt (cv_alpha c)) Hhex (alpha_txt_ok _ Ha)) as [[[[rv gv] bv] a] Hp].
  unfold col_kind, col_raw. rewrite Hp.
  replace (firstn (length (cv_hex c) + length (dot_part (cv_alpha c))) (cv_hex c ++ dot_part (cv_alpha c) ++ after))
    with (cv_hex c ++ dot_part (cv_alpha c)).
  2:{ rewrite app_assoc. rewrite <- app_length. rewrite firstn_app_exact. reflexivity. }
  cbn [corelse length]. rewrite app_length.
  destruct (cv_hex c) as [|h0 htl]; [contradiction|].
  destruct (alpha_txt (cv_alpha c));
    destruct (skipn (length (h0 :: htl) + length (dot_part (cv_alpha c))) ((h0 :: htl) ++ dot_part (cv_alpha c) ++ after));
    reflexivity.
Qed.

(* ------------------------------------------------------------------ value sequences *)
Inductive valv := VNum (n : numv) | VCol (c : colv).
Definition val_text (v : valv) : str := match v with VNum n => num_text n | VCol c => col_text c end.
Definition val_kind (v : valv) : ckind := match v with VNum n => num_kind n | VCol c => col_kind c end.
Definition val_ok (v : valv) : Prop := match v with VNum n => numv_ok n | VCol c => colv_ok c end.
Definition has_unit (v : valv) : bool :=
  match v with VNum n => match nv_unit n with [] => false | _ => true end | VCol _ => false end.

(* the connectors of the statement: after a unit-less number or a colour a `-` separates the next value;
   after a number with a unit the next value is juxtaposed (and a leading `-` of it is its sign) *)
Definition conn (v : valv) : str := if has_unit v then [] else [c_dash].
Fixpoint render_vals (vals : list valv) : str :=
  match vals with
  | [] => []
  | [v] => val_text v
  | v :: rest => val_text v ++ conn v ++ render_vals rest
  end.
Definition bang_text (bang : bool) : str := if bang then [c_excl] else [].
Definition render_abbr (key : str) (vals : list valv) (bang : bool) : str := key ++ render_vals vals ++ bang_text bang.

Lemma val_kind_facts v : val_ok v ->
  should_consume_dash_after (val_kind v) = negb (has_unit v) /\ is_numcol (val_kind v) = true /\ not_bracket (val_kind v).
Proof.
  destruct v as [n|c]; cbn [val_ok val_kind has_unit]; intros H.
  - unfold num_kind. cbn. destruct (nv_unit n); repeat split; reflexivity.
  - destruct H as [Hne [Hhex Ha]]. unfold col_kind.
    destruct (parse_color_ok (cv_hex c) (alpha_txt (cv_alpha c)) Hhex (alpha_txt_ok _ Ha)) as [[[[rv gv] bv] a] Hp].
    rewrite Hp. repeat split; reflexivity.
Qed.

(* the first character of a value's text: - digit . or # *)
Definition starter (c : char) : Prop := c = c_dash \/ is_number c = true \/ c = c_dot \/ c = c_hash.

Lemma starter_facts c : starter c -> is_alpha_word c = false /\ is_cliteral c = false.
Proof.
  unfold is_cliteral. intros [ -> |[H|[ -> | -> ]]]; try (split; reflexivity).
  destruct (digit_facts_of c H) as [H1 [_ [_ [_ [_ [H2 [_ H3]]]]]]]. rewrite H1, H2, H3. split; reflexivity.
Qed.

Lemma val_text_head v rest : val_ok v -> exists c tl, val_text v ++ rest = c :: tl /\ starter c.
Proof.
  destruct v as [n|c]; cbn [val_ok val_text]; intros H.
  - destruct H as [Hip [Hfp [Hne Hu]]]. unfold num_text, num_raw. repeat rewrite <- app_assoc.
    destruct (nv_neg n); cbn [app].
    + eexists _, _. split; [reflexivity|left; reflexivity].
    + destruct (num_head (nv_ip n) (nv_fp n) (nv_unit n ++ rest) Hip Hne) as [x [tl0 [Ex Hx]]].
      rewrite Ex. exists x, tl0. split; [reflexivity|]. destruct Hx as [Hx|Hx]; [right; left; exact Hx|right; right; left; exact Hx].
  - unfold col_text. cbn [app]. eexists _, _. split; [reflexivity|right; right; right; reflexivity].
Qed.

Lemma render_vals_head v vals rest : Forall val_ok (v :: vals) ->
  exists c tl, render_vals (v :: vals) ++ rest = c :: tl /\ starter c.
Proof.
  intros H. inversion H; subst. destruct vals as [|w vals'].
  - cbn [render_vals]. apply val_text_head. assumption.
  - cbn [render_vals]. rewrite <- app_assoc. apply val_text_head. assumption.
Qed.

(* one value followed by [after]: the conditions of the single-token lemmas hold when [after] is empty, starts
   with - or !, or (after a unit) starts like a value *)
Lemma cconsume_val short at_start v after :
  val_ok v ->
  match after with
  | [] => True
  | c :: _ => c = c_dash \/ c = c_excl \/ (has_unit v = true /\ starter c) \/ c = c_plus
  end ->
  cconsume short at_start (val_text v ++ after) = CTok (val_kind v) (length (val_text v)).
Proof.
  intros Hok Ha. destruct v as [n|c]; cbn [val_ok val_text val_kind has_unit] in *.
  - apply cconsume_number; [exact Hok|]. unfold num_after_ok. destruct after as [|x r]; [exact I|].
    destruct Ha as [ -> |[ -> |[[Hu Hs]| -> ]]].
    + split; [reflexivity|]. intros _. repeat split; reflexivity.
    + split; [reflexivity|]. intros _. repeat split; reflexivity.
    + split; [apply starter_facts; exact Hs|]. intros E. rewrite E in Hu. discriminate.
    + split; [reflexivity|]. intros _. repeat split; reflexivity.
  - apply cconsume_color; [exact Hok|]. unfold col_after_ok. destruct after as [|x r]; [exact I|].
    destruct Ha as [ -> |[ -> |[[Hu _]| -> ]]]; [repeat split; reflexivity|repeat split; reflexivity|discriminate|
                                               repeat split; reflexivity].
Qed.

Lemma ctoks_bang src acc pos :
  ctoks src false 0 0 acc pos [c_excl] = CTOk (rev acc ++ [mkCTok (COperator c_excl) pos (pos + 1)]).
Proof.
  rewrite (ctoks_round src false 0 acc pos [c_excl] (COperator c_excl) 1).
  - cbn. reflexivity.
  - destruct (Nat.eqb pos 0); reflexivity.
  - exact I.
Qed.

Lemma ctoks_vals : forall vals src acc pos bang,
  Forall val_ok vals -> vals <> [] ->
  exists ts vs b,
    body_of ts vs /\ map ck vs = map val_kind vals /\ k_is_important (ck b) = true /\
    ctoks src false 0 0 acc pos (render_vals vals ++ bang_text bang) = CTOk (rev acc ++ ts ++ bang_tail bang b).
Proof.
  induction vals as [|v vals IH]; intros src acc pos bang Hall Hne; [contradiction|].
  inversion Hall as [|? ? Hv Hrest]; subst.
  destruct (val_kind_facts v Hv) as [Hforce [Hnc Hnb]].
  set (n := length (val_text v)).
  set (t := mkCTok (val_kind v) pos (pos + n)).
  destruct vals as [|w vals'].
  - (* the last value *)
    cbn [render_vals].
    assert (Hc : cconsume (Nat.eqb 0 0 && negb false) (Nat.eqb pos 0) (val_text v ++ bang_text bang) =
                 CTok (val_kind v) n).
    { apply cconsume_val; [exact Hv|]. destruct bang; cbn [bang_text]; [right; left; reflexivity|exact I]. }
    rewrite (ctoks_round src false 0 acc pos _ _ n Hc Hnb). rewrite Hforce.
    subst n. rewrite skipn_app_exact.
    replace (skipn (length (val_text v) + 1) (val_text v ++ bang_text bang)) with (skipn 1 (bang_text bang))
      by (rewrite <- (skipn_app_exact (val_text v) (bang_text bang)) at 1; rewrite cskipn_add; f_equal; lia).
    exists [t], [t], (mkCTok (COperator c_excl) (pos + length (val_text v)) (pos + length (val_text v) + 1)).
    split; [apply body_val; [exact Hnc|apply body_nil]|]. split; [reflexivity|]. split; [reflexivity|].
    destruct bang; cbn [bang_text bang_tail].
    + destruct (has_unit v); cbn [negb].
      * rewrite ctoks_bang. cbn [rev]. rewrite <- !app_assoc. reflexivity.
      * cbn [coperator skipn]. change (assoc_N c_excl css_operator_map) with (Some c_excl).
        cbn [ctoks rev]. rewrite <- !app_assoc. reflexivity.
    + destruct (has_unit v); cbn [negb coperator ctoks rev]; rewrite app_nil_r; reflexivity.
  - (* more values follow *)
    change (render_vals (v :: w :: vals')) with (val_text v ++ conn v ++ render_vals (w :: vals')).
    repeat rewrite <- app_assoc.
    set (R := render_vals (w :: vals') ++ bang_text bang).
    destruct (render_vals_head w vals' (bang_text bang) Hrest) as [c0 [tl0 [ER Hst]]]. fold R in ER.
    assert (Hc : cconsume (Nat.eqb 0 0 && negb false) (Nat.eqb pos 0) (val_text v ++ conn v ++ R) =
                 CTok (val_kind v) n).
    { apply cconsume_val; [exact Hv|]. unfold conn. destruct (has_unit v) eqn:Eu; cbn [app].
      - rewrite ER. right. right. left. split; [reflexivity|exact Hst].
      - left. reflexivity. }
    rewrite (ctoks_round src false 0 acc pos _ _ n Hc Hnb). rewrite Hforce.
    subst n. rewrite skipn_app_exact.
    unfold conn in *. destruct (has_unit v) eqn:Eu; cbn [negb app].
    + (* juxtaposed *)
      destruct (IH src (t :: acc) (pos + length (val_text v)) bang Hrest ltac:(discriminate))
        as [ts [vs [b [Hb [Hk [Hi Hrun]]]]]].
      exists (t :: ts), (t :: vs), b. split; [apply body_val; assumption|]. split; [cbn [map]; rewrite Hk; reflexivity|].
      split; [exact Hi|]. fold R in Hrun. fold t. rewrite Hrun. cbn [rev]. rewrite <- !app_assoc. reflexivity.
    + (* the dash is the delimiter *)
      cbn [coperator]. change (assoc_N c_dash css_operator_map) with (Some c_dash). cbv iota beta.
      replace (skipn (length (val_text v) + 1) (val_text v ++ c_dash :: R)) with R.
      2:{ replace (val_text v ++ c_dash :: R) with ((val_text v ++ [c_dash]) ++ R) by (rewrite <- app_assoc; reflexivity).
          replace (length (val_text v) + 1) with (length (val_text v ++ [c_dash])) by (rewrite app_length; reflexivity).
          rewrite skipn_app_exact. reflexivity. }
      set (op := mkCTok (COperator c_dash) (pos + length (val_text v)) (pos + length (val_text v) + 1)).
      destruct (IH src (op :: t :: acc) (pos + length (val_text v) + 1) bang Hrest ltac:(discriminate))
        as [ts [vs [b [Hb [Hk [Hi Hrun]]]]]].
      exists (t :: op :: ts), (t :: vs), b.
      split; [apply body_val; [exact Hnc|apply body_delim; [reflexivity|exact Hb]]|].
      split; [cbn [map]; rewrite Hk; reflexivity|]. split; [exact Hi|].
      fold R in Hrun. fold t. fold op. rewrite Hrun. cbn [rev]. rewrite <- !app_assoc. reflexivity.
Qed.

(* the scanner step: the rendered abbreviation tokenizes into  name, values with delimiters, [!] *)
Theorem value_seq_tokenize key vals bang :
  key_ok key -> Forall val_ok vals -> vals <> [] ->
  exists lit0 ts vs b,
    ctokenize false (render_abbr key vals bang) = CTOk (lit0 :: ts ++ bang_tail bang b) /\
    ck lit0 = CLiteral key /\ body_of ts vs /\ map ck vs = map val_kind vals /\ k_is_important (ck b) = true.
Proof.
  intros Hk Hall Hne. unfold ctokenize, render_abbr.
  destruct vals as [|v vals']; [contradiction|].
  destruct (render_vals_head v vals' (bang_text bang) Hall) as [c0 [tl0 [ER Hst]]].
  assert (Hc : cconsume (Nat.eqb 0 0 && negb false) (Nat.eqb 0 0) (key ++ render_vals (v :: vals') ++ bang_text bang) =
               CTok (CLiteral key) (length key)).
  { apply cconsume_key; [exact Hk|]. rewrite ER. cbn [cpeek_p]. apply starter_facts. exact Hst. }
  rewrite (ctoks_round _ false 0 [] 0 _ _ _ Hc I). cbn [should_consume_dash_after].
  rewrite skipn_app_exact.
  destruct (ctoks_vals (v :: vals') (key ++ render_vals (v :: vals') ++ bang_text bang)
                       [mkCTok (CLiteral key) 0 (0 + length key)] (0 + length key) bang Hall Hne)
    as [ts [vs [b [Hb [Hkk [Hi Hrun]]]]]].
  exists (mkCTok (CLiteral key) 0 (0 + length key)), ts, vs, b.
  split; [rewrite Hrun; reflexivity|]. repeat split; assumption.
Qed.

(* ------------------------------------------------------------------ value_seq_expand, from the STRING *)
(* how a value of kind k prints (numbers by the unit rule, colours by their value) *)
Definition value_text_k (cfg : sconfig) (prop : str) (k : ckind) : str := value_text cfg prop (mkCTok k 0 0).

Lemma value_text_by_kind cfg prop t : value_text cfg prop t = value_text_k cfg prop (ck t).
Proof. reflexivity. Qed.

Theorem value_seq_expand cfg sn key key' prop value kws deps vals bang :
  key_ok key -> Forall val_ok vals -> vals <> [] ->
  c_context cfg = None -> c_json cfg = false ->
  str_eqb key gradient_name = false ->
  find_best_match sn_key key sn (c_min_score cfg) true = Some (SnProp key' prop value kws deps) ->
  get_unmatched_part key key' 0 = [] ->
  expand_with cfg sn (render_abbr key vals bang) =
  Ok (push_string cfg (prop ++ c_between cfg) ++
      join [c_space] (map (fun v => value_text_k cfg prop (val_kind v)) vals) ++
      (if bang then lit " !important" else []) ++ c_after cfg).
Proof.
  intros Hk Hall Hne Hc Hj Hg Hm Hu.
  destruct (value_seq_tokenize key vals bang Hk Hall Hne) as [lit0 [ts [vs [b [Ht [Hl [Hb [Hkk Hi]]]]]]]].
  assert (Hvs : vs <> []).
  { intros E. subst vs. destruct vals; [contradiction|discriminate]. }
  rewrite (value_seq_expand_from_tokens cfg sn _ lit0 b key key' prop value kws deps ts vs bang Ht Hl Hb Hi Hc Hj Hg Hm Hu Hvs).
  assert (E : map (value_text cfg prop) vs = map (fun v => value_text_k cfg prop (val_kind v)) vals).
  { transitivity (map (value_text_k cfg prop) (map ck vs)).
    - rewrite map_map. apply map_ext. intros t. apply value_text_by_kind.
    - rewrite Hkk, map_map. reflexivity. }
  rewrite E. reflexivity.
Qed.
