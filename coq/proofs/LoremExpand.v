(* lorem(), end to end through the transform pass: a top-level lorem leaf becomes the text node of its paragraph --
   both passes (the drawing pass and the transform pass, BEM addon included) composed. *)
From Coq Require Import ZArith List Bool Lia.
From Emmet Require Import lib.Base model.MarkupTokenizer model.MarkupParser model.MarkupConvert model.MarkupBem
     model.MarkupLorem model.MarkupResolve proofs.BemProofs proofs.LoremProofs proofs.LoremFill.
From Emmet Require proofs.ExpandTree.
Import ListNotations.

Theorem lorem_top_leaf : forall cfg nm v rp at_ sc lang minw maxw t rest,
  lorem_header nm = LYes lang minw maxw ->
  lorem_text lang minw maxw (match rp with None => true | Some r => (rvalue r =? 0)%N end) (mc_draws cfg) = LOk t rest ->
  transform_list cfg [ANode nm v rp at_ [] sc] = Ok [ANode None (Some [VStr t]) rp None [] sc].
Proof.
  intros cfg nm v rp at_ sc lang minw maxw t rest Hh Ht.
  unfold transform_list, lorem_fill. cbn [lorem_fill_list]. rewrite lorem_fill_node_eq. rewrite Hh. cbv zeta.
  replace (own_or rp None) with rp by (destruct rp; reflexivity).
  rewrite Ht. cbn [lbind fill_kids lres_to_res bind transform_forest].
  rewrite ExpandTree.transform_tree_eq. cbv zeta. cbn [andb].
  pose proof (transform_pre_lorem cfg None true nm (Some [VStr t]) rp at_ [] sc lang minw maxw Hh) as Hpre.
  unfold transform_node.
  destruct (transform_node_pre cfg None true (ANode nm (Some [VStr t]) rp at_ [] sc)) as [n1 found]. cbn [fst] in Hpre. subst n1.
  assert (Hname : match rp with Some _ => if true then None else Some (implicit_name_of cfg None) | None => None end = @None str)
    by (destruct rp; reflexivity).
  rewrite Hname.
  destruct (mc_bem cfg).
  - rewrite (bem_no_class (bem_cfg_of cfg) [] (ANode None (Some [VStr t]) rp None [] sc)) by reflexivity.
    cbn [bind ExpandTree.tt_kids length firstn]. reflexivity.
  - cbn [bind ExpandTree.tt_kids length firstn]. reflexivity.
Qed.
