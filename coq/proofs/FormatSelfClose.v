(* C12 selfclose_local, chunk-exact: two runs that differ only in output.selfClosingStyle (with
   compactBoolean off) make the same callback invocations one by one -- blanks included -- except
   that the chunk closing a self-closed tag is "<style 1 mark>>" in one and "<style 2 mark>>" in the
   other.  Lockstep induction: the two runs take the same decisions at every step. *)
From Coq Require Import ZArith List Bool Lia ZifyBool.
From Emmet Require Import lib.Base model.MarkupTokenizer model.MarkupParser model.MarkupConvert
     model.OutStream model.FormatHtml model.FormatIndent proofs.OutStreamProofs proofs.FormatSteps
     proofs.FormatReach proofs.FormatProofs proofs.FormatChunks proofs.FormatCosmetic.

(* ---------------------------------------------------------------- the line counter *)
Definition ln (st : fstate) : nat := os_line (fs_out st).

Lemma line_push_gen b o s : os_line (os_push_gen b o s) = os_line o.
Proof. reflexivity. Qed.
Lemma line_push_newline f o ind : os_line (os_push_newline f o ind) = S (os_line o).
Proof. unfold os_push_newline. destruct ind as [[n|]|]; reflexivity. Qed.
Lemma line_push_string f o s : os_line (os_push_string f o s) = os_line o + (length (split_crlf s) - 1).
Proof.
  unfold os_push_string. destruct (split_crlf s) as [|l0 ls]; [cbn; lia|].
  assert (G : forall ls o', os_line (fold_left (fun o'' l => os_push (os_push_newline f o'' (Some None)) l) ls o')
                            = os_line o' + length ls).
  { induction ls0 as [|l ls0 IH]; intros o'; cbn [fold_left length]; [lia|]. rewrite IH. unfold os_push.
    rewrite line_push_gen, line_push_newline. lia. }
  rewrite G. unfold os_push. rewrite line_push_gen. cbn [length]. lia.
Qed.

Definition token_lines (toks : list vtok) : nat :=
  fold_right (fun t k => match t with VStr s => length (split_crlf s) - 1 | VField _ nm => lf_count nm end + k) 0 toks.

Lemma line_push_tokens c toks st : ln (push_tokens c toks st) = ln st + token_lines toks.
Proof.
  unfold ln, push_tokens.
  assert (G : forall toks o lg,
            os_line (fst (fold_left (fun '(o, lg) t =>
                 match t with
                 | VStr s => (os_push_string (oc_fmt c) o s, lg)
                 | VField i nm => (os_push_field o (fs_field st + i)%N nm,
                                   match lg with Some l => Some (N.max l i) | None => Some i end)
                 end) toks (o, lg))) = os_line o + token_lines toks).
  { induction toks0 as [|t ts IH]; intros o lg; cbn [fold_left fst token_lines fold_right]; [lia|].
    destruct t as [s|i nm]; rewrite IH; [rewrite line_push_string|cbn [os_push_field os_line]]; fold (token_lines ts); lia. }
  specialize (G toks (fs_out st) None).
  destruct (fold_left _ toks (fs_out st, None)) as [out largest]. cbn [fst] in G. cbn [fs_out]. exact G.
Qed.

Lemma line_push_str c s st : ln (push_str c s st) = ln st + (length (split_crlf s) - 1).
Proof. unfold ln, push_str. cbn [fs_out]. apply line_push_string. Qed.

(* should_format does not look at the self-closing style *)
Lemma count_inline_style s c l : count_inline (with_style s c) l = count_inline c l.
Proof.
  induction l as [|x l IH]; [reflexivity|]. cbn [count_inline].
  change (is_inline (with_style s c) x) with (is_inline c x). rewrite IH. reflexivity.
Qed.

Lemma should_format_style s c : forall node parent i it,
  should_format (with_style s c) parent node i it = should_format c parent node i it.
Proof.
  induction node as [nm v rp at_ ch sc IH] using anode_ind'. intros parent i it.
  assert (G : forall l, Forall (fun n => forall parent i it, should_format (with_style s c) parent n i it = should_format c parent n i it) l ->
              forall i0,
              (fix go (i : nat) (l : list anode) : bool :=
                 match l with
                 | [] => false
                 | x :: r => should_format (with_style s c) parent x i ch || go (S i) r
                 end) i0 l =
              (fix go (i : nat) (l : list anode) : bool :=
                 match l with
                 | [] => false
                 | x :: r => should_format c parent x i ch || go (S i) r
                 end) i0 l).
  { induction l as [|x l IHl]; intros HF i0; [reflexivity|]. inversion HF; subst. rewrite H1, IHl by assumption. reflexivity. }
  cbn [should_format an_children an_value].
  rewrite (G ch IH 0), !count_inline_style. reflexivity.
Qed.

(* ---------------------------------------------------------------- lockstep invariant *)
Section Lock.
Variables (c : oconfig) (s1 s2 : str).
Hypothesis Hcompact : oc_compact_boolean c = false.
Let c1 := with_style s1 c.
Let c2 := with_style s2 c.

Definition mark (c0 : oconfig) : chunk := CT false (self_close c0 ++ [c_gt]).
Definition same_chunk (x y : chunk) : Prop := x = y \/ (x = mark c1 /\ y = mark c2).

Definition Inv (a b : fstate) : Prop :=
  Forall2 same_chunk (fchunks a) (fchunks b) /\ lvl a = lvl b /\ fs_field a = fs_field b /\ ln a = ln b.

Lemma F2_app_same x y z : Forall2 same_chunk x y -> Forall2 same_chunk (x ++ z) (y ++ z).
Proof. intros H. apply Forall2_app; [exact H|]. induction z; constructor; [left; reflexivity|assumption]. Qed.

Lemma Inv_push_str s a b : Inv a b -> Inv (push_str c1 s a) (push_str c2 s b).
Proof.
  intros [Hc [Hl [Hf Hn]]]. repeat split.
  - rewrite !ch_push_str, Hl. apply F2_app_same, Hc.
  - rewrite !lvl_push_str. exact Hl.
  - exact Hf.
  - rewrite !line_push_str, Hn. reflexivity.
Qed.

Lemma Inv_push_tokens v a b : Inv a b -> Inv (push_tokens c1 v a) (push_tokens c2 v b).
Proof.
  intros [Hc [Hl [Hf Hn]]].
  destruct (push_tokens_spec c1 v a) as [Ea Fa]. destruct (push_tokens_spec c2 v b) as [Eb Fb]. repeat split.
  - rewrite Ea, Eb, Hl, Hf. apply F2_app_same, Hc.
  - rewrite !lvl_push_tokens. exact Hl.
  - rewrite Fa, Fb, Hf. reflexivity.
  - rewrite !line_push_tokens, Hn. reflexivity.
Qed.

Lemma Inv_level d a b : Inv a b -> Inv (map_out (fun o => os_add_level o d) a) (map_out (fun o => os_add_level o d) b).
Proof.
  intros [Hc [Hl [Hf Hn]]]. repeat split; try assumption. rewrite !lvl_map_level, Hl. reflexivity.
Qed.

Lemma Inv_newline ind a b :
  Inv a b -> Inv (map_out (fun o => os_push_newline (oc_fmt c1) o ind) a) (map_out (fun o => os_push_newline (oc_fmt c2) o ind) b).
Proof.
  intros [Hc [Hl [Hf Hn]]]. repeat split.
  - rewrite !ch_map_newline, Hl. apply F2_app_same, Hc.
  - rewrite !lvl_map_newline. exact Hl.
  - exact Hf.
  - unfold ln, map_out in *. cbn [fs_out]. rewrite !line_push_newline, Hn. reflexivity.
Qed.

Lemma Inv_level_newline d a b : Inv a b -> Inv (level_newline c1 d a) (level_newline c2 d b).
Proof.
  intros [Hc [Hl [Hf Hn]]]. repeat split.
  - rewrite !ch_level_newline, Hl. apply F2_app_same, Hc.
  - rewrite !lvl_level_newline, Hl. reflexivity.
  - exact Hf.
  - unfold ln, level_newline, map_out, os_push_newline_int in *. cbn [fs_out]. rewrite !line_push_newline.
    unfold os_add_level, os_set_level. cbn [os_line]. rewrite Hn. reflexivity.
Qed.

Lemma Inv_newline_int (g : Z -> Z) a b :
  Inv a b ->
  Inv (map_out (fun o => os_push_newline_int (oc_fmt c1) o (g (os_level o))) a)
      (map_out (fun o => os_push_newline_int (oc_fmt c2) o (g (os_level o))) b).
Proof.
  intros [Hc [Hl [Hf Hn]]]. unfold lvl in Hl. repeat split.
  - unfold fchunks, map_out, os_push_newline_int. cbn [fs_out]. rewrite !ch_push_newline, Hl. apply F2_app_same, Hc.
  - unfold lvl, map_out, os_push_newline_int. cbn [fs_out]. rewrite !lvl_push_newline. exact Hl.
  - exact Hf.
  - unfold ln, map_out, os_push_newline_int in *. cbn [fs_out]. rewrite !line_push_newline, Hn. reflexivity.
Qed.

Lemma Inv_fold {A} (f1 f2 : fstate -> A -> fstate) (l : list A) :
  (forall a b x, Inv a b -> Inv (f1 a x) (f2 b x)) -> forall a b, Inv a b -> Inv (fold_left f1 l a) (fold_left f2 l b).
Proof. intros Hs. induction l as [|x l IH]; intros a b H; cbn [fold_left]; [exact H|]. apply IH, Hs, H. Qed.

Lemma Inv_comment_node text n a b : Inv a b -> Inv (comment_node c1 text n a) (comment_node c2 text n b).
Proof.
  intros H. unfold comment_node. destruct text; [exact H|].
  change (should_comment c2 n) with (should_comment c1 n). destruct (should_comment c1 n); [|exact H].
  unfold comment_output. apply Inv_fold; [|exact H].
  intros a' b' t H'. destruct t as [s|bf af nm]; [apply Inv_push_str, H'|].
  destruct (assoc_str nm _); [|exact H']. apply Inv_push_str, Inv_push_tokens, Inv_push_str, H'.
Qed.

Lemma value2_truthy' x name v : truthy_l (attr_value2 c1 x name v) = true.
Proof.
  unfold attr_value2. change (oc_compact_boolean c1) with (oc_compact_boolean c). rewrite Hcompact. cbn [negb].
  destruct (is_boolean_attribute c1 x && negb (truthy_l v)); [reflexivity|].
  destruct (truthy_l v) eqn:E; cbn [negb]; [exact E|reflexivity].
Qed.

Lemma Inv_push_attribute x a b : Inv a b -> Inv (push_attribute c1 x a) (push_attribute c2 x b).
Proof.
  intros H. rewrite !push_attribute_unfold. destruct (aa_name x) as [[|y nm]|]; try exact H.
  change (attr_out_name c2 x (y :: nm)) with (attr_out_name c1 x (y :: nm)).
  change (attr_v1 c2 x (y :: nm)) with (attr_v1 c1 x (y :: nm)).
  cbv zeta. destruct (attr_v1 c1 x (y :: nm)) as [[value1 lq] rq].
  change (attr_value2 c2 x (attr_out_name c1 x (y :: nm)) value1) with (attr_value2 c1 x (attr_out_name c1 x (y :: nm)) value1).
  pose proof (value2_truthy' x (attr_out_name c1 x (y :: nm)) value1) as Ht.
  unfold attr_write. destruct (attr_value2 c1 x (attr_out_name c1 x (y :: nm)) value1) as [[|v0 vr]|]; try discriminate.
  apply Inv_push_str, Inv_push_tokens, Inv_push_str, Inv_push_str, H.
Qed.

Lemma Inv_el_open nm node a b : Inv a b -> Inv (el_open c1 nm node a) (el_open c2 nm node b).
Proof.
  intros H. unfold el_open, el_attrs. change (tag_name c2 nm) with (tag_name c1 nm).
  change (oc_comment_before c2) with (oc_comment_before c1).
  assert (H' : Inv (push_str c1 (c_lt :: tag_name c1 nm) (comment_node c1 (oc_comment_before c1) node a))
                   (push_str c2 (c_lt :: tag_name c1 nm) (comment_node c2 (oc_comment_before c1) node b))).
  { apply Inv_push_str, Inv_comment_node, H. }
  destruct (an_attrs node) as [[|x l]|]; try exact H'.
  apply Inv_fold; [|exact H']. intros a' b' y Hy. destruct (should_output_attribute y); [apply Inv_push_attribute|]; exact Hy.
Qed.

Lemma Inv_el_close nm node a b : Inv a b -> Inv (el_close c1 nm node a) (el_close c2 nm node b).
Proof.
  intros H. unfold el_close. change (tag_name c2 nm) with (tag_name c1 nm).
  change (oc_comment_after c2) with (oc_comment_after c1). apply Inv_comment_node, Inv_push_str, H.
Qed.

Lemma Inv_el_value node a b : Inv a b -> Inv (el_value c1 node a) (el_value c2 node b).
Proof.
  intros H. unfold el_value. destruct (an_value node) as [[|v0 v]|]; try exact H.
  change (starts_with_block_tag c2 (v0 :: v)) with (starts_with_block_tag c1 (v0 :: v)).
  destruct (existsb has_newline (v0 :: v) || starts_with_block_tag c1 (v0 :: v)).
  - destruct (an_children node).
    + apply Inv_level_newline, Inv_push_tokens, Inv_level_newline, H.
    + apply Inv_level, Inv_push_tokens, Inv_level_newline, H.
  - apply Inv_push_tokens, H.
Qed.

Lemma Inv_el_leaf nm node a b : Inv a b -> Inv (el_leaf c1 nm node a) (el_leaf c2 nm node b).
Proof.
  intros H. unfold el_leaf.
  destruct (negb (truthy_l (an_value node)) && match an_children node with [] => true | _ => false end); [|exact H].
  change (oc_format_leaf c2) with (oc_format_leaf c1). change (oc_format_force c2) with (oc_format_force c1).
  destruct (oc_format_leaf c1 || mem_str nm (oc_format_force c1)).
  - apply Inv_level_newline, Inv_push_tokens, Inv_level_newline, H.
  - apply Inv_push_tokens, H.
Qed.

Definition InvO (x y : option fstate) : Prop :=
  match x, y with Some a, Some b => Inv a b | None, None => True | _, _ => False end.
Definition next_inv (n1 n2 : fstate -> fstate) : Prop := forall a b, Inv a b -> Inv (n1 a) (n2 b).

Lemma Inv_el_snippet node n1 n2 a b :
  next_inv n1 n2 -> Inv a b -> InvO (el_snippet c1 node n1 a) (el_snippet c2 node n2 b).
Proof.
  intros Hn H. unfold el_snippet.
  destruct (an_value node) as [[|v0 value]|]; try exact I.
  destruct (an_children node) as [|ch0 ch]; try exact I.
  destruct (find_field_ix (v0 :: value)) as [ix|]; try exact I.
  set (a1 := push_tokens c1 (firstn ix (v0 :: value)) a). set (b1 := push_tokens c2 (firstn ix (v0 :: value)) b).
  assert (Hs1 : Inv a1 b1) by (apply Inv_push_tokens, H).
  assert (Hs2 : Inv (n1 a1) (n2 b1)) by (apply Hn, Hs1).
  assert (E1 : os_line (fs_out a1) = os_line (fs_out b1)) by (destruct Hs1 as [_ [_ [_ E]]]; exact E).
  assert (E2 : os_line (fs_out (n1 a1)) = os_line (fs_out (n2 b1))) by (destruct Hs2 as [_ [_ [_ E]]]; exact E).
  rewrite E1, E2.
  destruct (nth_error (v0 :: value) (S ix)) as [[s|i nm]|]; cbn [InvO].
  - destruct (negb (Nat.eqb (os_line (fs_out (n2 b1))) (os_line (fs_out b1)))); cbn [InvO].
    + apply Inv_push_tokens, Inv_push_str, Hs2.
    + apply Inv_push_tokens, Hs2.
  - apply Inv_push_tokens, Hs2.
  - apply Inv_push_tokens, Hs2.
Qed.

Lemma mark_chunks c0 L : string_chunks (oc_fmt c0) L (self_close c0 ++ [c_gt]) = [mark c0].
Proof.
  unfold mark, string_chunks, self_close.
  destruct (str_eqb (oc_self_closing_style c0) s_xhtml); [reflexivity|].
  destruct (str_eqb (oc_self_closing_style c0) s_xml); reflexivity.
Qed.
Lemma mark_lines c0 : length (split_crlf (self_close c0 ++ [c_gt])) - 1 = 0.
Proof.
  unfold self_close.
  destruct (str_eqb (oc_self_closing_style c0) s_xhtml); [reflexivity|].
  destruct (str_eqb (oc_self_closing_style c0) s_xml); reflexivity.
Qed.

Lemma Inv_selfclose a b :
  Inv a b -> Inv (push_str c1 (self_close c1 ++ [c_gt]) a) (push_str c2 (self_close c2 ++ [c_gt]) b).
Proof.
  intros [Hc [Hl [Hf Hn]]]. repeat split.
  - rewrite !ch_push_str, !mark_chunks. apply Forall2_app; [exact Hc|].
    constructor; [right; split; reflexivity|constructor].
  - rewrite !lvl_push_str. exact Hl.
  - exact Hf.
  - rewrite !line_push_str, !mark_lines, Hn. reflexivity.
Qed.

Lemma Inv_el_body node n1 n2 a b :
  next_inv n1 n2 -> Inv a b -> Inv (el_body c1 node n1 a) (el_body c2 node n2 b).
Proof.
  intros Hn H. unfold el_body.
  assert (Hun : Inv (el_unnamed c1 node n1 a) (el_unnamed c2 node n2 b)).
  { unfold el_unnamed. pose proof (Inv_el_snippet node n1 n2 a b Hn H) as Hs.
    destruct (el_snippet c1 node n1 a); destruct (el_snippet c2 node n2 b); cbn [InvO] in Hs; try contradiction; [exact Hs|].
    apply Hn. destruct (an_value node) as [[|v0 v]|]; try exact H. apply Inv_push_tokens, H. }
  destruct (an_name node) as [[|x nm]|]; try exact Hun.
  unfold el_named.
  destruct (an_self node && match an_children node with [] => true | _ => false end && negb (truthy_l (an_value node))).
  - apply Inv_selfclose, Inv_el_open, H.
  - apply Inv_el_close. unfold el_content.
    pose proof (Inv_el_snippet node n1 n2 _ _ Hn (Inv_push_str [c_gt] _ _ (Inv_el_open (x :: nm) node a b H))) as Hs.
    destruct (el_snippet c1 node n1 _); destruct (el_snippet c2 node n2 _); cbn [InvO] in Hs; try contradiction; [exact Hs|].
    apply Inv_el_leaf, Hn, Inv_el_value, Inv_push_str, Inv_el_open, H.
Qed.

Lemma sf12 p node i it : should_format c2 p node i it = should_format c1 p node i it.
Proof. unfold c1, c2. rewrite !should_format_style. reflexivity. Qed.

Lemma Inv_html_step p node i it n1 n2 a b :
  next_inv n1 n2 -> Inv a b ->
  Inv (html_element_step c1 p node i it n1 a) (html_element_step c2 p node i it n2 b).
Proof.
  intros Hn H. unfold html_element_step.
  rewrite sf12.
  change (get_indent c2 p) with (get_indent c1 p).
  apply Inv_level. unfold el_tail.
  change (tail_newline c2 (should_format c1 p node i it) p i it) with (tail_newline c1 (should_format c1 p node i it) p i it).
  assert (Hb : Inv (el_body c1 node n1 (if should_format c1 p node i it
                                        then map_out (fun o => os_push_newline (oc_fmt c1) o (Some None)) (map_out (fun o => os_add_level o (get_indent c1 p)) a)
                                        else map_out (fun o => os_add_level o (get_indent c1 p)) a))
                   (el_body c2 node n2 (if should_format c1 p node i it
                                        then map_out (fun o => os_push_newline (oc_fmt c2) o (Some None)) (map_out (fun o => os_add_level o (get_indent c1 p)) b)
                                        else map_out (fun o => os_add_level o (get_indent c1 p)) b))).
  { apply Inv_el_body; [exact Hn|]. destruct (should_format c1 p node i it); [apply Inv_newline|]; apply Inv_level, H. }
  destruct (tail_newline c1 (should_format c1 p node i it) p i it); [|exact Hb].
  apply (Inv_newline_int (fun l => l - (if is_snippet_opt p then 0 else 1))%Z), Hb.
Qed.

Lemma Inv_html_walk p it : forall l i a b,
  Forall (fun n => forall p i it a b, Inv a b -> Inv (html_element c1 p n i it a) (html_element c2 p n i it b)) l ->
  Inv a b -> Inv (html_walk c1 p it i l a) (html_walk c2 p it i l b).
Proof.
  induction l as [|x l IH]; intros i a b HF H; cbn [html_walk]; [exact H|].
  inversion HF as [|y z Hx HF']; subst. apply IH; [exact HF'|]. apply Hx, H.
Qed.

Theorem Inv_html_element : forall node p i it a b,
  Inv a b -> Inv (html_element c1 p node i it a) (html_element c2 p node i it b).
Proof.
  induction node as [nm v rp at_ ch sc IHch] using anode_ind'. intros p i it a b H.
  rewrite !html_element_unfold. apply Inv_html_step; [|exact H].
  intros a' b' H'. rewrite !html_children_walk. apply Inv_html_walk; [exact IHch|exact H'].
Qed.

Theorem selfclose_exact_lemma children :
  Forall2 same_chunk (fchunks (html_format c1 children)) (fchunks (html_format c2 children)).
Proof.
  rewrite !html_format_walk.
  destruct (Inv_html_walk None children children 0 (mkFs os_empty 1) (mkFs os_empty 1)) as [H _].
  - apply Forall_forall. intros n _. apply Inv_html_element.
  - repeat split. constructor.
  - exact H.
Qed.
End Lock.
