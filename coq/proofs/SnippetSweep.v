(* C14: complete sweep of the built-in snippet tables (regenerated from the source on every run). *)
From Coq Require Import List NArith ZArith Bool.
From Emmet Require Import lib.Base lib.Wire model.MarkupTokenizer model.MarkupParser model.MarkupConvert
     model.MarkupResolve model.OutStream model.FormatHtml model.FormatIndent model.MarkupExpand
     gen.GenMarkupSnippets gen.GenAttr run.MarkupRun.
Import ListNotations.

(* (kept local so that the 2-minute sweep is not rebuilt when other proof files change) *)
Lemma a_str_eqb_eq : forall a b, str_eqb a b = true <-> a = b.
Proof.
  induction a as [|x a IH]; destruct b as [|y b]; simpl; split; intro H; try reflexivity; try discriminate.
  - apply andb_true_iff in H. destruct H as [H1 H2]. apply N.eqb_eq in H1. apply IH in H2. subst. reflexivity.
  - inversion H; subst. rewrite N.eqb_refl. simpl. apply IH. reflexivity.
Qed.

Definition n_html : str := [104;116;109;108]%N.
Definition n_xsl : str := [120;115;108]%N.
Definition n_pug : str := [112;117;103]%N.
Definition n_html_rev : str := [104;116;109;108;45;114;101;118]%N.

Definition decode_cfg (w : list Z) : option xconfig :=
  match dec_config w with Some (x, []) => Some x | _ => None end.

Definition config_named (name : str) : option xconfig :=
  if str_eqb name n_html then decode_cfg cfg_wire_html
  else if str_eqb name n_xsl then decode_cfg cfg_wire_xsl
  else if str_eqb name n_pug then decode_cfg cfg_wire_pug
  else if str_eqb name n_html_rev then decode_cfg cfg_wire_html_rev
  else None.

Definition tag {A} (name : str) (l : list A) : list (str * A) := map (fun p => (name, p)) l.

Definition all_alias_pairs : list (str * (str * str)) :=
  tag n_html alias_pairs_html ++ tag n_xsl alias_pairs_xsl ++ tag n_pug alias_pairs_pug
  ++ tag n_html_rev alias_pairs_html_rev.

(* python dict update order: later tables override earlier keys; keys of the merged table *)
Definition overlay (over base : list (str * str)) : list (str * str) :=
  over ++ filter (fun kv => negb (existsb (fun o => str_eqb (fst o) (fst kv)) over)) base.
Definition all_table_entries : list (str * (str * str)) :=
  tag n_html markup_snippets ++ tag n_xsl (overlay xsl_snippets markup_snippets)
  ++ tag n_pug (overlay pug_snippets markup_snippets).

Definition res_str_eqb (a b : res str) : bool :=
  match a, b with
  | Ok x, Ok y => str_eqb x y
  | _, _ => false            (* an error on either side fails the sweep *)
  end.

Definition pair_ok (e : str * (str * str)) : bool :=
  match config_named (fst e) with
  | Some x => res_str_eqb (expand_markup_str x (fst (snd e))) (expand_markup_str x (snd (snd e)))
  | None => false
  end.

Lemma sweep_ok : forallb pair_ok all_alias_pairs = true.
Proof. vm_compute. reflexivity. Qed.

Theorem alias_eq_definition_builtin :
  forall (name : str) (a d : str),
    In (name, (a, d)) all_alias_pairs ->
    exists x, config_named name = Some x /\ expand_markup_str x a = expand_markup_str x d.
Proof.
  intros name a d H. pose proof sweep_ok as S. rewrite forallb_forall in S. specialize (S _ H).
  unfold pair_ok in S. simpl in S. destruct (config_named name) as [x|]; [|discriminate].
  exists x. split; [reflexivity|].
  destruct (expand_markup_str x a) as [o1| | |], (expand_markup_str x d) as [o2| | |]; simpl in S; try discriminate.
  apply a_str_eqb_eq in S. subst. reflexivity.
Qed.

Definition str_pair_eqb (p q : str * (str * str)) : bool :=
  str_eqb (fst p) (fst q) && str_eqb (fst (snd p)) (fst (snd q)) && str_eqb (snd (snd p)) (snd (snd q)).

Lemma complete_ok : forallb (fun e => existsb (str_pair_eqb e) all_alias_pairs) all_table_entries = true.
Proof. vm_compute. reflexivity. Qed.

Theorem sweep_complete :
  forall (name : str) (k d : str),
    In (name, (k, d)) all_table_entries -> In (name, (k, d)) all_alias_pairs.
Proof.
  intros name k d H. pose proof complete_ok as S. rewrite forallb_forall in S. specialize (S _ H).
  apply existsb_exists in S. destruct S as [[n2 [k2 d2]] [Hin E]].
  unfold str_pair_eqb in E. simpl in E.
  apply andb_true_iff in E. destruct E as [E E3]. apply andb_true_iff in E. destruct E as [E1 E2].
  apply a_str_eqb_eq in E1, E2, E3. subst. exact Hin.
Qed.
