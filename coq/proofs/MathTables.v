(* Tie of the constants hard-coded in model/Math.v to the tables regenerated from the
   repository on every run (coq/gen/GenMath.v, written by harness/gen_math.py).
   If the code's operator set, priorities, state bits, white-space set or operator
   tables change, these proofs break and the check reports it. *)
From Coq Require Import ZArith List Bool Lia QArith Qcanon.
From Emmet Require Import lib.Base model.Math gen.GenMath.

Definition mem (c : N) (l : list N) : bool := existsb (N.eqb c) l.

Ltac eqb_cases c :=
  unfold c_plus, c_dash, c_star, c_slash, c_bslash, c_space, c_tab, c_nbsp, c_nl, c_cr;
  repeat match goal with
         | |- context [(c =? ?k)%N] => destruct (c =? k)%N
         end; reflexivity.

Lemma is_operator_table c : is_operator c = mem c math_operator_chars.
Proof. unfold is_operator, mem, math_operator_chars; cbn [existsb]. eqb_cases c. Qed.
Lemma is_sign_table c : is_sign c = mem c math_sign_chars.
Proof. unfold is_sign, is_positive_sign, is_negative_sign, mem, math_sign_chars; cbn [existsb]. eqb_cases c. Qed.
Lemma is_negative_sign_table c : is_negative_sign c = mem c math_negative_sign_chars.
Proof. unfold is_negative_sign, mem, math_negative_sign_chars; cbn [existsb]. eqb_cases c. Qed.
Lemma is_white_space_table c : is_white_space c = mem c math_white_space_chars.
Proof. unfold is_white_space, mem, math_white_space_chars; cbn [existsb]. eqb_cases c. Qed.
Lemma is_space_table c : is_space c = mem c math_space_chars.
Proof. unfold is_space, is_white_space, mem, math_space_chars; cbn [existsb]. eqb_cases c. Qed.

Definition has_key {A} (o : option A) : bool := match o with Some _ => true | None => false end.
Lemma ops2_keys_table NS c : has_key (ops2 NS c) = mem c math_ops2_keys.
Proof. unfold ops2, mem, math_ops2_keys; cbn [existsb]. eqb_cases c. Qed.
Lemma ops1_keys_table NS c : has_key (ops1 NS c) = mem c math_ops1_keys.
Proof. unfold ops1, mem, math_ops1_keys; cbn [existsb]. eqb_cases c. Qed.

Definition prio_row_ok (mk : char -> Z -> rtok) (row : Z * Z * Z) : bool :=
  let '(c, p, r) := row in (prio_of (mk (Z.to_N c) p) =? r)%Z.
Lemma op2_priorities_table : forallb (prio_row_ok mk_op2) math_op2_priorities = true.
Proof. vm_compute. reflexivity. Qed.
Lemma op1_priorities_table : forallb (prio_row_ok mk_op1) math_op1_priorities = true.
Proof. vm_compute. reflexivity. Qed.
(* op1/op2 add a constant to the priority argument, whatever it is *)
Lemma mk_op2_offset c p : prio_of (mk_op2 c p) = (p + prio_of (mk_op2 c 0))%Z.
Proof. unfold mk_op2, prio_of. destruct (c =? c_star)%N; [lia|]. destruct ((c =? c_slash)%N || (c =? c_bslash)%N); lia. Qed.
Lemma mk_op1_offset c p : prio_of (mk_op1 c p) = (p + prio_of (mk_op1 c 0))%Z.
Proof. unfold mk_op1, prio_of. destruct (c =? c_dash)%N; lia. Qed.

Lemma parser_state_bits_table :
  math_parser_state_bits = [PS_Primary; PS_Operator; PS_LParen; PS_RParen; PS_Sign; PS_Nullary].
Proof. reflexivity. Qed.

Lemma nullary_table : math_nullary = (true, 0%Z, prio_of RNull).
Proof. reflexivity. Qed.

Definition mkq (p : Z * Z) : Qc := Q2Qc (fst p # Z.to_pos (snd p)).
Definition qc_eqb (a b : Qc) : bool := Qeq_bool (this a) (this b).
Definition sample2_ok (row : N * (Z * Z) * (Z * Z) * (Z * Z)) : bool :=
  let '(c, a, b, r) := row in
  match ops2 QcNum c with
  | Some f => match f (mkq a) (mkq b) with Some v => qc_eqb v (mkq r) | None => false end
  | None => false
  end.
Definition sample1_ok (row : N * (Z * Z) * (Z * Z)) : bool :=
  let '(c, a, r) := row in
  match ops1 QcNum c with
  | Some f => qc_eqb (f (mkq a)) (mkq r)
  | None => false
  end.
Lemma ops2_samples_table : forallb sample2_ok math_ops2_samples = true.
Proof. vm_compute. reflexivity. Qed.
Lemma ops1_samples_table : forallb sample1_ok math_ops1_samples = true.
Proof. vm_compute. reflexivity. Qed.

Theorem math_tables_tie :
  (forall c, is_operator c = mem c math_operator_chars) /\
  (forall c, is_sign c = mem c math_sign_chars) /\
  (forall c, is_negative_sign c = mem c math_negative_sign_chars) /\
  (forall c, is_white_space c = mem c math_white_space_chars) /\
  (forall c, is_space c = mem c math_space_chars) /\
  (forall NS c, has_key (ops2 NS c) = mem c math_ops2_keys) /\
  (forall NS c, has_key (ops1 NS c) = mem c math_ops1_keys) /\
  forallb (prio_row_ok mk_op2) math_op2_priorities = true /\
  forallb (prio_row_ok mk_op1) math_op1_priorities = true /\
  math_parser_state_bits = [PS_Primary; PS_Operator; PS_LParen; PS_RParen; PS_Sign; PS_Nullary] /\
  math_nullary = (true, 0%Z, prio_of RNull) /\
  forallb sample2_ok math_ops2_samples = true /\
  forallb sample1_ok math_ops1_samples = true.
Proof.
  exact (conj is_operator_table (conj is_sign_table (conj is_negative_sign_table (conj is_white_space_table
        (conj is_space_table (conj ops2_keys_table (conj ops1_keys_table (conj op2_priorities_table
        (conj op1_priorities_table (conj parser_state_bits_table (conj nullary_table
        (conj ops2_samples_table ops1_samples_table)))))))))))).
Qed.
