(* C15: the statement at the level of lines.  With newline "\n" and no base indent, splitting the output at
   every "\n" gives exactly the list of lines of the preorder walk (IndentProofs.node_lines), provided no piece
   of text that goes into a line contains "\n" itself. *)
From Coq Require Import List NArith ZArith Bool Lia.
From Emmet Require Import lib.Base model.MarkupTokenizer model.MarkupParser model.MarkupConvert
     model.OutStream model.FormatHtml model.FormatIndent proofs.IndentStream proofs.IndentProofs.
Import ListNotations.

(* str.split('\n') *)
Fixpoint lines_at (s : str) (cur : str) : list str :=
  match s with
  | [] => [rev cur]
  | ch :: r => if (ch =? c_nl)%N then rev cur :: lines_at r [] else lines_at r (ch :: cur)
  end.
Definition lines (s : str) : list str := lines_at s [].

Definition nonl (s : str) : bool := forallb (fun ch => negb (ch =? c_nl)%N) s.

Lemma nonl_app a b : nonl (a ++ b) = nonl a && nonl b.
Proof. unfold nonl. apply forallb_app. Qed.
Lemma nonl_concat l : Forall (fun s => nonl s = true) l -> nonl (concat l) = true.
Proof. induction 1 as [|x l Hx Hl IH]; [reflexivity|]. cbn [concat]. rewrite nonl_app, Hx, IH. reflexivity. Qed.
Lemma nocrlf_nonl s : nocrlf s = true -> nonl s = true.
Proof.
  unfold nocrlf, nonl. rewrite !forallb_forall. intros H x Hx. specialize (H x Hx).
  destruct (N.eqb_spec x c_nl) as [->|]; [|reflexivity].
  assert (E : is_crlf c_nl = true) by (vm_compute; reflexivity). rewrite E in H. discriminate.
Qed.
Lemma nonl_repeat s n : nonl s = true -> nonl (repeat_str s n) = true.
Proof. intros H. induction n as [|n IH]; [reflexivity|]. cbn [repeat_str]. rewrite nonl_app, H, IH. reflexivity. Qed.

Lemma lines_at_app : forall x rest cur, nonl x = true -> lines_at (x ++ rest) cur = lines_at rest (rev x ++ cur).
Proof.
  induction x as [|ch x IH]; intros rest cur H; [reflexivity|].
  cbn [nonl forallb] in H. fold (nonl x) in H. apply andb_true_iff in H. destruct H as [Hc Hx].
  apply negb_true_iff in Hc. cbn [app lines_at]. rewrite Hc, (IH _ _ Hx). cbn [rev]. rewrite <- app_assoc. reflexivity.
Qed.

Lemma lines_at_join : forall l x cur, nonl x = true -> Forall (fun s => nonl s = true) l ->
  lines_at (x ++ concat (map (app [c_nl]) l)) cur = (rev cur ++ x) :: l.
Proof.
  induction l as [|y l IH]; intros x cur Hx Hl.
  - cbn [map concat]. rewrite lines_at_app by exact Hx. cbn [lines_at]. rewrite rev_app_distr, rev_involutive. reflexivity.
  - inversion Hl; subst. cbn [map concat]. rewrite lines_at_app by exact Hx.
    rewrite <- app_assoc.
    change ([c_nl] ++ y ++ concat (map (app [c_nl]) l)) with (c_nl :: (y ++ concat (map (app [c_nl]) l))).
    cbn [lines_at]. rewrite N.eqb_refl. rewrite rev_app_distr, rev_involutive. f_equal.
    rewrite (IH y [] H1 H2). reflexivity.
Qed.

Theorem lines_join l : l <> [] -> Forall (fun s => nonl s = true) l -> lines (join [c_nl] l) = l.
Proof.
  intros Hne Hl. destruct l as [|x l]; [contradiction|]. inversion Hl; subst.
  rewrite join_cons. unfold lines. rewrite lines_at_join by assumption. reflexivity.
Qed.

(* ---------------------------------------------------------------- every line is free of "\n" *)
Definition tok_nonl (t : vtok) : bool := match t with VStr s => nonl s | VField _ nm => nonl nm end.
Definition toks_nonl (v : list vtok) : bool := forallb tok_nonl v.
Definition oval_nonl (v : option (list vtok)) : bool := match v with Some x => toks_nonl x | None => true end.

(* the placeholders of fields (pushed as they are) contain no "\n" *)
Fixpoint fields_nonl (n : anode) : bool :=
  match n with
  | ANode _ v _ at_ ch _ =>
      forallb (fun t => match t with VField _ nm => nonl nm | VStr _ => true end) (match v with Some x => x | None => [] end)
      && forallb (fun a => forallb (fun t => match t with VField _ nm => nonl nm | VStr _ => true end)
                                   (match aa_value a with Some x => x | None => [] end))
                 (match at_ with Some l => l | None => [] end)
      && forallb fields_nonl ch
  end.

Definition field_ok (t : vtok) : bool := match t with VField _ nm => nonl nm | VStr _ => true end.

Lemma val_text_nonl v : toks_nocrlf v = true -> forallb field_ok v = true -> nonl (val_text v) = true.
Proof.
  intros H1 H2. unfold val_text. apply nonl_concat. apply Forall_forall. intros s Hs.
  apply in_map_iff in Hs. destruct Hs as [t [<- Ht]].
  unfold toks_nocrlf in H1. rewrite forallb_forall in H1, H2. specialize (H1 t Ht). specialize (H2 t Ht).
  destruct t as [s|i nm]; [apply nocrlf_nonl, H1|exact H2].
Qed.

Section Lines.
  Variable c : oconfig.
  Variable o : iopts.
  Hypothesis Ho : iopts_wf o = true.
  Hypothesis Hmarks : nonl (io_before_text o) = true /\ nonl (io_after_text o) = true.
  Hypothesis Hind : nonl (of_indent (oc_fmt c)) = true.

  Lemma ind_nonl d : nonl (ind (oc_fmt c) d) = true.
  Proof. apply nonl_repeat, Hind. Qed.

  Lemma fields_nonl_eq n :
    fields_nonl n = forallb field_ok (match an_value n with Some x => x | None => [] end)
                    && forallb (fun a => forallb field_ok (match aa_value a with Some x => x | None => [] end)) (attrs_of n)
                    && forallb fields_nonl (an_children n).
  Proof. destruct n; reflexivity. Qed.

  Lemma primary_text_nonl a : attr_wf a = true -> is_primary a = true ->
    forallb field_ok (match aa_value a with Some x => x | None => [] end) = true -> nonl (primary_text a) = true.
  Proof.
    intros Hw Hp Hf. unfold primary_text. destruct (aa_value a) as [v|] eqn:Ev; [|reflexivity].
    unfold attr_wf in Hw. rewrite Ev in Hw.
    destruct (name_is a s_class).
    - cbn [nonl forallb]. fold (nonl (val_text (map class_tok v))). rewrite val_text_nonl; [reflexivity|apply toks_nocrlf_class|].
      clear - Hf. induction v as [|t v IH]; [reflexivity|]. cbn [forallb] in Hf. apply andb_true_iff in Hf.
      destruct Hf as [H1 H2]. cbn [map forallb]. rewrite (IH H2), andb_true_r. destruct t; [reflexivity|exact H1].
    - apply andb_true_iff in Hw. destruct Hw as [_ Hw].
      cbn [nonl forallb]. fold (nonl (val_text v)). rewrite val_text_nonl; [reflexivity|exact Hw|exact Hf].
  Qed.

  Lemma attr_text_nonl a : attr_wf a = true -> is_primary a = false ->
    forallb field_ok (match aa_value a with Some x => x | None => [] end) = true -> nonl (attr_text c o a) = true.
  Proof.
    intros Hw Hp Hf. destruct (Ho_parts o Ho) as [_ [_ [_ [_ [_ [Hb _]]]]]].
    unfold attr_wf in Hw. unfold is_primary in Hp. apply orb_false_iff in Hp. destruct Hp as [Hp1 Hp2].
    unfold is_primary in Hw. rewrite Hp1, Hp2 in Hw. cbn [orb] in Hw. apply andb_true_iff in Hw. destruct Hw as [Hn Hv].
    unfold attr_text. rewrite nonl_app. apply andb_true_iff. split.
    - apply nocrlf_nonl. unfold attr_name. rewrite nocrlf_str_case. exact Hn.
    - destruct (is_boolean_attribute c a && negb (truthy_l (aa_value a))).
      + destruct (negb (oc_compact_boolean c) && negb (is_nil (io_boolean_value o))); [|reflexivity].
        cbn [nonl forallb]. fold (nonl (io_boolean_value o)). rewrite (nocrlf_nonl _ Hb). reflexivity.
      + cbn [nonl forallb]. fold (nonl (attr_quote c a true ++ val_text (value_or_caret (aa_value a)) ++ attr_quote c a false)).
        rewrite !nonl_app, !(nocrlf_nonl _ (nocrlf_attr_quote c a _)). cbn [andb]. rewrite andb_true_r.
        unfold value_or_caret. destruct (aa_value a) as [[|t v]|]; try reflexivity.
        apply val_text_nonl; assumption.
  Qed.

  Lemma join_nonl sep l : nonl sep = true -> Forall (fun s => nonl s = true) l -> nonl (join sep l) = true.
  Proof.
    intros Hs Hl. destruct l as [|x l]; [reflexivity|]. inversion Hl; subst. rewrite join_cons, nonl_app, H1.
    apply nonl_concat. apply Forall_forall. intros s Hin. apply in_map_iff in Hin. destruct Hin as [y [<- Hy]].
    rewrite nonl_app, Hs. rewrite Forall_forall in H2. apply H2, Hy.
  Qed.

  Lemma head_nonl n : nocrlf (match an_name n with Some x => x | None => [] end) = true ->
    forallb attr_wf (attrs_of n) = true ->
    forallb (fun a => forallb field_ok (match aa_value a with Some x => x | None => [] end)) (attrs_of n) = true ->
    nonl (head c o n) = true.
  Proof.
    intros Hn Hw Hf. destruct (Ho_parts o Ho) as [Hbn [Han [Hba [Haa [Hg _]]]]].
    rewrite forallb_forall in Hw, Hf.
    unfold head. rewrite !nonl_app. apply andb_true_iff. split; [|apply andb_true_iff; split].
    - destruct (an_name n) as [[|c0 nm]|]; try reflexivity.
      destruct (str_eqb (c0 :: nm) s_div && has_class_or_id n); [reflexivity|].
      rewrite !nonl_app, (nocrlf_nonl _ Hbn), (nocrlf_nonl _ Han), (nocrlf_nonl _ Hn). reflexivity.
    - apply nonl_concat. apply Forall_forall. intros s Hs. apply in_map_iff in Hs. destruct Hs as [a [<- Ha]].
      unfold primary_of in Ha. apply filter_In in Ha. destruct Ha as [Ha Hp].
      apply primary_text_nonl; [apply Hw, Ha|exact Hp|apply Hf, Ha].
    - unfold attr_list. destruct (secondary_of n) as [|a0 l] eqn:E; [reflexivity|]. rewrite <- E.
      rewrite !nonl_app, (nocrlf_nonl _ Hba), (nocrlf_nonl _ Haa). cbn [andb]. rewrite andb_true_r.
      apply join_nonl; [apply nocrlf_nonl, Hg|]. apply Forall_forall. intros s Hs. apply in_map_iff in Hs.
      destruct Hs as [a [<- Ha]]. unfold secondary_of in Ha. apply filter_In in Ha. destruct Ha as [Ha _].
      apply filter_In in Ha. destruct Ha as [Ha Hp]. apply negb_true_iff in Hp.
      apply attr_text_nonl; [apply Hw, Ha|exact Hp|apply Hf, Ha].
  Qed.

  (* fields survive split_by_lines unchanged *)
  Lemma sbl_inner_fields : forall ls res ln,
    Forall (fun l => forallb field_ok l = true) res -> forallb field_ok ln = true ->
    let '(res', ln') := fold_left (fun '(res, ln) l => (res ++ [ln], [VStr l])) ls (res, ln) in
    Forall (fun l => forallb field_ok l = true) res' /\ forallb field_ok ln' = true.
  Proof.
    induction ls as [|l ls IH]; intros res ln Hr Hl; cbn [fold_left].
    - split; assumption.
    - apply IH; [|reflexivity]. apply Forall_app. split; [assumption|constructor; [assumption|constructor]].
  Qed.

  Lemma sbl_fold_fields : forall v res ln, forallb field_ok v = true ->
    Forall (fun l => forallb field_ok l = true) res -> forallb field_ok ln = true ->
    let '(res', ln') := fold_left sbl_step v (res, ln) in
    Forall (fun l => forallb field_ok l = true) res' /\ forallb field_ok ln' = true.
  Proof.
    induction v as [|t v IH]; intros res ln Hv Hr Hl; cbn [fold_left].
    - split; assumption.
    - cbn [forallb] in Hv. apply andb_true_iff in Hv. destruct Hv as [Ht Hv].
      destruct t as [s|i nm]; cbn [sbl_step].
      + destruct (split_crlf s) as [|l0 ls].
        * apply IH; [assumption|assumption|]. rewrite forallb_app, Hl. reflexivity.
        * pose proof (sbl_inner_fields ls res (ln ++ [VStr l0]) Hr) as G.
          destruct (fold_left _ ls (res, ln ++ [VStr l0])) as [res' ln'].
          destruct G as [G1 G2]; [rewrite forallb_app, Hl; reflexivity|]. apply IH; assumption.
      + apply IH; [assumption|assumption|]. rewrite forallb_app, Hl. cbn [forallb]. rewrite Ht. reflexivity.
  Qed.

  Lemma split_by_lines_fields v : forallb field_ok v = true ->
    Forall (fun l => forallb field_ok l = true) (split_by_lines v).
  Proof.
    intros Hv. rewrite split_by_lines_eq.
    pose proof (sbl_fold_fields v [] [] Hv (Forall_nil _) eq_refl) as G.
    destruct (fold_left sbl_step v ([], [])) as [res ln]. destruct G as [G1 G2].
    destruct ln; [assumption|]. apply Forall_app. split; [assumption|constructor; [assumption|constructor]].
  Qed.

  Lemma value_fields_ok n : forallb field_ok (match an_value n with Some x => x | None => [] end) = true ->
    forallb field_ok (value_or_caret (an_value n)) = true.
  Proof. unfold value_or_caret. destruct (an_value n) as [[|t v]|]; intros H; try reflexivity. exact H. Qed.

  Lemma inline_value_nonl n :
    forallb field_ok (match an_value n with Some x => x | None => [] end) = true ->
    nonl (inline_value o n) = true.
  Proof.
    intros Hf. destruct (Ho_parts o Ho) as [_ [_ [_ [_ [_ [_ Hsc]]]]]].
    unfold inline_value. destruct (is_self_closed n); [apply nocrlf_nonl, Hsc|].
    destruct (no_value_part n); [reflexivity|].
    pose proof (split_by_lines_pieces (value_or_caret (an_value n))) as Hp.
    pose proof (split_by_lines_fields _ (value_fields_ok n Hf)) as Hq.
    destruct (split_by_lines (value_or_caret (an_value n))) as [|l1 [|l2 ls]]; try reflexivity.
    inversion Hp; subst. inversion Hq; subst.
    rewrite nonl_app. apply andb_true_iff. split.
    - destruct (truthy_s (an_name n) || truthy_l (an_attrs n)); reflexivity.
    - apply val_text_nonl; assumption.
  Qed.

  Lemma text_lines_nonl d n :
    forallb field_ok (match an_value n with Some x => x | None => [] end) = true ->
    Forall (fun s => nonl s = true) (text_lines c o d n).
  Proof.
    intros Hf. destruct Hmarks as [Hb Ha]. unfold text_lines.
    destruct (is_self_closed n || no_value_part n); [constructor|].
    pose proof (split_by_lines_pieces (value_or_caret (an_value n))) as Hp.
    pose proof (split_by_lines_fields _ (value_fields_ok n Hf)) as Hq.
    destruct (split_by_lines (value_or_caret (an_value n))) as [|l1 [|l2 ls]]; [constructor|constructor|].
    set (w := fold_left Nat.max _ 0). clearbody w. set (L := l1 :: l2 :: ls) in *. clearbody L.
    - apply Forall_forall. intros s Hs. apply in_map_iff in Hs. destruct Hs as [line [<- Hl]].
      rewrite Forall_forall in Hp, Hq. unfold text_line.
      rewrite !nonl_app, ind_nonl, Hb, (val_text_nonl line (Hp line Hl) (Hq line Hl)). cbn [andb].
      destruct (io_after_text o) as [|a0 ar]; [reflexivity|]. rewrite nonl_app, Ha.
      rewrite nonl_repeat by reflexivity. reflexivity.
  Qed.

  Lemma node_lines_nonl : forall n d, node_wf n = true -> fields_nonl n = true ->
    Forall (fun s => nonl s = true) (node_lines c o d n).
  Proof.
    induction n as [nm v rp at_ ch sc IHch] using anode_ind'. intros d Hwf Hfl.
    set (n := ANode nm v rp at_ ch sc) in *.
    rewrite node_wf_eq in Hwf.
    apply andb_true_iff in Hwf. destruct Hwf as [Hwf Hkids].
    apply andb_true_iff in Hwf. destruct Hwf as [Hwf Hattrs].
    apply andb_true_iff in Hwf. destruct Hwf as [_ Hname].
    rewrite fields_nonl_eq in Hfl.
    apply andb_true_iff in Hfl. destruct Hfl as [Hfl Hfk].
    apply andb_true_iff in Hfl. destruct Hfl as [Hfv Hfa].
    rewrite node_lines_eq. constructor.
    - rewrite !nonl_app, ind_nonl, (head_nonl n Hname Hattrs Hfa), (inline_value_nonl n Hfv). reflexivity.
    - apply Forall_app. split; [apply text_lines_nonl, Hfv|].
      change (an_children n) with ch in *. clear - IHch Hkids Hfk.
      induction ch as [|x l IHl]; [constructor|]. inversion IHch; subst.
      cbn [forallb] in Hkids, Hfk. apply andb_true_iff in Hkids. apply andb_true_iff in Hfk.
      destruct Hkids as [K1 K2]. destruct Hfk as [F1 F2]. cbn [flat_map]. apply Forall_app. split.
      + apply H1; assumption.
      + apply IHl; assumption.
  Qed.

  (* the statement at the level of lines *)
  Theorem indent_lines_split forest :
    of_newline (oc_fmt c) = [c_nl] -> of_base_indent (oc_fmt c) = [] -> forest <> [] ->
    forallb node_wf forest = true -> forallb fields_nonl forest = true ->
    lines (os_value (fs_out (indent_format c o forest))) = flat_map (node_lines c o 0) forest.
  Proof.
    intros Hnl Hbase Hne Hwf Hf. rewrite (indent_lines_all c o Ho forest Hwf).
    unfold nlb. rewrite Hnl, Hbase. cbn [app]. apply lines_join.
    - destruct forest as [|x l]; [contradiction|]. cbn [flat_map]. rewrite node_lines_eq. discriminate.
    - clear Hne. induction forest as [|x l IH]; [constructor|].
      cbn [forallb] in Hwf, Hf. apply andb_true_iff in Hwf. apply andb_true_iff in Hf.
      destruct Hwf as [W1 W2]. destruct Hf as [F1 F2]. cbn [flat_map]. apply Forall_app. split.
      + apply node_lines_nonl; assumption.
      + apply IH; assumption.
  Qed.
End Lines.
