(* C07, parser stage: for ALL token lists (not only tokenizer outputs) `parse` returns POk or PErr;
   a PErr that carries a position carries the start offset of one of the given tokens.
   (The type `pres` has no constructor for an internal error: every token-list access of the Python
   parser is modelled by pattern matching on the remaining list, so "no IndexError" is by construction;
   what is proved here is where the reported position comes from.) *)
From Coq Require Import List Bool Lia Arith.
From Emmet Require Import lib.Base model.MarkupTokenizer model.MarkupParser.
Import ListNotations.

(* the position of an error is the start of one of the tokens *)
Definition pos_in (toks : list token) (p : option nat) : Prop :=
  match p with
  | None => True
  | Some n => exists t, In t toks /\ tstart t = n
  end.

Definition err_in {A} (toks : list token) (r : pres A) : Prop :=
  match r with POk _ => True | PErr p => pos_in toks p end.

Lemma pos_in_incl : forall a b p, incl a b -> pos_in a p -> pos_in b p.
Proof.
  intros a b [n|] H; simpl; auto. intros [t [Hi He]]. exists t. split; auto.
Qed.

Lemma err_in_incl : forall A a b (r : pres A), incl a b -> err_in a r -> err_in b r.
Proof. intros A a b [x|p] H; simpl; auto. apply pos_in_incl; auto. Qed.

Lemma incl_skipn : forall A n (l : list A), incl (skipn n l) l.
Proof.
  intros A n. induction n; intros l; simpl. apply incl_refl.
  destruct l. apply incl_refl. apply incl_tl. apply IHn.
Qed.
Lemma incl_tl_self : forall A (l : list A), incl (tl l) l.
Proof. intros A [|x l]; simpl. apply incl_refl. apply incl_tl, incl_refl. Qed.

(* ---- quoted *)
Lemma quoted_err : forall toks p, quoted toks = QErr p -> pos_in toks (Some p).
Proof.
  intros [|q r] p; simpl. discriminate.
  destruct (tk q); try discriminate.
  destruct (find_quote single r); try discriminate.
  intros H. inversion H. exists q. split; [left|]; auto.
Qed.

(* ---- attribute *)
Lemma attribute_err : forall toks p, attribute toks = AErr p -> pos_in toks p.
Proof.
  intros toks p. unfold attribute.
  destruct (quoted toks) eqn:Q.
  - destruct (literal true toks) eqn:L; try discriminate.
    destruct (hd_is _ _); try discriminate.
    destruct (quoted (tl (skipn (S n) toks))) eqn:Q2.
    + destruct (literal true (tl (skipn (S n) toks))); discriminate.
    + discriminate.
    + intros H. inversion H. subst.
      apply quoted_err in Q2.
      eapply pos_in_incl; [|exact Q2].
      eapply incl_tran. apply incl_tl_self. apply incl_skipn.
  - discriminate.
  - intros H. inversion H. subst. apply quoted_err. exact Q.
Qed.

(* ---- attribute_set *)
Lemma attr_set_loop_cons : forall skip acc t r,
  attr_set_loop skip acc (t :: r) =
  match skip with
  | S k => match attr_set_loop k acc r with
           | POk (l, c) => POk (l, S c)
           | PErr p => PErr p
           end
  | O =>
      match attribute (t :: r) with
      | AErr p => PErr p
      | AOk a n =>
          match attr_set_loop (pred n) (acc ++ [a]) r with
          | POk (l, c) => POk (l, S c)
          | PErr p => PErr p
          end
      | ANone =>
          if is_bracket t (Some BAttr) (Some false) then POk (acc, 1%nat)
          else if is_white_space_tok t then
            match attr_set_loop O acc r with
            | POk (l, c) => POk (l, S c)
            | PErr p => PErr p
            end
          else PErr (Some (tstart t))
      end
  end.
Proof. reflexivity. Qed.

Lemma attr_set_loop_err : forall toks skip acc, err_in toks (attr_set_loop skip acc toks).
Proof.
  induction toks as [|t r IH]; intros skip acc. exact I.
  rewrite attr_set_loop_cons.
  destruct skip as [|k].
  - destruct (attribute (t :: r)) eqn:A.
    + destruct (is_bracket t (Some BAttr) (Some false)). exact I.
      destruct (is_white_space_tok t).
      * specialize (IH O acc). destruct (attr_set_loop O acc r) as [[l c]|p]; simpl in *. exact I.
        eapply pos_in_incl; [|exact IH]. apply incl_tl, incl_refl.
      * simpl. exists t. split; [left|]; auto.
    + specialize (IH (pred n) (acc ++ [a])).
      destruct (attr_set_loop (pred n) (acc ++ [a]) r) as [[l c]|p]; simpl in *. exact I.
      eapply pos_in_incl; [|exact IH]. apply incl_tl, incl_refl.
    + simpl. apply attribute_err in A. exact A.
  - specialize (IH k acc). destruct (attr_set_loop k acc r) as [[l c]|p]; simpl in *. exact I.
    eapply pos_in_incl; [|exact IH]. apply incl_tl, incl_refl.
Qed.

Lemma attribute_set_err : forall toks p, attribute_set toks = ASErr p -> pos_in toks p.
Proof.
  intros [|t r] p; simpl. discriminate.
  destruct (is_bracket t (Some BAttr) (Some true)); try discriminate.
  pose proof (attr_set_loop_err r O []) as H.
  destruct (attr_set_loop O [] r) as [[l c]|q]; try discriminate.
  intros E. inversion E. subst. simpl in H.
  eapply pos_in_incl; [|exact H]. apply incl_tl, incl_refl.
Qed.

(* ---- element *)
Lemma elem_body_err : forall jsx s toks p, elem_body jsx s toks = EErr p -> pos_in toks p.
Proof.
  intros jsx s toks p. unfold elem_body.
  destruct toks as [|t r]. discriminate.
  assert (G : (let tx := match e_value s with None => text (t :: r) | Some _ => O end in
          match tx with
          | S _ => ECont (mkEst (e_name s) (e_attrs s) (Some (get_text (firstn tx (t :: r)))) (e_repeat s) (e_self s)) tx
          | O =>
              match short_attribute jsx OpId (t :: r) with
              | Some (a, n) => ECont (est_add_attrs s [a]) n
              | None =>
                  match short_attribute jsx OpClass (t :: r) with
                  | Some (a, n) => ECont (est_add_attrs s [a]) n
                  | None =>
                      match attribute_set (t :: r) with
                      | ASErr p => EErr p
                      | ASOk l n => ECont (est_add_attrs s l) n
                      | ASNone =>
                          if negb (est_empty s) && is_operator t (Some OpClose) then
                            let s' := mkEst (e_name s) (e_attrs s) (e_value s) (e_repeat s) true in
                            match e_repeat s', r with
                            | None, t2 :: _ =>
                                match rep_of t2 with
                                | Some rp => EBreak (mkEst (e_name s) (e_attrs s) (e_value s) (Some rp) true) 2
                                | None => EBreak s' 1
                                end
                            | _, _ => EBreak s' 1
                            end
                          else EBreak s O
                      end
                  end
              end
          end) = EErr p -> pos_in (t :: r) p).
  { cbv zeta.
    destruct (match e_value s with None => text (t :: r) | Some _ => O end); try discriminate.
    destruct (short_attribute jsx OpId (t :: r)) as [[a n]|]; try discriminate.
    destruct (short_attribute jsx OpClass (t :: r)) as [[a n]|]; try discriminate.
    destruct (attribute_set (t :: r)) eqn:AS.
    - destruct (negb (est_empty s) && is_operator t (Some OpClose)); simpl; try discriminate.
      destruct (e_repeat s); try discriminate.
      destruct r as [|t2 r2]; try discriminate. destruct (rep_of t2); discriminate.
    - discriminate.
    - intros E. inversion E. subst. apply attribute_set_err in AS. exact AS. }
  destruct (e_repeat s); [exact G|].
  destruct (negb (est_empty s)); [|exact G].
  destruct (rep_of t); [discriminate|exact G].
Qed.

Lemma elem_loop_cons : forall jsx skip s t r,
  elem_loop jsx skip s (t :: r) =
  match skip with
  | S k => match elem_loop jsx k s r with
           | POk (s', c) => POk (s', S c)
           | PErr p => PErr p
           end
  | O =>
      match elem_body jsx s (t :: r) with
      | EErr p => PErr p
      | EBreak s' n => POk (s', n)
      | ECont s' n =>
          match elem_loop jsx (pred n) s' r with
          | POk (s'', c) => POk (s'', S c)
          | PErr p => PErr p
          end
      end
  end.
Proof. reflexivity. Qed.

Lemma elem_loop_err : forall jsx toks skip s, err_in toks (elem_loop jsx skip s toks).
Proof.
  intros jsx. induction toks as [|t r IH]; intros skip s. exact I.
  rewrite elem_loop_cons.
  destruct skip as [|k].
  - destruct (elem_body jsx s (t :: r)) eqn:B.
    + exact I.
    + specialize (IH (pred n) s0). destruct (elem_loop jsx (pred n) s0 r) as [[s2 c]|p]; simpl in *. exact I.
      eapply pos_in_incl; [|exact IH]. apply incl_tl, incl_refl.
    + simpl. apply elem_body_err in B. exact B.
  - specialize (IH k s). destruct (elem_loop jsx k s r) as [[s2 c]|p]; simpl in *. exact I.
    eapply pos_in_incl; [|exact IH]. apply incl_tl, incl_refl.
Qed.

Lemma element_err : forall jsx toks, err_in toks (element jsx toks).
Proof.
  intros jsx toks. unfold element.
  match goal with |- context [elem_loop jsx ?k ?s0 toks] =>
    pose proof (elem_loop_err jsx toks k s0) as H; destruct (elem_loop jsx k s0 toks) as [[s c]|p] end.
  - destruct (est_empty s); exact I.
  - exact H.
Qed.

(* ---- statements (with nested groups) *)
(* the `node = element(...) or group(...)` part of one round of statements() *)
Definition parsed_of (jsx : bool) (t : token) (r : list token) : pres (option (tnode * nat)) :=
  match element jsx (t :: r) with
  | PErr p => PErr p
  | POk (Some x) => POk (Some x)
  | POk None =>
      if is_bracket t (Some BGroup) (Some true) then
        match stmts jsx O (TGroup [] None) [] r with
        | PErr p => PErr p
        | POk (els, m) =>
            match skipn m r with
            | [] => POk (Some (TGroup els None, 1 + m))
            | c :: rest =>
                if is_bracket c (Some BGroup) (Some false) then
                  match rest with
                  | t2 :: _ =>
                      match rep_of t2 with
                      | Some rp => POk (Some (TGroup els (Some rp), 1 + m + 2))
                      | None => POk (Some (TGroup els None, 1 + m + 1))
                      end
                  | [] => POk (Some (TGroup els None, 1 + m + 1))
                  end
                else POk (Some (TGroup els None, 1 + m + 1))
            end
        end
      else POk None
  end.

Lemma stmts_cons : forall jsx skip cur stack t r,
  stmts jsx skip cur stack (t :: r) =
  match skip with
  | S k => match stmts jsx k cur stack r with
           | POk (els, c) => POk (els, S c)
           | PErr p => PErr p
           end
  | O =>
      match parsed_of jsx t r with
      | PErr p => PErr p
      | POk None => POk (elements_of (close_all cur stack), O)
      | POk (Some (node, n)) =>
          let after := skipn (pred n) r in
          let '(cur', stack', n') :=
            if hd_is is_child_op after then (node, cur :: stack, S n)
            else if hd_is is_sibling_op after then (add_child cur node, stack, S n)
            else
              let k := span_tok is_climb_op after in
              let '(c', s') := climb k (add_child cur node) stack in (c', s', n + k) in
          match stmts jsx (pred n') cur' stack' r with
          | POk (els, c) => POk (els, S c)
          | PErr p => PErr p
          end
      end
  end.
Proof. reflexivity. Qed.

Lemma stmts_err : forall jsx toks skip cur stack, err_in toks (stmts jsx skip cur stack toks).
Proof.
  intros jsx. induction toks as [|t r IH]; intros skip cur stack. exact I.
  rewrite stmts_cons.
  destruct skip as [|k].
  - assert (HP : err_in (t :: r) (parsed_of jsx t r)).
    { unfold parsed_of. pose proof (element_err jsx (t :: r)) as HE.
      destruct (element jsx (t :: r)) as [[[node n]|]|p]; [exact I| |exact HE].
      destruct (is_bracket t (Some BGroup) (Some true)); [|exact I].
      pose proof (IH O (TGroup [] None) []) as HG.
      destruct (stmts jsx O (TGroup [] None) [] r) as [[els m]|q].
      - destruct (skipn m r) as [|c rest]. exact I.
        destruct (is_bracket c (Some BGroup) (Some false)); [|exact I].
        destruct rest as [|t2 rest']. exact I. destruct (rep_of t2); exact I.
      - simpl in *. eapply pos_in_incl; [|exact HG]. apply incl_tl, incl_refl. }
    destruct (parsed_of jsx t r) as [[[node n]|]|p]; [|exact I|exact HP].
    cbv zeta.
    match goal with |- context [if hd_is is_child_op ?a then ?x else ?y] =>
      destruct (if hd_is is_child_op a then x else y) as [[c1 s1] n1] end.
    pose proof (IH (pred n1) c1 s1) as H. destruct (stmts jsx (pred n1) c1 s1 r) as [[els c0]|q].
    exact I. simpl in *. eapply pos_in_incl; [|exact H]. apply incl_tl, incl_refl.
  - pose proof (IH k cur stack) as H. destruct (stmts jsx k cur stack r) as [[els c]|p]; simpl in *. exact I.
    eapply pos_in_incl; [|exact H]. apply incl_tl, incl_refl.
Qed.

Theorem parse_err_in : forall jsx toks, err_in toks (parse jsx toks).
Proof.
  intros jsx toks. unfold parse.
  pose proof (stmts_err jsx toks O (TGroup [] None) []) as H.
  destruct (stmts jsx O (TGroup [] None) [] toks) as [[els c]|p].
  - destruct (skipn c toks) as [|t rest] eqn:E. exact I.
    simpl. exists t. split; auto. apply (incl_skipn _ c toks). rewrite E. left. reflexivity.
  - exact H.
Qed.

(* the form used by the property file *)
Theorem parser_safe : forall jsx toks,
  match parse jsx toks with
  | POk _ => True
  | PErr None => True
  | PErr (Some p) => exists t, In t toks /\ tstart t = p
  end.
Proof.
  intros jsx toks. pose proof (parse_err_in jsx toks) as H.
  destruct (parse jsx toks) as [x|[p|]]; simpl in *; auto.
Qed.
