(* C07, transform pass and formatters.
   Transform pass: implicit tag, attribute merge, lorem header, xsl and label cannot fail BY CONSTRUCTION
   (`transform_node_pre` returns a plain value); the BEM addon (model/MarkupBem.v) has two explicit raise
   sites (update_class on a node without attributes: TypeError; cl[0]: IndexError), so `transform_forest`
   returns `res` -- and is PROVED to return Ok for every configuration (bem.enabled included, every
   separator, every context) and every tree: proofs/BemProofs.v, cited below.
   The lorem text generator (model/MarkupLorem.v; the drawing pass lorem_fill in front of transform_forest) has
   explicit raise sites (index out of range, randint on an empty range, ''[-1]) and consumes the oracle stream of
   the configuration: PROVED to return a forest or to run out of draws, never Internal, for every tree and every
   stream (proofs/LoremProofs.v, proofs/LoremFill.v).
   Formatters: `stringify_markup` (html / haml / pug / slim, comments, JSX attribute renaming, context)
   returns `fstate`, no `res`, no fuel: every list access is a pattern match with an explicit empty case that
   mirrors a guard of the Python code (the correspondence run compares the whole pipeline, formatter
   included, with the implementation). *)
From Emmet Require Import lib.Base model.MarkupConvert model.MarkupResolve model.OutStream model.FormatHtml
     model.FormatIndent model.MarkupExpand model.MarkupLorem proofs.BemProofs proofs.LoremProofs proofs.LoremFill.

Lemma transform_forest_total : forall cfg l, exists r, transform_forest cfg l = Ok r.
Proof. exact transform_forest_ok. Qed.

(* walk(abbr, transform, config) with the lorem draws: a forest, or OutOfFuel exactly when the oracle stream of the
   configuration ran out inside the lorem pass *)
Lemma transform_total : forall cfg l,
  match transform_list cfg l with
  | Ok _ => True
  | OutOfFuel => lorem_fill_list l (mc_draws cfg) = LExhausted
  | ParseErr _ _ => False
  | Internal _ => False
  end.
Proof.
  intros cfg l. unfold transform_list. pose proof (lorem_fill_safe (mc_draws cfg) l) as H.
  destruct (lorem_fill (mc_draws cfg) l) as [filled| | |]; cbn [bind]; try exact H.
  destruct (transform_forest_ok cfg filled) as [t ->]. exact I.
Qed.

(* without a lorem header in the forest the oracle is not consulted: total as before *)
Lemma transform_total_free : forall cfg l, forallb lorem_free l = true -> exists r, transform_list cfg l = Ok r.
Proof. intros cfg l H. rewrite (transform_list_free cfg l H). apply transform_forest_ok. Qed.

Lemma format_total : forall syntax o tree, exists st, stringify_markup syntax o tree = st.
Proof. intros. eexists. reflexivity. Qed.
