(* C07, transform pass and formatters.  Nothing can fail there BY CONSTRUCTION: `transform_list`
   (implicit tag, attribute merge, lorem header, xsl, label) returns `list anode`, and
   `stringify_markup` (html / haml / pug / slim, comments, JSX attribute renaming, context) returns
   `fstate`; neither returns `res`, neither takes fuel: every list access in them is a pattern match
   with an explicit empty case that mirrors a guard of the Python code (the correspondence run compares
   the outcome class of the whole pipeline, formatter included, with the implementation).
   The two lemmas below only record that fact in a form the composition can cite. *)
From Emmet Require Import lib.Base model.MarkupConvert model.MarkupResolve model.OutStream model.FormatHtml
     model.FormatIndent model.MarkupExpand.

Lemma transform_total : forall cfg l, exists r, transform_list cfg l = r.
Proof. intros. eexists. reflexivity. Qed.

Lemma format_total : forall syntax o tree, exists st, stringify_markup syntax o tree = st.
Proof. intros. eexists. reflexivity. Qed.
