(* C07, transform pass and formatters.
   Transform pass: implicit tag, attribute merge, lorem header, xsl and label cannot fail BY CONSTRUCTION
   (`transform_node_pre` returns a plain value); the BEM addon (model/MarkupBem.v) has two explicit raise
   sites (update_class on a node without attributes: TypeError; cl[0]: IndexError), so `transform_list`
   returns `res` -- and is PROVED to return Ok for every configuration (bem.enabled included, every
   separator, every context) and every tree: proofs/BemProofs.v, cited below.
   Formatters: `stringify_markup` (html / haml / pug / slim, comments, JSX attribute renaming, context)
   returns `fstate`, no `res`, no fuel: every list access is a pattern match with an explicit empty case that
   mirrors a guard of the Python code (the correspondence run compares the whole pipeline, formatter
   included, with the implementation). *)
From Emmet Require Import lib.Base model.MarkupConvert model.MarkupResolve model.OutStream model.FormatHtml
     model.FormatIndent model.MarkupExpand proofs.BemProofs.

Lemma transform_total : forall cfg l, exists r, transform_list cfg l = Ok r.
Proof. exact transform_list_ok. Qed.

Lemma format_total : forall syntax o tree, exists st, stringify_markup syntax o tree = st.
Proof. intros. eexists. reflexivity. Qed.
