(* C20 -- the canonical form of a dict: its entries sorted by key.
   Python code that only LOOKS UP keys of a dict (config.snippets.get(name), variables.get(name)) or
   sorts the entries itself (stylesheet nest(): snippets.sort(key=...)) cannot see the insertion order.
   The expand model (proofs/ConfigExpand.v) therefore hands the pipeline models the entries in key
   order.  This file proves that the canonical form is a function of the lookups alone:
     [canon_unique]  two dicts (unique keys) that answer every lookup alike have the same canonical form
     [dget_canon]    and the canonical form answers every lookup as the dict does. *)
From Coq Require Import List Bool NArith Lia.
From Emmet Require Import lib.Base lib.StyleLib lib.ConfigLib proofs.ConfigProofs.
Import ListNotations.
Local Open Scope N_scope.

(* ---- Python's str < str is a strict total order *)
Lemma str_ltb_irrefl : forall a, str_ltb a a = false.
Proof. induction a as [|x a IH]; [reflexivity|]. cbn [str_ltb]. now rewrite N.ltb_irrefl. Qed.

Lemma str_ltb_trans : forall a b c, str_ltb a b = true -> str_ltb b c = true -> str_ltb a c = true.
Proof.
  induction a as [|x a IH]; intros [|y b] [|z c] H1 H2; cbn [str_ltb] in *; try discriminate; try reflexivity.
  destruct (x <? y) eqn:Exy.
  - apply N.ltb_lt in Exy. destruct (y <? z) eqn:Eyz.
    + apply N.ltb_lt in Eyz. assert (L : x <? z = true) by (apply N.ltb_lt; lia). now rewrite L.
    + destruct (z <? y) eqn:Ezy; [discriminate|]. apply N.ltb_ge in Eyz, Ezy.
      assert (L : x <? z = true) by (apply N.ltb_lt; lia). now rewrite L.
  - destruct (y <? x) eqn:Eyx; [discriminate|]. apply N.ltb_ge in Exy, Eyx. assert (x = y) by lia. subst y.
    destruct (x <? z) eqn:Exz; [reflexivity|]. destruct (z <? x) eqn:Ezx; [discriminate|].
    now apply (IH b c).
Qed.

Lemma str_ltb_total : forall a b, str_ltb a b = false -> str_ltb b a = false -> a = b.
Proof.
  induction a as [|x a IH]; intros [|y b] H1 H2; cbn [str_ltb] in *; try discriminate; try reflexivity.
  destruct (x <? y) eqn:Exy; [discriminate|]. destruct (y <? x) eqn:Eyx; [discriminate|].
  apply N.ltb_ge in Exy, Eyx. assert (x = y) by lia. subst y. f_equal. now apply IH.
Qed.

Lemma str_ltb_neq : forall a b, str_ltb a b = true -> a <> b.
Proof. intros a b H E. subst. rewrite str_ltb_irrefl in H. discriminate. Qed.

Section Canon.
  Context {V : Type}.
  Notation dict := (dict V).

  Definition canon (d : dict) : dict := sort_by fst d.

  (* strictly ascending keys *)
  Fixpoint ssorted (l : dict) : Prop :=
    match l with
    | [] => True
    | x :: r => Forall (fun y => str_ltb (fst x) (fst y) = true) r /\ ssorted r
    end.

  Lemma insert_Forall (P : str * V -> Prop) (x : str * V) (l : dict) : P x -> Forall P l -> Forall P (insert_by fst x l).
  Proof.
    intros Px. induction 1 as [|y l Py Pl IH]; cbn [insert_by]; [repeat constructor; assumption|].
    destruct (str_ltb (fst y) (fst x)); repeat constructor; assumption.
  Qed.

  Lemma insert_keys (x : str * V) (l : dict) k : In k (map fst (insert_by fst x l)) <-> k = fst x \/ In k (map fst l).
  Proof.
    induction l as [|y l IH]; cbn [insert_by map In]; [intuition|].
    destruct (str_ltb (fst y) (fst x)); cbn [map In]; [rewrite IH|]; intuition.
  Qed.

  Lemma canon_keys (d : dict) k : In k (map fst (canon d)) <-> In k (map fst d).
  Proof.
    induction d as [|x d IH]; [reflexivity|]. unfold canon in *. cbn [sort_by fold_right map In].
    fold (sort_by (@fst str V) d). rewrite insert_keys, IH. intuition.
  Qed.

  Lemma insert_ssorted (x : str * V) (l : dict) : ssorted l -> ~ In (fst x) (map fst l) -> ssorted (insert_by fst x l).
  Proof.
    induction l as [|y l IH]; intros S N; cbn [insert_by]; [cbn; split; [constructor|exact I]|].
    destruct S as [Fy Sl]. cbn [map In] in N.
    destruct (str_ltb (fst y) (fst x)) eqn:E.
    - cbn [ssorted]. split.
      + apply insert_Forall; assumption.
      + apply IH; [assumption|]. intro H. apply N. now right.
    - assert (L : str_ltb (fst x) (fst y) = true).
      { destruct (str_ltb (fst x) (fst y)) eqn:E2; [reflexivity|]. exfalso. apply N. left.
        symmetry. now apply str_ltb_total. }
      cbn [ssorted]. split; [|split; assumption].
      constructor; [exact L|]. eapply Forall_impl; [|exact Fy]. intros z Hz. cbv beta in Hz.
      now apply (str_ltb_trans _ (fst y)).
  Qed.

  Lemma canon_sorted (d : dict) : wf d -> ssorted (canon d).
  Proof.
    unfold wf. induction d as [|x d IH]; intro W; [exact I|]. cbn [map] in W. inversion W as [|? ? Nin Wd]; subst.
    unfold canon. cbn [sort_by fold_right]. fold (sort_by (@fst str V) d). apply insert_ssorted.
    - now apply IH.
    - intro H. apply Nin. now apply (canon_keys d).
  Qed.

  Lemma dget_cons k (x : str * V) (l : dict) :
    dget k (x :: l) = if str_eqb k (fst x) then Some (snd x) else dget k l.
  Proof. destruct x. reflexivity. Qed.

  Lemma dget_insert k (x : str * V) (l : dict) : dget k (insert_by fst x l) = dget k (x :: l).
  Proof.
    induction l as [|y l IH]; cbn [insert_by]; [reflexivity|].
    destruct (str_ltb (fst y) (fst x)) eqn:E; [|reflexivity].
    rewrite (dget_cons k y), IH, !dget_cons.
    destruct (str_eqb k (fst y)) eqn:Ey; [|reflexivity].
    apply str_eqb_eq in Ey. subst k.
    rewrite str_eqb_neq; [reflexivity|]. now apply str_ltb_neq.
  Qed.

  (* the canonical form answers every lookup as the dict does *)
  Lemma dget_canon k (d : dict) : dget k (canon d) = dget k d.
  Proof.
    induction d as [|x d IH]; [reflexivity|]. unfold canon in *. cbn [sort_by fold_right].
    fold (sort_by (@fst str V) d). now rewrite dget_insert, !dget_cons, IH.
  Qed.

  Lemma dget_all_gt k k' (l : dict) :
    Forall (fun y : str * V => str_ltb k (fst y) = true) l -> (k' = k \/ str_ltb k' k = true) -> dget k' l = None.
  Proof.
    intros F H. apply dget_none_iff. intro I. apply in_map_iff in I. destruct I as [y [Ey Iy]].
    rewrite Forall_forall in F. specialize (F y Iy). cbv beta in F. rewrite Ey in F.
    destruct H as [->|H].
    - rewrite str_ltb_irrefl in F. discriminate.
    - pose proof (str_ltb_trans _ _ _ H F) as T. rewrite str_ltb_irrefl in T. discriminate.
  Qed.

  Lemma ssorted_unique : forall l1 l2 : dict,
      ssorted l1 -> ssorted l2 -> (forall k, dget k l1 = dget k l2) -> l1 = l2.
  Proof.
    induction l1 as [|[k1 v1] l1 IH]; intros [|[k2 v2] l2] S1 S2 H.
    - reflexivity.
    - specialize (H k2). cbn [dget assoc_str] in H. rewrite str_eqb_refl in H. discriminate.
    - specialize (H k1). cbn [dget assoc_str] in H. rewrite str_eqb_refl in H. discriminate.
    - destruct S1 as [F1 S1], S2 as [F2 S2]. cbn [fst] in F1, F2.
      assert (E : k1 = k2).
      { apply str_ltb_total.
        - destruct (str_ltb k1 k2) eqn:L; [|reflexivity]. exfalso.
          specialize (H k1). rewrite !dget_cons in H. cbn [fst snd] in H. rewrite str_eqb_refl in H.
          rewrite (str_eqb_neq k1 k2) in H by now apply str_ltb_neq.
          rewrite (dget_all_gt k2 k1 l2 F2) in H by (now right). discriminate.
        - destruct (str_ltb k2 k1) eqn:L; [|reflexivity]. exfalso.
          specialize (H k2). rewrite !dget_cons in H. cbn [fst snd] in H. rewrite str_eqb_refl in H.
          rewrite (str_eqb_neq k2 k1) in H by now apply str_ltb_neq.
          rewrite (dget_all_gt k1 k2 l1 F1) in H by (now right). discriminate. }
      subst k2.
      assert (Ev : v1 = v2).
      { specialize (H k1). rewrite !dget_cons in H. cbn [fst snd] in H. rewrite str_eqb_refl in H. now inversion H. }
      subst v2. f_equal. apply IH; try assumption.
      intro k. destruct (str_eq_dec k k1) as [->|N].
      + rewrite (dget_all_gt k1 k1 l1 F1), (dget_all_gt k1 k1 l2 F2) by (now left). reflexivity.
      + specialize (H k). rewrite !dget_cons in H. cbn [fst snd] in H. now rewrite (str_eqb_neq k k1 N) in H.
  Qed.

  (* the canonical form is a function of the lookups alone *)
  Theorem canon_unique (d1 d2 : dict) : wf d1 -> wf d2 -> (forall k, dget k d1 = dget k d2) -> canon d1 = canon d2.
  Proof.
    intros W1 W2 H. apply ssorted_unique; try (now apply canon_sorted).
    intro k. now rewrite !dget_canon.
  Qed.
End Canon.
