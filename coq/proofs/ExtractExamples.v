(* Worked instances for C11: the hypotheses of the round-trip theorems are
   satisfiable (non-vacuity), with the derivations spelled out. *)
From Coq Require Import ZArith List Bool Lia.
From Emmet Require Import lib.Base lib.ExtractLib model.Extract
  proofs.ExtractProofs proofs.ExtractHtml proofs.ExtractRoundtrip.
Import ListNotations.
Local Open Scope N_scope.

(* a checker for [opener_left] *)
Fixpoint opener_left_b (cl op : char) (seen : bool) (A : str) : bool :=
  match A with
  | [] => true
  | c :: r => if c =? cl then seen && opener_left_b cl op seen r
              else opener_left_b cl op (seen || (op =? c)) r
  end.

Lemma opener_left_b_gen : forall cl op A pre,
  opener_left_b cl op (existsb (N.eqb op) pre) A = true ->
  forall P S, A = P ++ cl :: S -> In op (pre ++ P).
Proof.
  intros cl op. induction A as [|c r IH]; intros pre H P S E.
  - destruct P; discriminate.
  - cbn [opener_left_b] in H. destruct P as [|c' P'].
    + cbn [app] in E. inversion E; subst c. rewrite N.eqb_refl in H.
      apply andb_true_iff in H. destruct H as [H _]. rewrite app_nil_r.
      apply existsb_exists in H. destruct H as [y [I Q]]. apply N.eqb_eq in Q. subst y. exact I.
    + cbn [app] in E. inversion E; subst c'. clear E.
      replace (pre ++ c :: P') with ((pre ++ [c]) ++ P') by (rewrite <- app_assoc; reflexivity).
      destruct (c =? cl).
      * apply andb_true_iff in H. destruct H as [_ H].
        apply in_or_app. destruct (in_app_or _ _ _ (IH pre H P' S H2)) as [I|I]; [left; apply in_or_app; left; exact I|right; exact I].
      * apply (IH (pre ++ [c])) with (S := S); [|exact H2].
        rewrite existsb_app. cbn [existsb]. rewrite orb_false_r. exact H.
Qed.

Lemma opener_left_check : forall cl op A, opener_left_b cl op false A = true -> opener_left cl op A.
Proof. intros cl op A H P S E. exact (opener_left_b_gen cl op A [] H P S E). Qed.

(* round trip:  <a href=QxQ>  then  li[title=x]*3>a[b=QcQ]  (Q a double quote) with the caret before the
   auto-closed  Q]  , followed by a space and x *)
Lemma roundtrip_instance :
  extract_abbreviation ([60; 97; 32; 104; 114; 101; 102; 61; 34; 120; 34; 62] ++ ([108; 105; 91; 116; 105; 116; 108; 101; 61; 120; 93; 42; 51; 62; 97; 91; 98; 61; 34; 99] ++ [34; 93]) ++ [32; 120]) (Some (Z.of_nat (length [60; 97; 32; 104; 114; 101; 102; 61; 34; 120; 34; 62] + length [108; 105; 91; 116; 105; 116; 108; 101; 61; 120; 93; 42; 51; 62; 97; 91; 98; 61; 34; 99]))) default_opts =
  Some (mkExtracted ([108; 105; 91; 116; 105; 116; 108; 101; 61; 120; 93; 42; 51; 62; 97; 91; 98; 61; 34; 99] ++ [34; 93]) 12%Z 12%Z 34%Z).
Proof.
  apply (extract_roundtrip default_opts [60; 97; 32; 104; 114; 101; 102; 61; 34; 120; 34; 62] [108; 105; 91; 116; 105; 116; 108; 101; 61; 120; 93; 42; 51; 62; 97; 91; 98; 61; 34; 99] [34; 93] [32; 120]).
  - reflexivity.
  - change ([108; 105; 91; 116; 105; 116; 108; 101; 61; 120; 93; 42; 51; 62; 97; 91; 98; 61; 34; 99] ++ [34; 93]) with ((([108; 105] ++ c_lbrack :: [116; 105; 116; 108; 101; 61; 120] ++ [c_rbrack]) ++ [42; 51; 62; 97]) ++ c_lbrack :: [98; 61; 34; 99; 34] ++ [c_rbrack]).
    apply ab_attrs; [reflexivity| | |].
    + apply abbr_app_chars; [|reflexivity].
      apply ab_attrs; [reflexivity| | |].
      * apply (abbr_app_chars _ []); [exact (ab_nil _)|reflexivity].
      * apply sq_chars. reflexivity.
      * apply items_plain. reflexivity.
    + apply sq_chars. reflexivity.
    + apply it_char; [reflexivity|]. apply it_char; [reflexivity|].
      apply (it_quoted 34 [99] []); [reflexivity| |exact it_nil]. intros [H|[]]. discriminate.
  - discriminate.
  - intros c r E. inversion E. subst c. intros H. cbn in H.
    repeat destruct H as [H|H]; try discriminate; contradiction.
  - change [60; 97; 32; 104; 114; 101; 102; 61; 34; 120; 34; 62] with ([] ++ render_tag (TOpen [97] [mkAttr [32] [104; 114; 101; 102] (VQuo 34 [120])] [] false)).
    apply lc_tag. cbn [tag_ok]. split; [split; [discriminate|intros c [<-|[]]; reflexivity]|]. split; [|intros c []].
    constructor; [|constructor]. unfold attr_ok. cbn [ta_ws ta_name ta_val value_ok].
    split; [split; [discriminate|intros c [<-|[]]; reflexivity]|].
    split; [split; [discriminate|intros c H; cbn in H; repeat destruct H as [<-|H]; try reflexivity; contradiction]|].
    split; [reflexivity|intros [H|[]]; discriminate].
  - cbn. split.
    + right. exists 34, [c_rbrack]. split; [reflexivity|]. split; [reflexivity|]. intros c [<-|[]]. reflexivity.
    + split; [reflexivity|discriminate].
Qed.

(* whitespace context, stylesheet:  "x " then  m10+p5  *)
Lemma roundtrip_instance_stylesheet :
  extract_abbreviation (([120] ++ [32]) ++ ([109; 49; 48; 43; 112; 53] ++ []) ++ []) (Some (Z.of_nat (length ([120] ++ [32]) + length [109; 49; 48; 43; 112; 53])))
                       (mkOpts [115; 116; 121; 108; 101; 115; 104; 101; 101; 116] false []) =
  Some (mkExtracted ([109; 49; 48; 43; 112; 53] ++ []) 2%Z 2%Z 8%Z).
Proof.
  apply (extract_roundtrip (mkOpts [115; 116; 121; 108; 101; 115; 104; 101; 101; 116] false []) ([120] ++ [32]) [109; 49; 48; 43; 112; 53] [] []); try reflexivity; try discriminate.
  - rewrite app_nil_r. apply (abbr_app_chars _ []); [exact (ab_nil _)|reflexivity].
  - intros c r E. inversion E. subst c. intros H. cbn in H.
    repeat destruct H as [H|H]; try discriminate; contradiction.
  - apply lc_ws; [reflexivity|]. apply sf_char; [reflexivity|exact sf_nil].
Qed.

(* prefix:  foo<  then  ul>li[a]  *)
Lemma roundtrip_prefix_instance :
  extract_abbreviation ([102; 111; 111] ++ [60] ++ ([117; 108; 62; 108; 105; 91; 97; 93] ++ []) ++ []) (Some (Z.of_nat (3 + 1 + length [117; 108; 62; 108; 105; 91; 97; 93])))
                       (mkOpts s_markup false [60]) =
  Some (mkExtracted ([117; 108; 62; 108; 105; 91; 97; 93] ++ []) 4%Z 3%Z 12%Z).
Proof.
  apply (extract_roundtrip_prefix (mkOpts s_markup false [60]) [102; 111; 111] [] 60 [117; 108; 62; 108; 105; 91; 97; 93] [] []);
    try discriminate; try reflexivity.
  - rewrite app_nil_r. intros H. cbn in H. repeat destruct H as [H|H]; try discriminate; contradiction.
  - apply opener_left_check. reflexivity.
  - apply opener_left_check. reflexivity.
  - rewrite app_nil_r. change [117; 108; 62; 108; 105; 91; 97; 93] with (([117; 108; 62; 108; 105] ++ c_lbrack :: [97] ++ [c_rbrack])).
    apply ab_attrs; [reflexivity| | |].
    + apply (abbr_app_chars _ []); [exact (ab_nil _)|reflexivity].
    + apply sq_chars. reflexivity.
    + apply items_plain. reflexivity.
  - intros c r E. rewrite app_nil_r in E. inversion E. subst c. intros H. cbn in H.
    repeat destruct H as [H|H]; try discriminate; contradiction.
Qed.
