(* C06 user value snippets, source level, part 4: from the snippet TEXT to the printed line.
     css_parse_render     css_parse true (render v) = one property, one value, the tokens of v
     create_snippet_value create_snippet key (prop ++ ":" ++ render v ++ "|" ++ others) = the property snippet
     user_snippet_wrapped / user_snippet_plain   (end to end, from config.snippets to the printed line) *)
From Coq Require Import ZArith List Bool Lia ZifyBool String PrimFloat.
From Emmet Require Import lib.Base lib.StyleLib gen.GenChars model.CssTokenizer model.CssParser model.Score model.Color
     model.CssSnippets model.CssResolve model.CssFormat
     proofs.CssTokenizerProofs proofs.StyleTokProofs proofs.CssFormatStream proofs.CssValuePrint proofs.CssValueLex
     proofs.CssValueSource proofs.CssValueParse proofs.StyleSweep proofs.StyleReachProofs proofs.CssValueReach.
Import ListNotations.
Local Open Scope nat_scope.

(* ================================================================== strip leaves a written value alone *)
Lemma py_space_not (P : char -> bool) :
  forallb (fun w => negb (P w)) py_whitespace = true -> forall c, P c = true -> is_py_space c = false.
Proof.
  intros H c Hc. destruct (is_py_space c) eqn:E; [|reflexivity]. unfold is_py_space in E.
  apply existsb_exists in E. destruct E as [w [Hin Hw]]. apply N.eqb_eq in Hw. subst w.
  rewrite forallb_forall in H. specialize (H c Hin). rewrite Hc in H. discriminate.
Qed.
Lemma alpha_not_py c : is_alpha c = true -> is_py_space c = false.
Proof. apply py_space_not. vm_compute. reflexivity. Qed.
Lemma number_not_py c : is_number c = true -> is_py_space c = false.
Proof. apply py_space_not. vm_compute. reflexivity. Qed.
Lemma keyword_not_py c : is_keyword c = true -> is_py_space c = false.
Proof. apply py_space_not. vm_compute. reflexivity. Qed.
Lemma alpha_word_not_py c : is_alpha_word c = true -> is_py_space c = false.
Proof. apply py_space_not. vm_compute. reflexivity. Qed.
Lemma hex_not_py c : hexc c -> is_py_space c = false.
Proof. unfold hexc. apply py_space_not. vm_compute. reflexivity. Qed.

Lemma strip_solid (s : str) c r d : s = c :: r -> is_py_space c = false -> (exists p, s = p ++ [d]) -> is_py_space d = false ->
  strip s = s.
Proof.
  intros Hs Hc [p Hp] Hd. unfold strip, rstrip_by. rewrite Hs at 1. cbn [lstrip_by]. rewrite Hc. rewrite <- Hs.
  rewrite Hp, rev_app_distr. cbn [rev app lstrip_by]. rewrite Hd.
  change (d :: rev p) with ([d] ++ rev p). change [d] with (rev [d]). rewrite <- rev_app_distr. apply rev_involutive.
Qed.

Definition solid (c : char) : Prop := is_py_space c = false.
Definition ends_with (s : str) (d : char) : Prop := exists p, s = p ++ [d].
Lemma ends_app a b d : ends_with b d -> ends_with (a ++ b) d.
Proof. intros [p ->]. exists (a ++ p). apply app_assoc. Qed.
Lemma ends_cons c b d : ends_with b d -> ends_with (c :: b) d.
Proof. apply (ends_app [c]). Qed.
Lemma ends_forall (P : char -> Prop) s : s <> [] -> Forall P s -> exists d, ends_with s d /\ P d.
Proof.
  intros Hne HF. destruct (exists_last Hne) as [p [d ->]]. exists d. split; [exists p; reflexivity|].
  apply Forall_app in HF. destruct HF as [_ Hd]. inversion Hd; assumption.
Qed.

Lemma num_text_last n : numv_ok n -> exists d, ends_with (num_text n) d /\ solid d.
Proof.
  intros [Hip [Hfp [Hne Hu]]]. unfold num_text.
  destruct (nv_unit n) as [|u0 ur] eqn:Eu.
  - rewrite app_nil_r. unfold num_raw.
    destruct (nv_fp n) as [f|] eqn:Ef.
    + destruct f as [|f0 fr].
      * exists c_dot. split; [|reflexivity]. apply ends_app, ends_app. exists []. reflexivity.
      * destruct (ends_forall (fun c => is_number c = true) (f0 :: fr) ltac:(discriminate) Hfp) as [d [Hd Pd]].
        exists d. split; [|apply number_not_py, Pd]. apply ends_app, ends_app. cbn [dot_part]. apply ends_cons, Hd.
    + assert (Hi : nv_ip n <> []) by (destruct Hne as [H|[f [H _]]]; [exact H|discriminate]).
      destruct (ends_forall (fun c => is_number c = true) (nv_ip n) Hi Hip) as [d [Hd Pd]].
      exists d. split; [|apply number_not_py, Pd]. apply ends_app. cbn [dot_part]. rewrite app_nil_r. exact Hd.
  - destruct Hu as [H|[H|[_ H]]]; [discriminate| |].
    + injection H as -> ->. exists c_percent. split; [|reflexivity]. apply ends_app. exists []. reflexivity.
    + destruct (ends_forall (fun c => is_alpha_word c = true) (u0 :: ur) ltac:(discriminate) H) as [d [Hd Pd]].
      exists d. split; [|apply alpha_word_not_py, Pd]. apply ends_app, Hd.
Qed.

Lemma col_text_last c : colv_ok c -> exists d, ends_with (col_text c) d /\ solid d.
Proof.
  intros [Hne [Hhex Ha]]. unfold col_text, col_raw.
  destruct (cv_alpha c) as [f|].
  - destruct f as [|f0 fr].
    + exists c_dot. split; [|reflexivity]. apply ends_cons, ends_app. exists []. reflexivity.
    + destruct (ends_forall (fun c => is_number c = true) (f0 :: fr) ltac:(discriminate) Ha) as [d [Hd Pd]].
      exists d. split; [|apply number_not_py, Pd]. apply ends_cons, ends_app. cbn [dot_part]. apply ends_cons, Hd.
  - destruct (ends_forall hexc (cv_hex c) Hne Hhex) as [d [Hd Pd]].
    exists d. split; [|apply hex_not_py, Pd]. apply ends_cons. cbn [dot_part]. rewrite app_nil_r. exact Hd.
Qed.

Lemma kw_last w : kw_ok w -> exists d, ends_with w d /\ solid d.
Proof.
  destruct w as [|c0 tl]; [intros []|]. intros [Ha Htl].
  assert (HF : Forall (fun c => is_keyword c = true) (c0 :: tl)).
  { constructor; [|exact Htl]. unfold is_keyword, is_alpha_numeric_word, is_alpha_word. rewrite Ha.
    rewrite !orb_true_r. reflexivity. }
  destruct (ends_forall _ (c0 :: tl) ltac:(discriminate) HF) as [d [Hd Pd]]. exists d. split; [exact Hd|apply keyword_not_py, Pd].
Qed.

Lemma render_tok_last t : stok_ok t -> exists d, ends_with (render_tok t) d /\ solid d.
Proof.
  destruct t as [w|n|c|q b|name args]; intros Hok.
  - apply kw_last, Hok.
  - apply num_text_last, Hok.
  - apply col_text_last, Hok.
  - exists (quote_char q). split; [|destruct q; reflexivity]. unfold render_tok. cbn [written wprint_tok].
    apply ends_app, ends_app. exists []. reflexivity.
  - exists c_rparen. split; [|reflexivity]. rewrite render_call. apply ends_app, ends_cons, ends_app. exists []. reflexivity.
Qed.

Lemma render_tok_first t rest : stok_ok t -> exists c r, render_tok t ++ rest = c :: r /\ solid c.
Proof.
  destruct t as [w|n|c|single body|name args]; intros Hok.
  - unfold render_tok. cbn [written wprint_tok]. destruct w as [|c0 tl]; [destruct Hok|]. destruct Hok as [Ha _].
    exists c0, (tl ++ rest). split; [reflexivity|apply alpha_not_py, Ha].
  - destruct (val_text_head (VNum n) rest Hok) as [c [tl [E S]]]. unfold render_tok. cbn [written wprint_tok].
    cbn [val_text] in E. exists c, tl. split; [exact E|].
    destruct S as [-> | [S | [-> | ->]]]; try reflexivity. apply number_not_py, S.
  - exists c_hash, (col_raw c ++ rest). split; reflexivity.
  - unfold render_tok. cbn [written wprint_tok q_text app]. eexists _, _. split; [reflexivity|destruct single; reflexivity].
  - rewrite stok_ok_call in Hok. destruct Hok as [Hn _]. rewrite render_call.
    destruct name as [|c0 tl]; [destruct Hn|]. destruct Hn as [Ha _]. cbn [app]. eexists _, _. split; [reflexivity|apply alpha_not_py, Ha].
Qed.

Lemma render_last v : toks_ok v -> v <> [] -> exists d, ends_with (render v) d /\ solid d.
Proof.
  induction v as [|x xs IH]; intros Hok Hne; [contradiction|]. destruct Hok as [Hx Hxs]. rewrite render_cons.
  destruct xs as [|y ys].
  - cbn [tail_src tail_toks map concat]. rewrite app_nil_r. apply render_tok_last, Hx.
  - destruct (IH Hxs ltac:(discriminate)) as [d [Hd Pd]]. exists d. split; [|exact Pd].
    apply ends_app. rewrite tail_src_cons, <- render_cons. apply ends_cons, Hd.
Qed.

Lemma strip_render v : toks_ok v -> v <> [] -> strip (render v) = render v.
Proof.
  intros Hok Hne. destruct (render_last v Hok Hne) as [d [Hd Pd]].
  destruct v as [|x xs]; [contradiction|]. destruct Hok as [Hx _].
  destruct (render_tok_first x (tail_src xs) Hx) as [c [r [E Pc]]]. rewrite <- render_cons in E.
  exact (strip_solid _ c r d E Pc Hd Pd).
Qed.

(* ================================================================== css_parse / parse_value on the text *)
Theorem css_parse_render v : toks_ok v -> v <> [] ->
  exists pv, css_parse true (render v) = Ok [mkProp None [pv] false false] /\ map unpos pv = map cv_tok v.
Proof.
  intros Hok Hne. destruct (value_tokenize v Hok Hne) as [toks [Ht Hk]].
  destruct (value_parse v toks Hok Hne Hk) as [pv [Hp Hu]]. exists pv. split; [|exact Hu].
  unfold css_parse. rewrite Ht. exact Hp.
Qed.

Lemma parse_value_render v : toks_ok v -> v <> [] ->
  exists pv, parse_value (render v) = Ok [pv] /\ map unpos pv = map cv_tok v.
Proof.
  intros Hok Hne. destruct (css_parse_render v Hok Hne) as [pv [Hp Hu]]. exists pv. split; [|exact Hu].
  unfold parse_value. rewrite (strip_render v Hok Hne), Hp. reflexivity.
Qed.

(* ================================================================== create_snippet on the snippet text *)
Definition no_char (x : char) (s : str) : Prop := Forall (fun c => (c =? x)%N = false) s.

Lemma split_piece sep (piece rest cur : str) : no_char sep piece ->
  split_on sep (piece ++ rest) cur = split_on sep rest (rev piece ++ cur).
Proof.
  intros H. revert cur. induction H as [|c piece Hc _ IH]; intros cur; [reflexivity|].
  cbn [app split_on]. rewrite Hc, IH. cbn [rev]. rewrite <- app_assoc. reflexivity.
Qed.
Lemma split_join sep (p : str) ps : no_char sep p -> Forall (no_char sep) ps ->
  split_on sep (join [sep] (p :: ps)) [] = p :: ps.
Proof.
  intros Hp Hps. revert p Hp. induction Hps as [|q ps Hq _ IH]; intros p Hp.
  - cbn [join]. rewrite <- (app_nil_r p) at 1. rewrite split_piece by exact Hp. cbn [split_on]. rewrite app_nil_r, rev_involutive. reflexivity.
  - change (join [sep] (p :: q :: ps)) with (p ++ [sep] ++ join [sep] (q :: ps)).
    rewrite split_piece by exact Hp. cbn [app split_on]. rewrite N.eqb_refl, app_nil_r, rev_involutive, (IH q Hq). reflexivity.
Qed.

Lemma cspan_all p (s : str) : Forall (fun c => p c = true) s -> cspan p s = length s.
Proof. intros H. rewrite <- (app_nil_r s) at 1. apply cspan_app; [exact H|reflexivity]. Qed.

(* a property name: a-z and dashes *)
Definition prop_ok (prop : str) : Prop := prop <> [] /\ Forall (fun c => is_az_dash c = true) prop.
(* the text after the colon: no line break and no `;` (the regular expression of create_snippet stops there),
   not starting with white space *)
Definition group_ok (g : str) : Prop :=
  Forall (fun c => is_gchar c = true) g /\ match g with c :: _ => is_py_space c = false | [] => False end.

(* white space after the colon, semicolons at the end *)
Definition blanks (ws : str) : Prop := Forall (fun c => is_py_space c = true) ws.
Definition semis (ss : str) : Prop := Forall (fun c => (c_semi =? c)%N = true) ss.

Lemma try_group_back_at (ws g : str) (x : option str) : blanks ws -> try_group g = x -> x <> None ->
  try_group_back (ws ++ g) (length ws) = x.
Proof.
  intros _ Hx Hn. destruct ws as [|w0 wr]; cbn [length try_group_back].
  - cbn [skipn app]. rewrite Hx. destruct x; [reflexivity|contradiction].
  - change (S (length wr)) with (length (w0 :: wr)). rewrite skipn_app_exact, Hx. destruct x; [reflexivity|contradiction].
Qed.

Lemma re_property_value prop ws g ss : prop_ok prop -> blanks ws -> group_ok g -> semis ss ->
  re_property_match (prop ++ c_colon :: ws ++ g ++ ss) = Some (prop, Some g).
Proof.
  intros [Hne Hp] Hws [Hg Hg0] Hss. unfold re_property_match.
  rewrite (cspan_app is_az_dash prop (c_colon :: ws ++ g ++ ss) Hp eq_refl).
  destruct (length prop) as [|n] eqn:El; [destruct prop; [contradiction|discriminate]|]. rewrite <- El.
  rewrite firstn_app_exact, skipn_app_exact.
  change (cspan is_py_space (c_colon :: ws ++ g ++ ss)) with 0. cbn [skipn]. rewrite N.eqb_refl.
  destruct g as [|g0 gr]; [contradiction|].
  rewrite (cspan_app is_py_space ws ((g0 :: gr) ++ ss) Hws) by (cbn [app cpeek_p]; exact Hg0).
  assert (Htg : try_group ((g0 :: gr) ++ ss) = Some (g0 :: gr)).
  { unfold try_group.
    assert (Hs0 : cpeek_p is_gchar ss = false).
    { destruct ss as [|s0 sr]; [reflexivity|]. inversion Hss as [|? ? H0 _]; subst. apply N.eqb_eq in H0. subst s0. reflexivity. }
    rewrite (cspan_app is_gchar (g0 :: gr) ss Hg Hs0). cbn [length].
    change (S (length gr)) with (length (g0 :: gr)). rewrite skipn_app_exact, firstn_app_exact.
    rewrite (cspan_all (N.eqb c_semi) ss Hss), skipn_all. reflexivity. }
  rewrite (try_group_back_at ws ((g0 :: gr) ++ ss) _ Hws Htg) by discriminate. reflexivity.
Qed.

(* THEOREM: the snippet text `prop:alt1|alt2|...` whose first alternative is a written value becomes the property
   snippet whose first alternative is one value holding the tokens of that written value *)
Theorem create_snippet_value key prop ws ss v others pothers :
  prop_ok prop -> blanks ws -> semis ss -> toks_ok v -> v <> [] ->
  group_ok (join [c_pipe] (render v :: others)) ->
  no_char c_pipe (render v) -> Forall (no_char c_pipe) others ->
  map_res parse_value others = Ok pothers ->
  exists pv kws,
    create_snippet key (prop ++ c_colon :: ws ++ join [c_pipe] (render v :: others) ++ ss)
    = Ok (SnProp key prop ([pv] :: pothers) kws []) /\
    map unpos pv = map cv_tok v.
Proof.
  intros Hprop Hws Hss Hok Hne Hg Hnp Hop Hpo. destruct (parse_value_render v Hok Hne) as [pv [Hpv Hu]].
  exists pv. eexists. split; [|exact Hu]. unfold create_snippet.
  rewrite (re_property_value prop ws _ ss Hprop Hws Hg Hss). rewrite (split_join c_pipe (render v) others Hnp Hop).
  cbn [map_res]. rewrite Hpv. cbn [bind]. rewrite Hpo. cbn [bind]. reflexivity.
Qed.

(* ================================================================== positions do not matter to the printing *)
Lemma map_map_ext {A B} (f g : A -> B) (l : list (list A)) :
  Forall (Forall (fun x => f x = g x)) l -> map (map f) l = map (map g) l.
Proof.
  induction 1 as [|a r Ha _ IH]; [reflexivity|]. cbn [map]. rewrite IH. f_equal.
  induction Ha as [|x xs Hx _ IHx]; [reflexivity|]. cbn [map]. rewrite Hx, IHx. reflexivity.
Qed.
Lemma forallb_forallb_ext {A} (f g : A -> bool) (l : list (list A)) :
  Forall (Forall (fun x => f x = g x)) l -> forallb (forallb f) l = forallb (forallb g) l.
Proof.
  induction 1 as [|a r Ha _ IH]; [reflexivity|]. cbn [forallb]. rewrite IH. f_equal.
  induction Ha as [|x xs Hx _ IHx]; [reflexivity|]. cbn [forallb]. rewrite Hx, IHx. reflexivity.
Qed.

Lemma abs_unpos cfg x : abs_tok cfg (unpos x) = abs_tok cfg x.
Proof.
  induction x as [k st en|name args IH] using cval_ind2; [reflexivity|]. cbn [unpos abs_tok]. f_equal.
  induction IH as [|a r Ha _ IHr]; [reflexivity|]. cbn [map]. rewrite IHr. f_equal.
  induction Ha as [|y ys Hy _ IHa]; [reflexivity|]. cbn [map]. rewrite Hy, IHa. reflexivity.
Qed.
Lemma wrappable_unpos x : wrappable (unpos x) = wrappable x.
Proof.
  induction x as [k st en|name args IH] using cval_ind2; [reflexivity|]. cbn [unpos wrappable].
  induction IH as [|a r Ha _ IHr]; [reflexivity|]. cbn [map forallb]. rewrite IHr. f_equal.
  induction Ha as [|y ys Hy _ IHa]; [reflexivity|]. cbn [map forallb]. rewrite Hy, IHa. reflexivity.
Qed.
Lemma printable_unpos cfg x : wrappable x = true -> printable cfg (unpos x) = printable cfg x.
Proof.
  induction x as [k st en|name args IH] using cval_ind2; intros Hw.
  - destruct k; try discriminate; reflexivity.
  - cbn [unpos printable wrappable] in *.
    induction IH as [|a r Ha _ IHr]; [reflexivity|]. cbn [map forallb] in *. apply andb_prop in Hw. destruct Hw as [W1 W2].
    rewrite (IHr W2). f_equal. clear IHr W2.
    induction Ha as [|y ys Hy _ IHa]; [reflexivity|]. cbn [map forallb] in *. apply andb_prop in W1. destruct W1 as [Y1 Y2].
    rewrite (Hy Y1), (IHa Y2). reflexivity.
Qed.
Lemma unit_given_unpos cfg x : unit_given cfg (unpos x) <-> unit_given cfg x.
Proof. destruct x as [[] st en|name args]; cbn; tauto. Qed.

Lemma wrappable_cv t : stok_ok t -> wrappable (cv_tok t) = true.
Proof.
  induction t as [w|n|c|q b|name args IH] using stok_ind2; intros Hok; try reflexivity.
  - cbn [cv_tok wrappable head_kind]. destruct (col_kind_facts c Hok) as [r [g [b [a E]]]]. rewrite E. reflexivity.
  - rewrite stok_ok_call in Hok. destruct Hok as [_ Hargs]. cbn [cv_tok wrappable].
    induction IH as [|a r Ha _ IHr]; [reflexivity|]. destruct Hargs as [_ [Hoka Hokr]]. cbn [map forallb].
    rewrite (IHr Hokr), andb_true_r. clear IHr Hokr.
    induction Ha as [|y ys Hy _ IHa]; [reflexivity|]. destruct Hoka as [Hy1 Hy2]. cbn [map forallb].
    rewrite (Hy Hy1), (IHa Hy2). reflexivity.
Qed.

(* what a written token prints as: keywords and strings as written; numbers as frac(value, 4) + unit; colours by
   color(...) under stylesheet.shortHex *)
Definition printed (cfg : sconfig) (t : stok) : wtok := abs_tok cfg (cv_tok t).

Section FromParse.
  Variables (cfg : sconfig) (v : list stok) (pv : cssvalue).
  Hypothesis Hu : map unpos pv = map cv_tok v.
  Hypothesis Hok : toks_ok v.

  Lemma abs_parsed : abs cfg pv = map (printed cfg) v.
  Proof.
    unfold abs, printed. rewrite <- (map_map cv_tok (abs_tok cfg)), <- Hu, map_map. apply map_ext. intros x.
    symmetry. apply abs_unpos.
  Qed.
  Lemma wrappable_parsed : forallb wrappable pv = true.
  Proof.
    assert (H : forallb wrappable (map unpos pv) = true).
    { rewrite Hu. clear Hu. induction v as [|t r IH]; [reflexivity|]. destruct Hok as [H1 H2]. cbn [map forallb].
      rewrite (wrappable_cv t H1). apply IH. exact H2. }
    clear Hu. induction pv as [|x xs IH]; [reflexivity|]. cbn [map forallb] in *. rewrite wrappable_unpos in H.
    apply andb_prop in H. destruct H as [H1 H2]. rewrite H1, (IH H2). reflexivity.
  Qed.
  Lemma printable_parsed : forallb (printable cfg) (map cv_tok v) = true -> forallb (printable cfg) pv = true.
  Proof.
    rewrite <- Hu. pose proof wrappable_parsed as W. clear Hu. induction pv as [|x xs IH]; [reflexivity|].
    cbn [map forallb] in *. apply andb_prop in W. destruct W as [W1 W2]. intros H. apply andb_prop in H. destruct H as [H1 H2].
    rewrite (printable_unpos cfg x W1) in H1. rewrite H1, (IH W2 H2). reflexivity.
  Qed.
  Lemma unit_given_parsed : Forall (unit_given cfg) (map cv_tok v) -> Forall (unit_given cfg) pv.
  Proof.
    rewrite <- Hu. clear Hu. induction pv as [|x xs IH]; [constructor|]. cbn [map]. intros H. inversion H; subst.
    constructor; [apply unit_given_unpos; assumption|apply IH; assumption].
  Qed.
End FromParse.

(* ================================================================== END TO END, from config.snippets *)
(* several alternatives: every leaf of the first in a tabstop, numbered from 1 in document order *)
Theorem user_snippet_wrapped cfg raw sn key prop ws ss v o others po pothers :
  convert_snippets raw = Ok sn -> NoDup (map (fun kv => lower (fst kv)) raw) ->
  In (key, prop ++ c_colon :: ws ++ join [c_pipe] (render v :: o :: others) ++ ss) raw -> blanks ws -> semis ss ->
  name_ok key -> str_eqb key gradient_name = false -> c_context cfg = None -> c_json cfg = false ->
  prop_ok prop -> toks_ok v -> v <> [] ->
  group_ok (join [c_pipe] (render v :: o :: others)) ->
  no_char c_pipe (render v) -> Forall (no_char c_pipe) (o :: others) ->
  map_res parse_value (o :: others) = Ok (po :: pothers) ->
  nobreakb (prop ++ c_between cfg) = true ->
  expand_with cfg sn key =
  Ok (prop ++ c_between cfg ++ wprint (relabel (field_of cfg) (map (printed cfg) v)) ++ c_after cfg).
Proof.
  intros Hconv Hnd Hin Hws Hss Hk Hg Hc Hj Hprop Hok Hne Hgr Hnp Hop Hpo Hb.
  destruct (create_snippet_value key prop ws ss v (o :: others) (po :: pothers) Hprop Hws Hss Hok Hne Hgr Hnp Hop Hpo) as [pv [kws [Hcs Hu]]].
  destruct (raw_key_reaches_property_snippet cfg raw sn key _ prop _ kws Hconv Hnd Hin Hcs Hk Hg Hc Hj) as [deps [_ He]].
  rewrite He. f_equal.
  rewrite (own_line_wrapped cfg key prop pv po pothers kws deps Hj (wrappable_parsed v pv Hu Hok) Hb).
  rewrite (abs_parsed cfg v pv Hu). reflexivity.
Qed.

(* one alternative: printed unwrapped *)
Theorem user_snippet_plain cfg raw sn key prop ws ss v :
  convert_snippets raw = Ok sn -> NoDup (map (fun kv => lower (fst kv)) raw) ->
  In (key, prop ++ c_colon :: ws ++ render v ++ ss) raw -> blanks ws -> semis ss ->
  name_ok key -> str_eqb key gradient_name = false -> c_context cfg = None -> c_json cfg = false ->
  prop_ok prop -> toks_ok v -> v <> [] ->
  group_ok (render v) -> no_char c_pipe (render v) ->
  forallb (printable cfg) (map cv_tok v) = true -> Forall (unit_given cfg) (map cv_tok v) ->
  nobreakb (prop ++ c_between cfg) = true ->
  expand_with cfg sn key = Ok (prop ++ c_between cfg ++ wprint (map (printed cfg) v) ++ c_after cfg).
Proof.
  intros Hconv Hnd Hin Hws Hss Hk Hg Hc Hj Hprop Hok Hne Hgr Hnp Hpr Hun Hb.
  destruct (create_snippet_value key prop ws ss v [] [] Hprop Hws Hss Hok Hne Hgr Hnp (Forall_nil _) eq_refl) as [pv [kws [Hcs Hu]]].
  cbn [join] in Hcs.
  destruct (raw_key_reaches_property_snippet cfg raw sn key _ prop _ kws Hconv Hnd Hin Hcs Hk Hg Hc Hj) as [deps [_ He]].
  rewrite He. f_equal.
  rewrite (own_line_plain cfg key prop pv [] kws deps Hj (or_introl eq_refl)
             (printable_parsed cfg v pv Hu Hok Hpr) (unit_given_parsed cfg v pv Hu Hun) Hb).
  rewrite (abs_parsed cfg v pv Hu). reflexivity.
Qed.

(* "as written": when every token prints as it is written (canonical numbers and colours), the line is the
   property, the separator and the first alternative verbatim *)
Corollary user_snippet_plain_verbatim cfg raw sn key prop ws ss v :
  convert_snippets raw = Ok sn -> NoDup (map (fun kv => lower (fst kv)) raw) ->
  In (key, prop ++ c_colon :: ws ++ render v ++ ss) raw -> blanks ws -> semis ss ->
  name_ok key -> str_eqb key gradient_name = false -> c_context cfg = None -> c_json cfg = false ->
  prop_ok prop -> toks_ok v -> v <> [] ->
  group_ok (render v) -> no_char c_pipe (render v) ->
  forallb (printable cfg) (map cv_tok v) = true -> Forall (unit_given cfg) (map cv_tok v) ->
  nobreakb (prop ++ c_between cfg) = true ->
  map (printed cfg) v = map written v ->
  expand_with cfg sn key = Ok (prop ++ c_between cfg ++ render v ++ c_after cfg).
Proof.
  intros Hconv Hnd Hin Hws Hss Hk Hg Hc Hj Hprop Hok Hne Hgr Hnp Hpr Hun Hb Hcan.
  rewrite (user_snippet_plain cfg raw sn key prop ws ss v Hconv Hnd Hin Hws Hss Hk Hg Hc Hj Hprop Hok Hne Hgr Hnp Hpr Hun Hb), Hcan.
  reflexivity.
Qed.
