(* C01, implicit names, tree level: from the token tree of an abbreviation whose elements are
   written as  name | name.cls | name#id | .cls | #id  (optionally repeated, optionally inside
   groups) to the tag events of the HTML formatter's output stream.

     token tree --convert--> unrolled forest, every node with at most one class/id attribute
                --walk_resolve--> same forest (no written name is a snippet key)
                --transform--> every nameless node receives implicit_name_of (its parent's
                               FINAL name, or the context name at top level); attributes kept
                --html_format--> tag chunks whose nesting is the preorder (depth, name) list

   The list-level reading (ImplicitSpec.resolve_names over the unrolled (depth, written name)
   list, the empty name standing for "no name") is proved equal to the tree-level one. *)
From Emmet Require Import lib.Base model.MarkupTokenizer model.MarkupParser model.MarkupConvert
     model.MarkupResolve model.OutStream model.FormatHtml model.FormatIndent model.MarkupExpand.
From Emmet Require Import proofs.ParserSpine proofs.ParserGroups proofs.TokenizeRender proofs.NumberingProofs
     proofs.ConvertProofs proofs.SafeResolve proofs.IndentStream proofs.HtmlEvents proofs.ExpandTree
     proofs.ExpandFlat proofs.ExpandRepeat proofs.ExpandGroupsTok proofs.ExpandGroups proofs.ImplicitSpec.
Local Open Scope nat_scope.

(* ================================================================ token leaves with one shorthand attribute *)
(* an attribute as short_attribute() builds it: a literal name token, a single literal value token *)
Definition sh_attr_view (a : tattr) : option (str * str) :=
  match ta_name a, ta_value a, ta_expression a, ta_multiple a with
  | Some [nt], Some [vt], false, false =>
      match tk nt, tk vt with
      | TLiteral k, TLiteral w => Some (k, w)
      | _, _ => None
      end
  | _, _, _, _ => None
  end.
(* no attributes, or exactly one such attribute *)
Definition attrs_view (o : option (list tattr)) : option (option (str * str)) :=
  match o with
  | None => Some None
  | Some [a] => option_map Some (sh_attr_view a)
  | Some _ => None
  end.
(* no name, or one literal token *)
Definition name_view (o : option (list token)) : option (option str) :=
  match o with
  | None => Some None
  | Some _ => option_map Some (lit_name o)
  end.

Definition sh_key (k : str) : bool := str_eqb k s_class || str_eqb k s_id.
Definition nv_ok (P : str -> bool) (nv : option str) : bool := match nv with Some v => P v | None => true end.
Definition av_ok (Pv : str -> bool) (av : option (str * str)) : bool :=
  match av with Some (k, w) => sh_key k && Pv w | None => true end.
Definition some_payload (nv : option str) (av : option (str * str)) : bool :=
  match nv, av with None, None => false | _, _ => true end.

Definition ileaf (P Pv : str -> bool) (l : leaf) : bool :=
  match name_view (lf_name l), attrs_view (lf_attrs l), lf_value l, lf_self l with
  | Some nv, Some av, None, false =>
      nv_ok P nv && av_ok Pv av && some_payload nv av && clean_rep (lf_repeat l)
  | _, _, _, _ => false
  end.

Fixpoint inamed (P Pv : str -> bool) (n : tnode) : bool :=
  match n with
  | TElem a b c r s els => ileaf P Pv (mkLeaf a b c r s) && forallb (inamed P Pv) els
  | TGroup els r => clean_rep r && forallb (inamed P Pv) els
  end.

Lemma sh_key_cases k : sh_key k = true -> k = s_class \/ k = s_id.
Proof.
  unfold sh_key. intros H. apply orb_true_iff in H. destruct H as [H|H]; apply str_eqb_true in H; auto.
Qed.

(* ================================================================ the converted attribute *)
Definition sh_aattr (k w : str) : aattr := mkAAttr (Some k) (Some [VStr w]) VRaw false false false.
Definition av_attrs (av : option (str * str)) : option (list aattr) :=
  match av with Some (k, w) => Some [sh_aattr k w] | None => None end.

Lemma attr_of_sh env reps a k w :
  sh_attr_view a = Some (k, w) -> sh_key k = true -> attr_of env reps a = sh_aattr k w.
Proof.
  intros Hv Hk. destruct a as [an avl ae am]. unfold sh_attr_view in Hv. cbn [ta_name ta_value ta_expression ta_multiple] in Hv.
  destruct an as [[|nt [|nt2 nr]]|]; try discriminate.
  destruct avl as [[|vt [|vt2 vr]]|]; try discriminate.
  destruct ae; [discriminate|]. destruct am; [discriminate|].
  destruct (tk nt) eqn:Ent; try discriminate. destruct (tk vt) eqn:Evt; try discriminate.
  injection Hv as -> ->.
  unfold attr_of, convert_attribute. cbn [ta_name ta_value ta_expression ta_multiple nonempty stringify_name].
  unfold stringify at 1. rewrite Ent. cbn [bind]. rewrite app_nil_r.
  rewrite Evt. unfold stringify_value. cbn [stringify_value_acc]. rewrite Evt. unfold stringify. rewrite Evt.
  destruct (sh_key_cases k Hk) as [-> | ->]; reflexivity.
Qed.

Lemma text_only_no_value nm ats : text_only_of nm ats None = false.
Proof. destruct nm as [[|? ?]|]; destruct ats; reflexivity. Qed.

Lemma ileaf_inv P Pv l :
  ileaf P Pv l = true ->
  exists nv av, name_view (lf_name l) = Some nv /\ attrs_view (lf_attrs l) = Some av /\
    lf_value l = None /\ lf_self l = false /\
    nv_ok P nv = true /\ av_ok Pv av = true /\ some_payload nv av = true /\ clean_rep (lf_repeat l) = true.
Proof.
  unfold ileaf. destruct (name_view (lf_name l)) as [nv|]; [|discriminate].
  destruct (attrs_view (lf_attrs l)) as [av|]; [|discriminate].
  destruct (lf_value l); [discriminate|]. destruct (lf_self l); [discriminate|].
  intros H. apply andb_prop in H. destruct H as [H H4]. apply andb_prop in H. destruct H as [H H3].
  apply andb_prop in H. destruct H as [H1 H2]. exists nv, av. repeat split; assumption.
Qed.

Lemma name_view_leaf o nv : name_view o = Some nv -> match nv with Some v => v | None => [] end = match lit_name o with Some v => v | None => [] end.
Proof.
  unfold name_view. destruct o as [l|]; [|intros H; injection H as <-; reflexivity].
  destruct (lit_name (Some l)) as [v|]; [|discriminate]. intros H. injection H as <-. reflexivity.
Qed.

(* one element: the converted node *)
Lemma leaf_items_ileaf env reps P Pv l cur kids :
  ileaf P Pv l = true ->
  exists nv av, nv_ok P nv = true /\ av_ok Pv av = true /\ some_payload nv av = true /\
    leaf_name l = match nv with Some v => v | None => [] end /\
    attrs_view (lf_attrs l) = Some av /\
    leaf_items env reps (lf_name l) (lf_attrs l) (lf_value l) (lf_self l) cur kids =
      [ANode nv None cur (av_attrs av) kids false].
Proof.
  intros H. destruct (ileaf_inv P Pv l H) as [nv [av [Hn [Ha [Hv [Hs [H1 [H2 [H3 H4]]]]]]]]].
  exists nv, av. repeat split; try assumption.
  - unfold leaf_name. symmetry. apply name_view_leaf, Hn.
  - rewrite Hv, Hs. unfold leaf_items. cbn [nonempty option_map]. rewrite text_only_no_value. f_equal.
    assert (En : option_map (name_str env reps) (nonempty (lf_name l)) = nv).
    { unfold name_view in Hn. destruct (lf_name l) as [ts|]; [|injection Hn as <-; reflexivity].
      unfold lit_name in Hn. destruct ts as [|t [|t2 r]]; try discriminate.
      destruct (tk t) eqn:Et; try discriminate. injection Hn as <-. cbn [nonempty option_map].
      rewrite (name_str_literal env reps t v Et). reflexivity. }
    assert (Ea : option_map (map (attr_of env reps)) (nonempty (lf_attrs l)) = av_attrs av).
    { unfold attrs_view in Ha. destruct (lf_attrs l) as [[|a [|a2 r]]|]; try discriminate.
      - destruct (sh_attr_view a) as [[k w]|] eqn:Ev; [|discriminate]. injection Ha as <-.
        cbn [nonempty option_map map av_attrs]. cbn [av_ok] in H2. apply andb_prop in H2. destruct H2 as [Hk _].
        rewrite (attr_of_sh env reps a k w Ev Hk). reflexivity.
      - injection Ha as <-. reflexivity. }
    rewrite En, Ea. reflexivity.
Qed.

(* ================================================================ unrolled forests *)
Definition aattrs_view (o : option (list aattr)) : option (option (str * str)) :=
  match o with
  | None => Some None
  | Some [a] =>
      match aa_name a, aa_value a, aa_vtype a, aa_boolean a, aa_implied a, aa_multiple a with
      | Some k, Some [VStr w], VRaw, false, false, false => Some (Some (k, w))
      | _, _, _, _, _, _ => None
      end
  | Some _ => None
  end.

Lemma aattrs_view_av av : aattrs_view (av_attrs av) = Some av.
Proof. destruct av as [[k w]|]; reflexivity. Qed.

Lemma aattrs_view_inv o av : aattrs_view o = Some av -> o = av_attrs av.
Proof.
  unfold aattrs_view. destruct o as [[|a [|a2 r]]|]; try discriminate.
  - destruct a as [nm vl vt b i m]. cbn [aa_name aa_value aa_vtype aa_boolean aa_implied aa_multiple].
    destruct nm as [k|]; [|discriminate]. destruct vl as [[|[w|? ?] [|? ?]]|]; try discriminate.
    destruct vt; try discriminate. destruct b; [discriminate|]. destruct i; [discriminate|]. destruct m; [discriminate|].
    intros H. injection H as <-. reflexivity.
  - intros H. injection H as <-. reflexivity.
Qed.

Fixpoint inode (P Pv : str -> bool) (n : anode) : bool :=
  match n with
  | ANode nm v _ at_ ch sc =>
      match v, sc, aattrs_view at_ with
      | None, false, Some av => nv_ok P nm && av_ok Pv av && some_payload nm av && forallb (inode P Pv) ch
      | _, _, _ => false
      end
  end.

Lemma inode_inv P Pv n :
  inode P Pv n = true ->
  exists av, n = ANode (an_name n) None (an_repeat n) (av_attrs av) (an_children n) false /\
    nv_ok P (an_name n) = true /\ av_ok Pv av = true /\ some_payload (an_name n) av = true /\
    forallb (inode P Pv) (an_children n) = true.
Proof.
  destruct n as [nm v rp at_ ch sc]. cbn [inode an_name an_repeat an_children].
  destruct v; [discriminate|]. destruct sc; [discriminate|].
  destruct (aattrs_view at_) as [av|] eqn:Ea; [|discriminate]. apply aattrs_view_inv in Ea. subst at_.
  intros H. apply andb_prop in H. destruct H as [H H4]. apply andb_prop in H. destruct H as [H H3].
  apply andb_prop in H. destruct H as [H1 H2]. exists av. repeat split; assumption.
Qed.

Lemma inode_attach P Pv r items : forallb (inode P Pv) (attach_repeater items r) = forallb (inode P Pv) items.
Proof.
  unfold attach_repeater. induction items as [|x l IH]; [reflexivity|]. cbn [map forallb]. rewrite IH. f_equal.
  destruct x as [nm v [rp|] at_ ch sc]; reflexivity.
Qed.

(* ================================================================ resolved names, on trees *)
(* the final name of a node under a parent whose final name is [pn] (None at top level) *)
Definition rname (cfg : mconfig) (pn : option (option str)) (nm : option str) : str :=
  match nm with Some x => x | None => implicit_name_of cfg pn end.

Fixpoint rnode (cfg : mconfig) (pn : option (option str)) (n : anode) : anode :=
  match n with
  | ANode nm v rp at_ ch sc =>
      let x := rname cfg pn nm in
      ANode (Some x) v rp at_ (map (rnode cfg (Some (Some x))) ch) sc
  end.

Lemma pnames_rnode_attach cfg pn d r items :
  pnamesL d (map (rnode cfg pn) (attach_repeater items r)) = pnamesL d (map (rnode cfg pn) items).
Proof.
  unfold pnamesL, attach_repeater. induction items as [|x l IH]; [reflexivity|]. cbn [map flat_map]. rewrite IH. f_equal.
  destruct x as [nm v [rp|] at_ ch sc]; reflexivity.
Qed.

(* the unrolled preorder (depth, final name) list of a token tree *)
Fixpoint ishape (cfg : mconfig) (pn : option (option str)) (d : nat) (node : tnode) {struct node} : list (nat * str) :=
  let once :=
    match node with
    | TGroup els _ => flat_map (ishape cfg pn d) els
    | TElem a b c r s els =>
        let x := name_or (leaf_name (mkLeaf a b c r s)) (implicit_name_of cfg pn) in
        (d, x) :: flat_map (ishape cfg (Some (Some x)) (S d)) els
    end in
  ncopies (N.to_nat (orep_copies (node_rep node))) once.

Definition ishape_once (cfg : mconfig) (pn : option (option str)) (d : nat) (node : tnode) : list (nat * str) :=
  match node with
  | TGroup els _ => flat_map (ishape cfg pn d) els
  | TElem a b c r s els =>
      let x := name_or (leaf_name (mkLeaf a b c r s)) (implicit_name_of cfg pn) in
      (d, x) :: flat_map (ishape cfg (Some (Some x)) (S d)) els
  end.
Lemma ishape_unfold cfg pn d node :
  ishape cfg pn d node = ncopies (N.to_nat (orep_copies (node_rep node))) (ishape_once cfg pn d node).
Proof. destruct node; reflexivity. Qed.

Section Unroll.
  Variable env : cenv.
  Variable cfg : mconfig.
  Variables P Pv : str -> bool.
  Hypothesis HPne : forall v, P v = true -> v <> [].

  Definition unroll_claim (c : tnode) : Prop :=
    inamed P Pv c = true -> forall reps pn d,
      forallb (inode P Pv) (unroll env reps c) = true /\
      pnamesL d (map (rnode cfg pn) (unroll env reps c)) = ishape cfg pn d c.

  Lemma once_inamed node :
    inamed P Pv node = true -> Forall unroll_claim (elements_of' node) ->
    forall cur reps pn d,
      forallb (inode P Pv) (once_u env node cur reps) = true /\
      pnamesL d (map (rnode cfg pn) (once_u env node cur reps)) = ishape_once cfg pn d node.
  Proof.
    intros Hn IH cur reps pn d.
    assert (Hkids : forall pn' d', forallb (inamed P Pv) (elements_of' node) = true ->
              forallb (inode P Pv) (flat_map (unroll env reps) (elements_of' node)) = true /\
              pnamesL d' (map (rnode cfg pn') (flat_map (unroll env reps) (elements_of' node)))
                = flat_map (ishape cfg pn' d') (elements_of' node)).
    { intros pn' d' Hall. split.
      - rewrite forallb_flat_map. apply forallb_forall. intros c Hc.
        rewrite Forall_forall in IH. rewrite forallb_forall in Hall. apply (IH c Hc (Hall c Hc) reps pn' d').
      - unfold pnamesL. rewrite map_flat_map, flat_map_flat_map. apply flat_map_ext_Forall. apply Forall_forall. intros c Hc.
        rewrite Forall_forall in IH. rewrite forallb_forall in Hall. apply (IH c Hc (Hall c Hc) reps pn' d'). }
    destruct node as [a b c r s els|els r]; cbn [inamed elements_of' once_u ishape_once] in *.
    - apply andb_prop in Hn. destruct Hn as [Hl Hels].
      destruct (leaf_items_ileaf env reps P Pv (mkLeaf a b c r s) cur (flat_map (unroll env reps) els) Hl)
        as [nv [av [H1 [H2 [H3 [Hnm [_ E]]]]]]].
      cbn [lf_name lf_attrs lf_value lf_self] in E. rewrite E.
      assert (Ex : name_or (leaf_name (mkLeaf a b c r s)) (implicit_name_of cfg pn) = rname cfg pn nv).
      { rewrite Hnm. destruct nv as [v|]; [|reflexivity]. cbn [nv_ok] in H1. pose proof (HPne v H1) as Hne.
        destruct v; [contradiction|reflexivity]. }
      cbv zeta. rewrite Ex. set (x := rname cfg pn nv).
      destruct (Hkids (Some (Some x)) (S d) Hels) as [K1 K2]. split.
      + cbn [forallb inode]. rewrite aattrs_view_av, H1, H2, H3, K1. reflexivity.
      + unfold pnamesL in *. cbn [map rnode flat_map pnames]. fold x. rewrite app_nil_r, K2. reflexivity.
    - apply andb_prop in Hn. destruct Hn as [_ Hels]. destruct (Hkids pn d Hels) as [K1 K2].
      destruct cur; [rewrite inode_attach, pnames_rnode_attach|]; split; assumption.
  Qed.

  Theorem unroll_inamed : forall node, unroll_claim node.
  Proof.
    induction node as [a b c r s els IH|els r IH] using tnode_ind'; intros Hn reps pn d;
      rewrite unroll_unfold, ishape_unfold; cbn [node_rep].
    - pose proof (once_inamed (TElem a b c r s els) Hn IH) as H. destruct r as [r0|]; cbn [orep_copies].
      + cbv zeta. split.
        * rewrite forallb_flat_map. apply forallb_forall. intros i _. apply (H _ _ pn d).
        * unfold pnamesL, ncopies. rewrite map_flat_map, flat_map_flat_map. apply flat_map_ext. intros i. apply H.
      + change (N.to_nat 1) with 1. rewrite ncopies_one. apply H.
    - pose proof (once_inamed (TGroup els r) Hn IH) as H. destruct r as [r0|]; cbn [orep_copies].
      + cbv zeta. split.
        * rewrite forallb_flat_map. apply forallb_forall. intros i _. apply (H _ _ pn d).
        * unfold pnamesL, ncopies. rewrite map_flat_map, flat_map_flat_map. apply flat_map_ext. intros i. apply H.
      + change (N.to_nat 1) with 1. rewrite ncopies_one. apply H.
  Qed.
End Unroll.

(* ================================================================ tree-level names = list-level names *)
(* the model's naming function, as a function of the parent's final name *)
Definition pn_of (po : option str) : option (option str) :=
  match po with Some p => Some (Some p) | None => None end.
Definition imp_model (cfg : mconfig) (po : option str) : str := implicit_name_of cfg (pn_of po).

Lemma nth_error_firstn_lt {A} : forall (l : list A) n k, k < n -> nth_error (firstn n l) k = nth_error l k.
Proof.
  induction l as [|x l IH]; intros n k H; [destruct n; destruct k; reflexivity|].
  destruct n as [|n]; [lia|]. destruct k as [|k]; [reflexivity|]. cbn [firstn nth_error]. apply IH. lia.
Qed.

Lemma parent_at_firstn d a b : firstn d a = firstn d b -> parent_at d a = parent_at d b.
Proof.
  destruct d as [|k]; [reflexivity|]. intros H. cbn [parent_at].
  rewrite <- (nth_error_firstn_lt a (S k) k) by lia. rewrite <- (nth_error_firstn_lt b (S k) k) by lia.
  rewrite H. reflexivity.
Qed.

Lemma firstn_snoc_same {A} d (anc : list A) x : d <= length anc -> firstn d (firstn d anc ++ [x]) = firstn d anc.
Proof.
  intros H. rewrite firstn_app, firstn_firstn, Nat.min_id, firstn_length, Nat.min_l by exact H.
  rewrite Nat.sub_diag. cbn [firstn]. apply app_nil_r.
Qed.

Lemma firstn_firstn_le {A} d e (l : list A) : d <= e -> firstn d (firstn e l) = firstn d l.
Proof. intros H. rewrite firstn_firstn, Nat.min_l by exact H. reflexivity. Qed.

Section Resolve.
  Variable cfg : mconfig.
  Let imp := imp_model cfg.

  (* reading the list [X] written at depth [d] under the ancestors [anc] gives [Y] and leaves
     ancestors that agree with [anc] above depth d *)
  Definition reads (d : nat) (X : list (nat * str)) (Y : option (option str) -> list (nat * str)) : Prop :=
    forall anc, d <= length anc ->
    exists anc', d <= length anc' /\ firstn d anc' = firstn d anc /\
      forall R, resolve_names imp anc (X ++ R) = Y (pn_of (parent_at d anc)) ++ resolve_names imp anc' R.

  Lemma reads_nil d : reads d [] (fun _ => []).
  Proof. intros anc H. exists anc. split; [exact H|]. split; [reflexivity|]. intros R. reflexivity. Qed.

  Lemma reads_app d X1 Y1 X2 Y2 :
    reads d X1 Y1 -> reads d X2 Y2 -> reads d (X1 ++ X2) (fun pn => Y1 pn ++ Y2 pn).
  Proof.
    intros H1 H2 anc Ha. destruct (H1 anc Ha) as [anc1 [L1 [F1 E1]]]. destruct (H2 anc1 L1) as [anc2 [L2 [F2 E2]]].
    exists anc2. split; [exact L2|]. split; [congruence|]. intros R.
    rewrite <- app_assoc, E1, E2, <- app_assoc. rewrite (parent_at_firstn d anc1 anc F1). reflexivity.
  Qed.

  Lemma reads_flat_map {A} d (f : A -> list (nat * str)) (g : option (option str) -> A -> list (nat * str)) l :
    Forall (fun x => reads d (f x) (fun pn => g pn x)) l ->
    reads d (flat_map f l) (fun pn => flat_map (g pn) l).
  Proof.
    induction 1 as [|x l Hx _ IH]; [apply reads_nil|]. cbn [flat_map].
    apply (reads_app d (f x) (fun pn => g pn x) (flat_map f l) (fun pn => flat_map (g pn) l)); assumption.
  Qed.

  Lemma reads_ncopies d k X Y : reads d X Y -> reads d (ncopies k X) (fun pn => ncopies k (Y pn)).
  Proof.
    intros H. unfold ncopies. generalize 0%N. induction k as [|k IH]; intros i; [apply reads_nil|].
    cbn [nseq flat_map]. apply (reads_app d X Y _ (fun pn => flat_map (fun _ => Y pn) (nseq k (i + 1)%N))); [exact H|apply IH].
  Qed.

  Lemma reads_elem d nm X Yk :
    reads (S d) X Yk ->
    reads d ((d, nm) :: X)
      (fun pn => let x := name_or nm (implicit_name_of cfg pn) in
                 (d, x) :: Yk (Some (Some x))).
  Proof.
    intros H anc Ha. cbv zeta.
    set (x := name_or nm (implicit_name_of cfg (pn_of (parent_at d anc)))).
    set (anc1 := firstn d anc ++ [x]).
    assert (Lf : length (firstn d anc) = d) by (rewrite firstn_length; apply Nat.min_l, Ha).
    assert (L1 : S d <= length anc1).
    { unfold anc1. rewrite app_length, Lf. cbn [length]. lia. }
    assert (Px : parent_at (S d) anc1 = Some x).
    { cbn [parent_at]. unfold anc1. rewrite nth_error_app2 by lia. rewrite Lf, Nat.sub_diag. reflexivity. }
    destruct (H anc1 L1) as [anc2 [L2 [F2 E2]]].
    exists anc2. split; [lia|]. split.
    - rewrite <- (firstn_firstn_le d (S d) anc2) by lia. rewrite F2. rewrite firstn_firstn_le by lia.
      unfold anc1. apply firstn_snoc_same, Ha.
    - intros R. cbn [app resolve_names].
      change (name_or nm (imp (parent_at d anc))) with x. fold anc1. rewrite E2, Px. reflexivity.
  Qed.

  Theorem reads_tree : forall node d, reads d (xshape [] d node) (fun pn => ishape cfg pn d node).
  Proof.
    induction node as [a b c r s els IH|els r IH] using tnode_ind'; intros d.
    - rewrite xshape_elem. unfold leaf_copies. cbn [lf_repeat].
      change (match r with Some r0 => written_count r0 | None => 1%N end) with (orep_copies r).
      apply (reads_ncopies d (N.to_nat (orep_copies r))
               ((d, leaf_name (mkLeaf a b c r s)) :: flat_map (xshape [] (S d)) els)
               (fun pn => let x := name_or (leaf_name (mkLeaf a b c r s)) (implicit_name_of cfg pn) in
                          (d, x) :: flat_map (ishape cfg (Some (Some x)) (S d)) els)).
      apply (reads_elem d (leaf_name (mkLeaf a b c r s)) (flat_map (xshape [] (S d)) els)
               (fun pn => flat_map (ishape cfg pn (S d)) els)).
      apply (reads_flat_map (S d) (xshape [] (S d)) (fun pn k => ishape cfg pn (S d) k) els).
      eapply Forall_impl; [|exact IH]. cbn beta. intros k Hk. apply Hk.
    - rewrite xshape_group. cbn [app].
      apply (reads_ncopies d (N.to_nat (orep_copies r)) (flat_map (xshape [] d) els) (fun pn => flat_map (ishape cfg pn d) els)).
      apply (reads_flat_map d (xshape [] d) (fun pn k => ishape cfg pn d k) els).
      eapply Forall_impl; [|exact IH]. cbn beta. intros k Hk. apply Hk.
  Qed.

  (* a whole forest at top level *)
  Theorem resolve_forest root :
    resolve_names imp [] (flat_map (xshape [] 0) root) = flat_map (ishape cfg None 0) root.
  Proof.
    destruct (reads_flat_map 0 (xshape [] 0) (fun pn k => ishape cfg pn 0 k) root
                (proj2 (Forall_forall _ _) (fun k _ => reads_tree k 0)) [] (Nat.le_refl 0)) as [anc' [_ [_ E]]].
    specialize (E []). rewrite !app_nil_r in E. exact E.
  Qed.
End Resolve.

(* ================================================================ snippet resolution leaves the forest alone *)
Lemma walk_inode cfg stack rec P Pv :
  (forall x, P x = true -> no_snippet cfg x = true) ->
  forall n, inode P Pv n = true -> walk_node' cfg stack rec n = Ok [n].
Proof.
  intros HP. induction n as [nm v rp at_ ch sc IH] using anode_ind'. intros Hs.
  destruct (inode_inv P Pv _ Hs) as [av [E [Hn [Ha [Hp Hch]]]]]. cbn [an_name an_repeat an_children] in *.
  injection E as -> ->. subst sc. cbn [walk_node'].
  assert (Hsn : snippet_of cfg stack nm = None).
  { destruct nm as [x|]; [|reflexivity]. apply snippet_of_none, HP, Hn. }
  rewrite Hsn.
  assert (Hk : (fix walk_kids (k : list anode) : res (list anode) :=
                  match k with
                  | [] => Ok []
                  | c :: k' => let* a := walk_node' cfg stack rec c in let* b := walk_kids k' in Ok (a ++ b)
                  end) ch = Ok ch).
  { clear Hs. induction ch as [|c k IHk]; [reflexivity|].
    inversion IH as [|c' k' Hc Hk']; subst. cbn [forallb] in Hch. apply andb_prop in Hch. destruct Hch as [H1 H2].
    rewrite (Hc H1). cbn [bind]. rewrite (IHk Hk' H2). reflexivity. }
  rewrite Hk. reflexivity.
Qed.

Lemma walk_list_inode cfg stack rec P Pv :
  (forall x, P x = true -> no_snippet cfg x = true) ->
  forall l, forallb (inode P Pv) l = true -> walk_list' cfg stack rec l = Ok l.
Proof.
  intros HP. induction l as [|c l IH]; intros H; [reflexivity|].
  cbn [forallb] in H. apply andb_prop in H. destruct H as [H1 H2].
  cbn [walk_list']. rewrite (walk_inode cfg stack rec P Pv HP c H1). cbn [bind]. rewrite (IH H2). reflexivity.
Qed.

(* ================================================================ transform: implicit names, attributes kept *)
Lemma av_merge rv Pv av : av_ok Pv av = true -> merge_attributes rv (av_attrs av) = av_attrs av.
Proof.
  destruct av as [[k w]|]; [|reflexivity]. cbn [av_ok]. intros H. apply andb_prop in H. destruct H as [Hk _].
  destruct (sh_key_cases k Hk) as [-> | ->]; reflexivity.
Qed.

Lemma av_drop nm av : drop_empty_named nm (av_attrs av) = av_attrs av.
Proof.
  destruct av as [[k w]|]; [|reflexivity]. unfold drop_empty_named. cbn [av_attrs nonempty filter].
  assert (E : is_empty_attribute (sh_aattr k w) = false) by reflexivity. rewrite E, andb_false_r. reflexivity.
Qed.

Lemma av_xsl Pv av :
  av_ok Pv av = true ->
  match av_attrs av with
  | Some l => Some (filter (fun a => negb (opt_str_eqb (aa_name a) s_select)) l)
  | None => None
  end = av_attrs av.
Proof.
  destruct av as [[k w]|]; [|reflexivity]. cbn [av_ok]. intros H. apply andb_prop in H. destruct H as [Hk _].
  destruct (sh_key_cases k Hk) as [-> | ->]; reflexivity.
Qed.

Section Transform.
  Variable cfg : mconfig.
  Variables P Pv : str -> bool.
  Hypothesis HP : forall x, P x = true -> x <> [] /\ not_lorem x = true.

  Lemma rname_fine pn nm : nv_ok P nm = true -> rname cfg pn nm <> [] /\ not_lorem (rname cfg pn nm) = true.
  Proof.
    destruct nm as [x|]; cbn [nv_ok rname]; [apply HP|]. intros _.
    rewrite implicit_name_of_eq. pose proof (implicit_of_fine cfg (parent_str cfg pn)) as H. unfold value_fine in H.
    repeat (apply andb_prop in H; let H' := fresh in destruct H as [H H']).
    split; [|assumption]. destruct (implicit_of cfg (parent_str cfg pn)); [discriminate|discriminate].
  Qed.

  Hypothesis Hbem : mc_bem cfg = false.

  Lemma transform_node_pre_inode pn top nm rp av ch :
    nv_ok P nm = true -> av_ok Pv av = true -> some_payload nm av = true ->
    fst (transform_node_pre cfg pn top (ANode nm None rp (av_attrs av) ch false)) =
    ANode (Some (rname cfg pn nm)) None rp (av_attrs av) ch false.
  Proof.
    intros Hn Ha Hp. destruct (rname_fine pn nm Hn) as [Hy1 Hy2].
    assert (Enm1 : match nm, nonempty (av_attrs av) with
                   | None, Some _ | Some [], Some _ => Some (implicit_name_of cfg pn)
                   | _, _ => nm
                   end = Some (rname cfg pn nm)).
    { destruct nm as [[|c x]|]; cbn [rname].
      - cbn [nv_ok] in Hn. destruct (HP [] Hn) as [Hne _]. contradiction.
      - destruct (nonempty (av_attrs av)); reflexivity.
      - destruct av as [[k w]|]; [reflexivity|discriminate]. }
    unfold transform_node_pre. rewrite Enm1, (av_merge _ Pv av Ha).
    set (y := rname cfg pn nm) in *. clearbody y. destruct y as [|c y]; [contradiction|].
    unfold not_lorem in Hy2. destruct (match_lorem (c :: y)); [|discriminate].
    cbv zeta. cbn [fst nonempty].
    repeat match goal with |- context [if ?b then _ else _] => destruct b end;
      rewrite ?(av_xsl Pv av Ha), ?av_drop; reflexivity.
  Qed.

  (* BEM off: the node of transform_node_pre, the path grows by the node *)
  Lemma transform_node_inode pn top anc nm rp av ch :
    nv_ok P nm = true -> av_ok Pv av = true -> some_payload nm av = true ->
    exists found path,
      transform_node cfg pn top anc (ANode nm None rp (av_attrs av) ch false) =
        Ok (ANode (Some (rname cfg pn nm)) None rp (av_attrs av) ch false, found, path).
  Proof.
    intros Hn Ha Hp. unfold transform_node.
    pose proof (transform_node_pre_inode pn top nm rp av ch Hn Ha Hp) as Hpre.
    destruct (transform_node_pre cfg pn top (ANode nm None rp (av_attrs av) ch false)) as [n1 found]. cbn [fst] in Hpre. subst n1.
    rewrite Hbem. eexists _, _. reflexivity.
  Qed.

  Lemma transform_tree_inode :
    forall n, inode P Pv n = true -> forall pn top pending anc,
      exists pd path, transform_tree cfg pn top pending anc n = Ok (rnode cfg pn n, pd, path).
  Proof.
    induction n as [nm v rp at_ ch sc IH] using anode_ind'. intros Hs pn top pending anc.
    destruct (inode_inv P Pv _ Hs) as [av [E [Hn [Ha [Hp Hch]]]]]. cbn [an_name an_repeat an_children] in *.
    injection E as -> ->. subst sc.
    rewrite transform_tree_eq. cbv zeta.
    assert (E0 : (if pending && is_input_name nm
                  then ANode nm None rp (drop_empty_named s_id (av_attrs av)) ch false
                  else ANode nm None rp (av_attrs av) ch false) = ANode nm None rp (av_attrs av) ch false)
      by (rewrite av_drop; destruct (pending && is_input_name nm); reflexivity).
    rewrite E0.
    destruct (transform_node_inode pn top anc nm rp av ch Hn Ha Hp) as [found [path0 Etn]].
    set (x := rname cfg pn nm) in *.
    assert (Hgo : forall pd pth, exists pd2 pth2,
              tt_kids cfg (Some x) ch pd pth = Ok (map (rnode cfg (Some (Some x))) ch, pd2, pth2)).
    { clear Hs E0 Etn. induction ch as [|c k IHk]; intros pd pth; [eexists _, _; reflexivity|].
      inversion IH as [|c' k' Hc Hk']; subst. cbn [forallb] in Hch. apply andb_prop in Hch. destruct Hch as [H1 H2].
      destruct (Hc H1 (Some (Some x)) false pd pth) as [pd1 [pth1 Ec]]. cbn [tt_kids]. fold (tt_kids cfg (Some x)).
      rewrite Ec. cbn [bind].
      destruct (IHk Hk' H2 pd1 pth1) as [pd2 [pth2 Ek]]. rewrite Ek. cbn [bind map]. eexists _, _. reflexivity. }
    destruct (Hgo (pending && negb (pending && is_input_name nm) || found) path0) as [pd2 [pth2 Eg]].
    exists pd2, (firstn (length anc) pth2).
    eapply eq_trans; [apply (bind_ok _ _ _ Etn)|]. cbv beta iota.
    eapply eq_trans; [apply (bind_ok _ _ _ Eg)|]. reflexivity.
  Qed.

  (* no name of such a forest is a lorem header: the lorem pass leaves it alone *)
  Lemma inode_lorem_free : forall n, inode P Pv n = true -> LoremFill.lorem_free n = true.
  Proof.
    induction n as [nm v rp at_ ch sc IH] using anode_ind'. intros Hs.
    destruct (inode_inv P Pv _ Hs) as [av [_ [Hn [_ [_ Hch]]]]]. cbn [an_name an_children] in *.
    rewrite LoremFill.lorem_free_eq.
    assert (Hh : lorem_header nm = LNo).
    { destruct nm as [x|]; [|reflexivity]. cbn [nv_ok] in Hn. destruct (HP x Hn) as [Hne Hl].
      destruct x as [|c x]; [contradiction|]. unfold lorem_header, not_lorem in *.
      destruct (match_lorem (c :: x)); [reflexivity|discriminate]. }
    rewrite Hh. cbn [andb]. clear Hs Hn Hh. induction IH as [|k ks Hk _ IHks]; [reflexivity|].
    cbn [forallb] in *. apply andb_prop in Hch. destruct Hch as [H1 H2]. rewrite (Hk H1), (IHks H2). reflexivity.
  Qed.

  Lemma transform_list_inode :
    forall l, forallb (inode P Pv) l = true -> transform_list cfg l = Ok (map (rnode cfg None) l).
  Proof.
    intros l H. rewrite LoremFill.transform_list_free.
    2:{ clear - H HP. induction l as [|c l IH]; [reflexivity|]. cbn [forallb] in *. apply andb_prop in H.
        destruct H as [H1 H2]. rewrite (inode_lorem_free c H1), (IH H2). reflexivity. }
    revert H. induction l as [|c l IH]; intros H; [reflexivity|].
    cbn [forallb] in H. apply andb_prop in H. destruct H as [H1 H2].
    cbn [transform_forest map]. destruct (transform_tree_inode c H1 None true false []) as [pd [path E]].
    rewrite E. cbn [bind]. rewrite (IH H2). reflexivity.
  Qed.
End Transform.

(* ================================================================ the formatter's tag events *)
Lemma format_nest_gen c forest :
  cfg_clean c = true ->
  (forall n, In n forest -> node_clean n = true /\ named_tree n = true /\ Forall nonvoid (tree_events c n)) ->
  nestT 0 (tags (html_format c forest)) = map (fun x => (fst x, tag_name c (snd x))) (pnamesL 0 forest).
Proof.
  intros Hc Hall.
  rewrite (format_events_all c Hc forest) by (apply forallb_forall; intros n Hn; apply (Hall n Hn)).
  rewrite nestT_erase by (apply Forall_flat_map; intros n Hn; apply (Hall n Hn)).
  rewrite (nest_forest c forest) by (apply forallb_forall; intros n Hn; apply (Hall n Hn)).
  unfold pnamesL. rewrite !map_flat_map. apply flat_map_ext. intros n. apply dn_pnames.
Qed.

Section FormatI.
  Variable c : oconfig.
  Variable cfg : mconfig.
  Variables P Pv : str -> bool.
  Hypothesis HP : forall x, P x = true -> x <> [] /\ nolt x = true /\ nocrlf x = true /\ name_start x = true.
  Hypothesis HPv : forall w, Pv w = true -> nolt w = true.

  Lemma rname_clean pn nm : nv_ok P nm = true ->
    rname cfg pn nm <> [] /\ nolt (rname cfg pn nm) = true /\ nocrlf (rname cfg pn nm) = true /\ name_start (rname cfg pn nm) = true.
  Proof.
    destruct nm as [x|]; cbn [nv_ok rname]; [apply HP|]. intros _.
    rewrite implicit_name_of_eq. pose proof (implicit_of_fine cfg (parent_str cfg pn)) as H. unfold value_fine in H.
    repeat (apply andb_prop in H; let H' := fresh in destruct H as [H H']).
    repeat split; try assumption. destruct (implicit_of cfg (parent_str cfg pn)); [discriminate|discriminate].
  Qed.

  Lemma av_clean av : av_ok Pv av = true ->
    forallb attr_clean (match av_attrs av with Some l => l | None => [] end) = true.
  Proof.
    destruct av as [[k w]|]; [|reflexivity]. cbn [av_ok av_attrs forallb]. intros H. apply andb_prop in H. destruct H as [Hk Hw].
    unfold attr_clean, sh_aattr. cbn [aa_name aa_value oval_nolt toks_nolt forallb tok_nolt]. rewrite (HPv w Hw).
    destruct (sh_key_cases k Hk) as [-> | ->]; reflexivity.
  Qed.

  Lemma rnode_facts : forall n, inode P Pv n = true -> forall pn,
    node_clean (rnode cfg pn n) = true /\ named_tree (rnode cfg pn n) = true /\ Forall nonvoid (tree_events c (rnode cfg pn n)).
  Proof.
    induction n as [nm v rp at_ ch sc IH] using anode_ind'. intros Hs pn.
    destruct (inode_inv P Pv _ Hs) as [av [E [Hn [Ha [Hp Hch]]]]]. cbn [an_name an_repeat an_children] in *.
    injection E as -> ->. subst sc.
    destruct (rname_clean pn nm Hn) as [Hne [H1 [H2 H3]]].
    cbn [rnode]. set (x := rname cfg pn nm) in *.
    assert (Hk : forall k, In k (map (rnode cfg (Some (Some x))) ch) ->
                   node_clean k = true /\ named_tree k = true /\ Forall nonvoid (tree_events c k)).
    { intros k Hk. apply in_map_iff in Hk. destruct Hk as [k0 [<- Hk0]].
      rewrite Forall_forall in IH. rewrite forallb_forall in Hch. apply (IH k0 Hk0 (Hch k0 Hk0)). }
    repeat split.
    - cbn [node_clean]. rewrite H1, H2, H3, (av_clean av Ha). cbn [oval_nolt andb].
      apply forallb_forall. intros k Hk'. apply (Hk k Hk').
    - cbn [named_tree]. destruct x as [|x0 x']; [contradiction|]. cbn [truthy_s andb].
      apply forallb_forall. intros k Hk'. apply (Hk k Hk').
    - destruct x as [|x0 x']; [contradiction|].
      cbn [tree_events]. unfold self_closed. cbn [an_self andb].
      constructor; [exact I|]. apply Forall_app. split; [|constructor; [exact I|constructor]].
      apply Forall_flat_map. intros k Hk'. apply (Hk k Hk').
  Qed.
End FormatI.

(* ================================================================ token trees are clean for the converter *)
Lemma ileaf_clean P Pv l :
  ileaf P Pv l = true ->
  clean_otoks (lf_name l) = true /\ clean_oattrs (lf_attrs l) = true /\ clean_otoks (lf_value l) = true /\
  clean_rep (lf_repeat l) = true.
Proof.
  intros H. destruct (ileaf_inv P Pv l H) as [nv [av [Hn [Ha [Hv [Hs [H1 [H2 [H3 H4]]]]]]]]].
  repeat split; [| |rewrite Hv; reflexivity|exact H4].
  - unfold name_view in Hn. destruct (lf_name l) as [ts|]; [|reflexivity].
    unfold lit_name in Hn. destruct ts as [|t [|t2 r]]; try discriminate.
    destruct (tk t) eqn:Et; try discriminate. cbn [clean_otoks clean_toks forallb]. unfold clean_tok. rewrite Et. reflexivity.
  - unfold attrs_view in Ha. destruct (lf_attrs l) as [[|a [|a2 r]]|]; try discriminate; [|reflexivity].
    destruct (sh_attr_view a) as [[k w]|] eqn:Ev; [|discriminate].
    unfold sh_attr_view in Ev. destruct a as [an avl ae am]. cbn [ta_name ta_value ta_expression ta_multiple] in Ev.
    destruct an as [[|nt [|nt2 nr]]|]; try discriminate.
    destruct avl as [[|vt [|vt2 vr]]|]; try discriminate.
    destruct ae; [discriminate|]. destruct am; [discriminate|].
    destruct (tk nt) eqn:Ent; try discriminate. destruct (tk vt) eqn:Evt; try discriminate.
    cbn [clean_oattrs forallb]. unfold clean_attr. cbn [ta_name ta_value clean_otoks clean_toks forallb].
    unfold clean_tok. rewrite Ent, Evt. reflexivity.
Qed.

Lemma inamed_clean P Pv : forall node, inamed P Pv node = true -> clean_node node = true.
Proof.
  induction node as [a b c r s els IH|els r IH] using tnode_ind'; intros Hn; cbn [inamed clean_node] in *.
  - apply andb_prop in Hn. destruct Hn as [Hl Hels].
    destruct (ileaf_clean P Pv _ Hl) as [C1 [C2 [C3 C4]]]. cbn [lf_name lf_attrs lf_value lf_repeat] in *.
    rewrite C1, C2, C3, C4. cbn [andb].
    apply forallb_forall. intros x Hx. rewrite Forall_forall in IH. rewrite forallb_forall in Hels. apply IH; auto.
  - apply andb_prop in Hn. destruct Hn as [Hr Hels]. rewrite Hr. cbn [andb].
    apply forallb_forall. intros x Hx. rewrite Forall_forall in IH. rewrite forallb_forall in Hels. apply IH; auto.
Qed.

(* ================================================================ the whole pipeline, from the token tree *)
(* written class / id values: not empty, harmless for the tag reader *)
Definition value_sem (w : str) : bool := match w with [] => false | _ => true end && nolt w.

(* From a token tree whose elements are a literal name and/or one class/id shorthand with a
   literal value: expand succeeds and the tag chunks nest to the unrolled preorder list in which
   every nameless element carries the implicit name for its parent's final name.
   The BEM addon (options['bem.enabled']) is off: it rewrites class values. *)
(* the pipeline up to the formatter's input: the unrolled forest with final names *)
Theorem expand_forest_I (P Pv : str -> bool) x s toks root :
  (forall n, P n = true -> name_sem x n = true) ->
  cfg_ok x = true -> mc_bem (xc_m x) = false ->
  tokenize s = TOk toks -> parse (mc_jsx (xc_m x)) toks = POk root ->
  forallb (inamed P Pv) root = true ->
  (total_list root <= budget_of (mc_max_repeat (xc_m x)))%Z ->
  let m := xc_m x in
  let forest := flat_map (unroll (mkCenv (mc_text m) (mc_variables m) (mc_href m)) []) root in
  expand_markup x s = Ok (html_format (xc_o x) (map (rnode m None) forest)) /\
  forallb (inode P Pv) forest = true /\
  pnamesL 0 (map (rnode m None) forest) = flat_map (ishape m None 0) root.
Proof.
  intros HP Hc Hbem Ht Hp Hn Hb. unfold cfg_ok in Hc.
  apply andb_prop in Hc. destruct Hc as [Hc Hclean]. apply andb_prop in Hc. destruct Hc as [Hsyn Htext].
  cbv zeta. set (m := xc_m x) in *.
  assert (Htx : mc_text m = WNone) by (destruct (mc_text m); [reflexivity|discriminate|discriminate]).
  assert (Hsem : forall n, P n = true ->
            n <> [] /\ nolt n = true /\ nocrlf n = true /\ name_start n = true /\ no_snippet m n = true /\ not_lorem n = true).
  { intros n H. specialize (HP n H). unfold name_sem in HP. fold m in HP.
    repeat (apply andb_prop in HP; let H' := fresh in destruct HP as [HP H']).
    repeat split; try assumption. destruct n; discriminate. }
  assert (HP0 : forall n, P n = true -> n <> []) by (intros n H; apply (Hsem n H)).
  assert (HP1 : forall n, P n = true -> no_snippet m n = true) by (intros n H; apply (Hsem n H)).
  assert (HP2 : forall n, P n = true -> n <> [] /\ not_lorem n = true) by (intros n H; split; apply (Hsem n H)).
  set (env := mkCenv (mc_text m) (mc_variables m) (mc_href m)).
  set (forest := flat_map (unroll env []) root).
  assert (Hcv : convert env (mc_max_repeat m) root = Ok forest).
  { apply convert_enough; [exact Htx| |exact Hb]. apply forallb_forall. intros k Hk.
    rewrite forallb_forall in Hn. apply (inamed_clean P Pv), Hn, Hk. }
  assert (Hin : forallb (inode P Pv) forest = true).
  { unfold forest. rewrite forallb_flat_map. apply forallb_forall. intros k Hk. rewrite forallb_forall in Hn.
    apply (unroll_inamed env m P Pv HP0 k (Hn k Hk) [] None 0). }
  split; [|split; [exact Hin|]].
  - unfold expand_markup, markup_parse. fold m. unfold parse_abbr. rewrite Ht. fold m in Hp. rewrite Hp. fold env. rewrite Hcv. cbn [bind].
    rewrite walk_resolve_eq. rewrite (walk_list_inode m [] _ P Pv HP1 forest Hin). cbn [bind].
    rewrite (transform_list_inode m P Pv HP2 Hbem forest Hin). cbn [bind].
    rewrite (stringify_html _ _ _ Hsyn). reflexivity.
  - unfold forest, pnamesL. rewrite map_flat_map, flat_map_flat_map. apply flat_map_ext_Forall. apply Forall_forall.
    intros k Hk. rewrite forallb_forall in Hn. apply (unroll_inamed env m P Pv HP0 k (Hn k Hk) [] None 0).
Qed.

Lemma name_sem_clean x n : name_sem x n = true -> n <> [] /\ nolt n = true /\ nocrlf n = true /\ name_start n = true.
Proof.
  unfold name_sem. intros HP.
  repeat (apply andb_prop in HP; let H' := fresh in destruct HP as [HP H']).
  repeat split; try assumption. destruct n; discriminate.
Qed.

Theorem expand_tree_I (P Pv : str -> bool) x s toks root :
  (forall n, P n = true -> name_sem x n = true) ->
  (forall w, Pv w = true -> value_sem w = true) ->
  cfg_ok x = true -> mc_bem (xc_m x) = false ->
  tokenize s = TOk toks -> parse (mc_jsx (xc_m x)) toks = POk root ->
  forallb (inamed P Pv) root = true ->
  (total_list root <= budget_of (mc_max_repeat (xc_m x)))%Z ->
  exists st,
    expand_markup x s = Ok st /\
    nestT 0 (tags st) =
      map (fun p => (fst p, tag_name (xc_o x) (snd p)))
          (resolve_names (imp_model (xc_m x)) [] (flat_map (xshape [] 0) root)).
Proof.
  intros HP HPv Hc Hbem Ht Hp Hn Hb.
  destruct (expand_forest_I P Pv x s toks root HP Hc Hbem Ht Hp Hn Hb) as [He [Hin Hshape]].
  unfold cfg_ok in Hc. apply andb_prop in Hc. destruct Hc as [_ Hclean].
  set (m := xc_m x) in *.
  assert (HP3 : forall n, P n = true -> n <> [] /\ nolt n = true /\ nocrlf n = true /\ name_start n = true)
    by (intros n H; apply (name_sem_clean x), HP, H).
  assert (HPv1 : forall w, Pv w = true -> nolt w = true).
  { intros w H. specialize (HPv w H). unfold value_sem in HPv. apply andb_prop in HPv. apply HPv. }
  eexists. split; [exact He|].
  rewrite (format_nest_gen (xc_o x) _ Hclean).
  - rewrite Hshape, (resolve_forest m root). reflexivity.
  - intros n Hn'. apply in_map_iff in Hn'. destruct Hn' as [n0 [<- Hn0]].
    rewrite forallb_forall in Hin. apply (rnode_facts (xc_o x) m P Pv HP3 HPv1 n0 (Hin n0 Hn0) None).
Qed.
