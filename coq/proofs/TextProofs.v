(* C04 -- text payloads through the tokenizer: the literal scanner inside `{...}`. *)
From Coq Require Import ZArith List Bool Lia ZifyBool.
From Emmet Require Import lib.Base model.MarkupTokenizer proofs.TextSpec.
Local Open Scope N_scope.

(* ---------------------------------------------------------------- unfolding equation of [lit] *)
Lemma lit_cons quote attr es expr prev esc c r :
  lit quote attr es expr prev esc (c :: r) =
    let take e := let '(v, n, e') := lit quote attr es e (Some c) false r in (c :: v, S n, e') in
    if esc then take expr
    else if c =? c_bslash then
      let '(v, n, e') := lit quote attr es expr (Some c) true r in (v, S n, e')
    else
      let ctx := mkCtx 0 attr expr quote in
      let slash_special :=
        (c =? c_slash) && match quote with None => true | Some _ => false end
        && negb (truthy expr) && negb (truthy attr)
        && match prev with Some p => is_digit_py p | None => false end
        && peek_p is_digit_py r in
      if slash_special then take expr
      else if match quote with Some q => c =? q | None => false end
              || (c =? c_dollar) || is_allowed_operator c ctx then ([], O, expr)
      else if truthy es then
        if c =? c_lbrace then take (expr + 1)%Z
        else if c =? c_rbrace then
          if (es <? expr)%Z then take (expr - 1)%Z else ([], O, expr)
        else take expr
      else
        match quote with
        | None =>
            if negb (truthy attr) && negb (is_element_name c) then ([], O, expr)
            else if is_allowed_space c ctx || is_allowed_repeater c ctx || is_quote c
                    || match bracket_type c with Some _ => true | None => false end
            then ([], O, expr)
            else take expr
        | Some _ => take expr
        end.
Proof. reflexivity. Qed.

Lemma truthy_pos z : (0 < z)%Z -> truthy z = true.
Proof. intros H. unfold truthy. destruct (z =? 0)%Z eqn:E; [lia|reflexivity]. Qed.

(* no operator inside an expression *)
Lemma no_operator_in_expr c attr e q : truthy e = true -> is_allowed_operator c (mkCtx 0 attr e q) = false.
Proof.
  intros H. unfold is_allowed_operator. destruct (operator_type c); [|reflexivity].
  cbn [cquote cexpr]. destruct q; [reflexivity|]. rewrite H. reflexivity.
Qed.
(* no operator inside quotes *)
Lemma no_operator_in_quote c attr e q : is_allowed_operator c (mkCtx 0 attr e (Some q)) = false.
Proof. unfold is_allowed_operator. destruct (operator_type c); reflexivity. Qed.

(* ---------------------------------------------------------------- the literal scanner on a text payload.
   Inside `{`, at nesting depth [d] above the depth [es] at which the literal started, the scanner
   consumes the whole payload -- every operator, bracket, quote, `*`, white space -- up to the brace that
   closes the text, and yields the unescaped payload. *)
Lemma lit_text_aux : forall n T, (length T <= n)%nat -> forall d es prev attr rest,
  (0 < es)%Z -> bal d T = true ->
  lit None attr es (es + Z.of_nat d) prev false (T ++ c_rbrace :: rest) = (unescape T, length T, es).
Proof.
  induction n as [|n IH]; intros T Hlen d es prev attr rest Hes Hb.
  - destruct T; [|cbn [length] in Hlen; lia].
    cbn [bal] in Hb. apply Nat.eqb_eq in Hb. subst d.
    cbn [app unescape length]. rewrite lit_cons. cbv beta zeta.
    replace (c_rbrace =? c_bslash) with false by reflexivity.
    replace (c_rbrace =? c_slash) with false by reflexivity. cbn [andb].
    rewrite no_operator_in_expr by (apply truthy_pos; lia).
    replace (c_rbrace =? c_dollar) with false by reflexivity. cbn [orb].
    rewrite (truthy_pos es Hes).
    replace (c_rbrace =? c_lbrace) with false by reflexivity.
    replace (c_rbrace =? c_rbrace) with true by reflexivity.
    replace (es + Z.of_nat 0)%Z with es by lia.
    rewrite Z.ltb_irrefl. reflexivity.
  - destruct T as [|c r].
    { apply (IH [] (Nat.le_0_l _)); assumption. }
    cbn [length] in Hlen. cbn [bal] in Hb. cbn [app].
    rewrite lit_cons. cbv beta zeta.
    assert (Hexpr : truthy (es + Z.of_nat d) = true) by (apply truthy_pos; lia).
    destruct (c =? c_bslash) eqn:Ebs.
    + (* escape pair *)
      destruct r as [|c2 r']; [discriminate|].
      cbn [app]. rewrite lit_cons. cbv beta zeta.
      cbn [length] in Hlen.
      rewrite (IH r' ltac:(lia) d es (Some c2) attr rest Hes Hb).
      cbn [unescape]. rewrite Ebs. cbn [length]. reflexivity.
    + destruct (c =? c_dollar) eqn:Edl; [discriminate|].
      rewrite Hexpr. cbn [negb andb]. rewrite !andb_false_r. cbn [andb].
      rewrite no_operator_in_expr by exact Hexpr. cbn [orb].
      rewrite (truthy_pos es Hes).
      cbn [unescape]. rewrite Ebs. cbn [length].
      destruct (c =? c_lbrace) eqn:Elb.
      * replace (es + Z.of_nat d + 1)%Z with (es + Z.of_nat (S d))%Z by lia.
        rewrite (IH r ltac:(lia) (S d) es (Some c) attr rest Hes Hb). reflexivity.
      * destruct (c =? c_rbrace) eqn:Erb.
        -- destruct d as [|d']; [discriminate|].
           replace (es <? es + Z.of_nat (S d'))%Z with true by lia.
           replace (es + Z.of_nat (S d') - 1)%Z with (es + Z.of_nat d')%Z by lia.
           rewrite (IH r ltac:(lia) d' es (Some c) attr rest Hes Hb). reflexivity.
        -- rewrite (IH r ltac:(lia) d es (Some c) attr rest Hes Hb). reflexivity.
Qed.

Lemma lit_text T d es prev attr rest :
  (0 < es)%Z -> bal d T = true ->
  lit None attr es (es + Z.of_nat d) prev false (T ++ c_rbrace :: rest) = (unescape T, length T, es).
Proof. apply (lit_text_aux (length T)). lia. Qed.

(* ---------------------------------------------------------------- token-start alternatives that need `$`, `*` or white space *)
Lemma field_none ctx (c : N) (r : list N) : (c =? c_dollar) = false -> field ctx (c :: r) = CNone.
Proof. intros H. unfold field. destruct (truthy (cexpr ctx) || truthy (cattr ctx)); [|reflexivity].
  destruct r; [reflexivity|]. rewrite H. reflexivity. Qed.
Lemma rp_none (c : N) (r : list N) : (c =? c_dollar) = false -> repeater_placeholder (c :: r) = CNone.
Proof. intros H. unfold repeater_placeholder. destruct r; [reflexivity|]. rewrite H. reflexivity. Qed.
Lemma rn_none (c : N) (r : list N) : (c =? c_dollar) = false -> repeater_number (c :: r) = CNone.
Proof. intros H. unfold repeater_number. cbn [span]. rewrite N.eqb_sym, H. reflexivity. Qed.
Lemma repeater_none ctx (c : N) (r : list N) : is_allowed_repeater c ctx = false -> repeater ctx (c :: r) = CNone.
Proof. intros H. unfold repeater. rewrite H. reflexivity. Qed.
Lemma ws_none (c : N) (r : list N) : is_space c = false -> white_space (c :: r) = CNone.
Proof. intros H. unfold white_space. cbn [span]. rewrite H. reflexivity. Qed.

(* a token that starts with an ordinary character is decided by the literal scanner *)
Lemma consume_plain ctx prev (c : N) (r : list N) :
  (c =? c_dollar) = false -> is_space c = false -> is_allowed_repeater c ctx = false ->
  forall v n e, lit (cquote ctx) (cattr ctx) (Z.min (cexpr ctx) 1) (cexpr ctx) prev false (c :: r) = (v, S n, e) ->
  consume ctx prev (c :: r) = (CTok (TLiteral v) (S n), mkCtx (cgroup ctx) (cattr ctx) e (cquote ctx)).
Proof.
  intros Hd Hs Hr v n e Hl. unfold consume.
  rewrite (field_none ctx c r Hd); cbn [orelse]. rewrite (rp_none c r Hd); cbn [orelse].
  rewrite (rn_none c r Hd); cbn [orelse]. rewrite (repeater_none ctx c r Hr); cbn [orelse].
  rewrite (ws_none c r Hs). rewrite Hl. reflexivity.
Qed.

(* a bracket character that the literal scanner refuses becomes a Bracket token *)
Lemma consume_bracket ctx prev (c : N) (r : list N) b :
  (c =? c_dollar) = false -> is_space c = false -> is_allowed_repeater c ctx = false ->
  (exists e, lit (cquote ctx) (cattr ctx) (Z.min (cexpr ctx) 1) (cexpr ctx) prev false (c :: r) = ([], O, e)) ->
  operator_type c = None -> is_quote c = false -> bracket_type c = Some b ->
  consume ctx prev (c :: r) =
    (CTok (TBracket (is_open_bracket c) b) 1,
     let d := (if is_open_bracket c then 1 else -1)%Z in
     match b with
     | BGroup => mkCtx (cgroup ctx + d) (cattr ctx) (cexpr ctx) (cquote ctx)
     | BAttr => mkCtx (cgroup ctx) (cattr ctx + d) (cexpr ctx) (cquote ctx)
     | BExpr => mkCtx (cgroup ctx) (cattr ctx) (cexpr ctx + d) (cquote ctx)
     end).
Proof.
  intros Hd Hs Hr [e Hl] Ho Hq Hb. unfold consume.
  rewrite (field_none ctx c r Hd); cbn [orelse]. rewrite (rp_none c r Hd); cbn [orelse].
  rewrite (rn_none c r Hd); cbn [orelse]. rewrite (repeater_none ctx c r Hr); cbn [orelse].
  rewrite (ws_none c r Hs). rewrite Hl. unfold operator, quote, bracket. rewrite Ho, Hq, Hb. cbn [orelse]. reflexivity.
Qed.

(* ---------------------------------------------------------------- the main loop *)
Definition last_prev (prev : option char) (a : str) : option char :=
  match rev a with [] => prev | c :: _ => Some c end.

Definition tcons (l : list token) (r : tres) : tres :=
  match r with TOk l' => TOk (l ++ l') | TErr p => TErr p end.

Lemma last_prev_cons prev c a : last_prev prev (c :: a) = last_prev (Some c) a.
Proof.
  unfold last_prev. cbn [rev]. destruct (rev a) as [|x l] eqn:E; reflexivity.
Qed.

Lemma toks_skip : forall (a : list N) ctx prev pos (b : list N),
  toks (length a) ctx prev pos (a ++ b) = toks 0 ctx (last_prev prev a) (pos + length a) b.
Proof.
  induction a as [|c a IH]; intros ctx prev pos b.
  - cbn [length app]. rewrite Nat.add_0_r. reflexivity.
  - cbn [length app toks]. rewrite IH. rewrite last_prev_cons. f_equal. lia.
Qed.

(* one token: [a] is what it consumed *)
Lemma toks_token ctx prev pos (c : N) (a b : list N) k ctx' :
  consume ctx prev (c :: a ++ b) = (CTok k (S (length a)), ctx') ->
  toks 0 ctx prev pos (c :: a ++ b) =
    tcons [mkTok k pos (pos + S (length a))] (toks 0 ctx' (last_prev (Some c) a) (pos + S (length a)) b).
Proof.
  intros H. cbn [toks]. rewrite H. cbn [pred]. rewrite toks_skip.
  replace (S pos + length a)%nat with (pos + S (length a))%nat by lia.
  match goal with
  | |- match ?x with _ => _ end = tcons _ ?y => change y with x; destruct x; reflexivity
  end.
Qed.

(* ---------------------------------------------------------------- element names *)
Definition name_char (c : char) : Prop := is_element_name c = true.

Lemma assoc_N_in {A} (c : N) (l : list (N * A)) v : assoc_N c l = Some v -> In c (map fst l).
Proof.
  induction l as [|[k x] l IH]; cbn [assoc_N map fst In]; [discriminate|].
  destruct (c =? k) eqn:E; [apply N.eqb_eq in E; auto|auto].
Qed.

Lemma operators_not_names : forallb (fun k => negb (is_element_name k)) (map fst markup_operator_types) = true.
Proof. vm_compute. reflexivity. Qed.

Lemma name_not_operator c : name_char c -> operator_type c = None.
Proof.
  intros H. unfold operator_type. destruct (assoc_N c markup_operator_types) eqn:E; [|reflexivity].
  apply assoc_N_in in E. pose proof operators_not_names as F. rewrite forallb_forall in F.
  specialize (F c E). unfold name_char in H. rewrite H in F. discriminate.
Qed.

Ltac not_char H :=
  match goal with
  | |- (?c =? ?k) = false =>
      let E := fresh "E" in
      destruct (c =? k) eqn:E; [apply N.eqb_eq in E; subst c; vm_compute in H; discriminate|reflexivity]
  end.

Lemma name_char_facts c : name_char c ->
  (c =? c_bslash) = false /\ (c =? c_dollar) = false /\ (c =? c_slash) = false /\ is_space c = false /\
  (c =? c_star) = false /\ is_quote c = false /\ bracket_type c = None.
Proof.
  intros H. unfold name_char in H.
  assert (H1 : (c =? c_bslash) = false) by not_char H.
  assert (H2 : (c =? c_dollar) = false) by not_char H.
  assert (H3 : (c =? c_slash) = false) by not_char H.
  assert (H4 : (c =? c_star) = false) by not_char H.
  assert (H5 : (c =? c_space) = false) by not_char H.
  assert (H6 : (c =? c_tab) = false) by not_char H.
  assert (H7 : (c =? c_nbsp) = false) by not_char H.
  assert (H8 : (c =? c_nl) = false) by not_char H.
  assert (H9 : (c =? c_cr) = false) by not_char H.
  assert (H10 : (c =? c_dquote) = false) by not_char H.
  assert (H11 : (c =? c_squote) = false) by not_char H.
  assert (H12 : (c =? c_lparen) = false) by not_char H.
  assert (H13 : (c =? c_rparen) = false) by not_char H.
  assert (H14 : (c =? c_lbrack) = false) by not_char H.
  assert (H15 : (c =? c_rbrack) = false) by not_char H.
  assert (H16 : (c =? c_lbrace) = false) by not_char H.
  assert (H17 : (c =? c_rbrace) = false) by not_char H.
  unfold is_space, is_white_space, is_quote, bracket_type.
  rewrite H1, H2, H3, H4, H5, H6, H7, H8, H9, H10, H11, H12, H13, H14, H15, H16, H17.
  repeat split; reflexivity.
Qed.

Lemma lit_stops_at_lbrace prev rest : lit None 0 0 0 prev false (c_lbrace :: rest) = ([], O, 0%Z).
Proof. rewrite lit_cons. vm_compute. reflexivity. Qed.

(* the literal scanner on an element name followed by `{` *)
Lemma lit_name : forall name prev rest,
  Forall name_char name ->
  lit None 0 0 0 prev false (name ++ c_lbrace :: rest) = (name, length name, 0%Z).
Proof.
  induction name as [|c name IH]; intros prev rest HF.
  - apply lit_stops_at_lbrace.
  - inversion HF as [|x y Hc HF']; subst.
    destruct (name_char_facts c Hc) as [H1 [H2 [H3 [H4 [H5 [H6 H7]]]]]].
    cbn [app]. rewrite lit_cons. cbv beta zeta.
    rewrite H1, H3. cbn [andb].
    unfold is_allowed_operator. rewrite (name_not_operator c Hc). rewrite H2. cbn [orb].
    replace (truthy 0) with false by reflexivity. cbn [negb andb].
    unfold name_char in Hc. rewrite Hc. cbn [negb].
    unfold is_allowed_space, is_allowed_repeater. rewrite H4, H5, H6, H7. cbn [andb orb].
    rewrite IH by assumption. reflexivity.
Qed.

(* ---------------------------------------------------------------- tokens of `name{T}` *)
Definition ws_part (T : str) : str := firstn (span is_space T) T.
Definition body_part (T : str) : str := skipn (span is_space T) T.

(* the tokens a text payload is cut into: its leading white space (if any), then one literal *)
Definition text_tokens (pos : nat) (T : str) : list token :=
  (match ws_part T with [] => [] | W => [mkTok (TWhiteSpace W) pos (pos + length W)] end) ++
  (match body_part T with
   | [] => []
   | B => [mkTok (TLiteral (unescape B)) (pos + length (ws_part T)) (pos + length T)]
   end).

Lemma span_all (p : N -> bool) (l : list N) : Forall (fun c => p c = true) (firstn (span p l) l).
Proof. induction l as [|c l IH]; cbn [span]; [constructor|]. destruct (p c) eqn:E; cbn [firstn]; constructor; assumption. Qed.
Lemma span_stop (p : N -> bool) (l : list N) : match skipn (span p l) l with [] => True | x :: _ => p x = false end.
Proof. induction l as [|c l IH]; cbn [span]; [exact I|]. destruct (p c) eqn:E; cbn [skipn]; assumption. Qed.
Lemma span_len (p : N -> bool) (l : list N) : length (firstn (span p l) l) = span p l.
Proof. induction l as [|c l IH]; cbn [span]; [reflexivity|]. destruct (p c); cbn [firstn length]; [rewrite IH|]; reflexivity. Qed.
Lemma span_app_all (p : N -> bool) (a b : list N) :
  Forall (fun c => p c = true) a -> match b with [] => True | x :: _ => p x = false end ->
  span p (a ++ b) = length a.
Proof.
  intros Ha Hb. induction Ha as [|c a Hc Ha IH]; cbn [app span length].
  - destruct b as [|x b]; [reflexivity|]. cbn [span]. rewrite Hb. reflexivity.
  - rewrite Hc, IH. reflexivity.
Qed.

Lemma space_not_special c : is_space c = true ->
  (c =? c_dollar) = false /\ (c =? c_bslash) = false /\ (c =? c_lbrace) = false /\ (c =? c_rbrace) = false.
Proof.
  intros H. unfold is_space, is_white_space in H.
  repeat match type of H with
  | (_ || _) = true => apply orb_true_iff in H; destruct H as [H|H]
  end; apply N.eqb_eq in H; subst c; repeat split; reflexivity.
Qed.

Lemma no_repeater_in_expr c g a e q : truthy e = true -> is_allowed_repeater c (mkCtx g a e q) = false.
Proof. intros H. unfold is_allowed_repeater. cbn [cexpr cattr]. rewrite H. cbn [negb]. apply andb_false_r. Qed.

(* leading white space is one WhiteSpace token *)
Lemma toks_ws (w : N) (W X : list N) ctx prev pos :
  Forall (fun c => is_space c = true) (w :: W) ->
  match X with [] => True | x :: _ => is_space x = false end ->
  truthy (cexpr ctx) = true ->
  toks 0 ctx prev pos ((w :: W) ++ X) =
    tcons [mkTok (TWhiteSpace (w :: W)) pos (pos + length (w :: W))]
          (toks 0 ctx (last_prev prev (w :: W)) (pos + length (w :: W)) X).
Proof.
  intros HW HX He. cbn [app]. rewrite last_prev_cons. cbn [length].
  apply toks_token.
  inversion HW as [|x y Hw HW']; subst.
  destruct (space_not_special w Hw) as [Hd _].
  unfold consume.
  rewrite (field_none ctx w (W ++ X) Hd); cbn [orelse]. rewrite (rp_none w (W ++ X) Hd); cbn [orelse].
  rewrite (rn_none w (W ++ X) Hd); cbn [orelse].
  assert (Hr : is_allowed_repeater w ctx = false).
  { destruct ctx as [g a e q]. apply no_repeater_in_expr. exact He. }
  rewrite (repeater_none ctx w (W ++ X) Hr); cbn [orelse].
  unfold white_space.
  change (w :: W ++ X) with ((w :: W) ++ X).
  rewrite (span_app_all is_space (w :: W) X HW HX). cbn [length].
  rewrite firstn_app. cbn [length]. rewrite Nat.sub_diag. cbn [firstn].
  change (w :: firstn (length W) W) with (firstn (length (w :: W)) (w :: W)).
  rewrite firstn_all, app_nil_r. reflexivity.
Qed.

(* the rest of the payload is one Literal token holding the unescaped text *)
Lemma toks_body (b : N) (B rest : list N) g a prev pos :
  is_space b = false -> bal 0 (b :: B) = true ->
  toks 0 (mkCtx g a 1 None) prev pos ((b :: B) ++ c_rbrace :: rest) =
    tcons [mkTok (TLiteral (unescape (b :: B))) pos (pos + length (b :: B))]
          (toks 0 (mkCtx g a 1 None) (last_prev prev (b :: B)) (pos + length (b :: B)) (c_rbrace :: rest)).
Proof.
  intros Hs Hb. cbn [app]. rewrite last_prev_cons. cbn [length].
  apply toks_token.
  assert (Hd : (b =? c_dollar) = false).
  { cbn [bal] in Hb. destruct (b =? c_bslash) eqn:E1.
    - apply N.eqb_eq in E1. subst b. reflexivity.
    - destruct (b =? c_dollar); [discriminate|reflexivity]. }
  pose proof (lit_text (b :: B) 0 1 prev a rest ltac:(lia) Hb) as Hl.
  cbn [length app] in Hl. change (1 + Z.of_nat 0)%Z with 1%Z in Hl.
  rewrite (consume_plain (mkCtx g a 1 None) prev b (B ++ c_rbrace :: rest) Hd Hs
             (no_repeater_in_expr b g a 1 None eq_refl) _ _ _ Hl).
  reflexivity.
Qed.

Lemma bal_ws : forall W B d, Forall (fun c => is_space c = true) W -> bal d (W ++ B) = bal d B.
Proof.
  induction W as [|w W IH]; intros B d HW; [reflexivity|].
  inversion HW as [|x y Hw HW']; subst.
  destruct (space_not_special w Hw) as [H1 [H2 [H3 H4]]].
  cbn [app bal]. rewrite H1, H2, H3, H4. apply IH. assumption.
Qed.
Lemma unescape_ws : forall W B, Forall (fun c => is_space c = true) W -> unescape (W ++ B) = W ++ unescape B.
Proof.
  induction W as [|w W IH]; intros B HW; [reflexivity|].
  inversion HW as [|x y Hw HW']; subst.
  destruct (space_not_special w Hw) as [H1 [H2 [H3 H4]]].
  cbn [app unescape]. rewrite H2. rewrite IH by assumption. reflexivity.
Qed.

Lemma last_prev_app prev a b : last_prev prev (a ++ b) = last_prev (last_prev prev a) b.
Proof.
  unfold last_prev. rewrite rev_app_distr. destruct (rev b) as [|x l]; [|reflexivity].
  cbn [app]. reflexivity.
Qed.

Lemma tcons_nil r : tcons [] r = r.
Proof. destruct r; reflexivity. Qed.
Lemma tcons_app a b r : tcons (a ++ b) r = tcons a (tcons b r).
Proof. destruct r; cbn [tcons]; [rewrite app_assoc|]; reflexivity. Qed.

(* the whole payload, up to the brace that closes it *)
Lemma toks_text T rest g a prev pos :
  bal 0 T = true ->
  toks 0 (mkCtx g a 1 None) prev pos (T ++ c_rbrace :: rest) =
    tcons (text_tokens pos T)
          (toks 0 (mkCtx g a 1 None) (last_prev prev T) (pos + length T) (c_rbrace :: rest)).
Proof.
  intros Hb. unfold text_tokens.
  set (W := ws_part T). set (B := body_part T).
  assert (HW : Forall (fun c => is_space c = true) W) by apply span_all.
  assert (HB : match B with [] => True | x :: _ => is_space x = false end) by apply span_stop.
  assert (HT : W ++ B = T) by apply firstn_skipn.
  clearbody W B.
  rewrite <- HT in Hb. rewrite bal_ws in Hb by exact HW.
  rewrite <- HT at 1. rewrite <- app_assoc.
  assert (HlenT : length T = (length W + length B)%nat) by (rewrite <- HT, app_length; reflexivity).
  assert (Hprev : last_prev prev T = last_prev (last_prev prev W) B) by (rewrite <- HT; apply last_prev_app).
  rewrite Hprev, HlenT.
  destruct W as [|w W'].
  - cbn [app length]. rewrite Nat.add_0_r. unfold last_prev at 2. cbn [rev].
    destruct B as [|b B'].
    + cbn [app length]. rewrite Nat.add_0_r. symmetry. apply tcons_nil.
    + apply (toks_body b B' rest g a prev pos HB Hb).
  - etransitivity.
    { apply toks_ws; [exact HW| |reflexivity]. destruct B as [|b B']; [reflexivity|exact HB]. }
    destruct B as [|b B'].
    + cbn [app length]. rewrite Nat.add_0_r. reflexivity.
    + rewrite tcons_app. f_equal.
      etransitivity; [apply (toks_body b B' rest g a _ _ HB Hb)|].
      rewrite Nat.add_assoc. reflexivity.
Qed.

(* ---------------------------------------------------------------- tokenize (name ++ "{" ++ T ++ "}") *)
Definition name_ok (name : str) : Prop := name <> [] /\ Forall name_char name.

Definition text_abbr_tokens (name T : str) : list token :=
  let n := length name in
  [mkTok (TLiteral name) 0 n; mkTok (TBracket true BExpr) n (n + 1)]
  ++ text_tokens (n + 1) T
  ++ [mkTok (TBracket false BExpr) (n + 1 + length T) (n + 1 + length T + 1)].

Lemma lit_stops_at_rbrace prev a rest : lit None a 1 1 prev false (c_rbrace :: rest) = ([], O, 1%Z).
Proof. exact (lit_text [] 0 1 prev a rest ltac:(lia) eq_refl). Qed.

Theorem tokenize_text name T :
  name_ok name -> bal 0 T = true ->
  tokenize (name ++ c_lbrace :: T ++ [c_rbrace]) = TOk (text_abbr_tokens name T).
Proof.
  intros [Hne HF] Hb. unfold tokenize, text_abbr_tokens.
  destruct name as [|c name']; [congruence|].
  inversion HF as [|x y Hc HF']; subst.
  destruct (name_char_facts c Hc) as [H1 [H2 [H3 [H4 [H5 [H6 H7]]]]]].
  (* the name *)
  cbn [app]. etransitivity.
  { apply toks_token.
    apply (consume_plain ctx0 None c (name' ++ c_lbrace :: T ++ [c_rbrace]) H2 H4).
    - unfold is_allowed_repeater. rewrite H5. reflexivity.
    - exact (lit_name (c :: name') None (T ++ [c_rbrace]) HF). }
  cbn [cgroup cattr cquote ctx0].
  (* the opening brace *)
  etransitivity.
  { apply f_equal. apply (toks_token (mkCtx 0 0 0 None) _ _ c_lbrace [] (T ++ [c_rbrace])).
    apply consume_bracket; try reflexivity.
    eexists. apply lit_stops_at_lbrace. }
  cbn [is_open_bracket cgroup cattr cexpr cquote length].
  change (c_lbrace =? c_lbrace) with true. cbn [orb].
  change (0 + 1)%Z with 1%Z.
  (* the payload *)
  etransitivity.
  { apply f_equal. apply f_equal. apply (toks_text T [] 0 0 _ _ Hb). }
  (* the closing brace *)
  etransitivity.
  { apply f_equal. apply f_equal. apply f_equal.
    apply (toks_token (mkCtx 0 0 1 None) _ _ c_rbrace [] []).
    apply consume_bracket; try reflexivity.
    eexists. apply lit_stops_at_rbrace. }
  cbn [toks tcons app length].
  repeat (f_equal; try lia).
Qed.

(* ---------------------------------------------------------------- the literal scanner inside quotes.
   Between quotes (attribute values), outside any `{}`: everything up to the closing quote of the same
   kind is literal -- braces, brackets, operators, `*`, white space, the other quote -- with escapes
   resolved. *)
Lemma lit_quoted_aux : forall n T, (length T <= n)%nat -> forall q prev attr e rest,
  is_quote q = true -> qpayload q T = true ->
  lit (Some q) attr 0 e prev false (T ++ q :: rest) = (unescape T, length T, e).
Proof.
  induction n as [|n IH]; intros T Hlen q prev attr e rest Hqq Hq.
  - destruct T; [|cbn [length] in Hlen; lia].
    cbn [app unescape length]. rewrite lit_cons. cbv beta zeta.
    assert (Hb : (q =? c_bslash) = false).
    { unfold is_quote in Hqq. apply orb_true_iff in Hqq. destruct Hqq as [H|H]; apply N.eqb_eq in H; subst q; reflexivity. }
    rewrite Hb. cbn [andb]. rewrite !andb_false_r. rewrite N.eqb_refl. cbn [orb]. reflexivity.
  - destruct T as [|c r].
    { apply (IH [] (Nat.le_0_l _)); assumption. }
    cbn [length] in Hlen. cbn [qpayload] in Hq. cbn [app].
    rewrite lit_cons. cbv beta zeta.
    destruct (c =? c_bslash) eqn:Ebs.
    + destruct r as [|c2 r']; [discriminate|].
      cbn [app]. rewrite lit_cons. cbv beta zeta. cbn [length] in Hlen.
      rewrite (IH r' ltac:(lia) q (Some c2) attr e rest Hqq Hq).
      cbn [unescape]. rewrite Ebs. reflexivity.
    + destruct ((c =? c_dollar) || (c =? q)) eqn:Edq; [discriminate|].
      apply orb_false_iff in Edq. destruct Edq as [Ed Eq].
      cbn [andb]. rewrite !andb_false_r. rewrite Eq, Ed, no_operator_in_quote. cbn [orb].
      replace (truthy 0) with false by reflexivity.
      rewrite (IH r ltac:(lia) q (Some c) attr e rest Hqq Hq).
      cbn [unescape]. rewrite Ebs. reflexivity.
Qed.

Lemma lit_quoted T q prev attr e rest :
  is_quote q = true -> qpayload q T = true ->
  lit (Some q) attr 0 e prev false (T ++ q :: rest) = (unescape T, length T, e).
Proof. apply (lit_quoted_aux (length T)). lia. Qed.
