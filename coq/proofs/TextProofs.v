(* C04 -- text payloads through the tokenizer: the literal scanner inside `{...}`. *)
From Coq Require Import ZArith List Bool Lia ZifyBool.
From Emmet Require Import lib.Base model.MarkupTokenizer proofs.TextSpec.
Local Open Scope N_scope.

(* ---------------------------------------------------------------- unfolding equation of [lit] *)
Lemma lit_cons quote attr es expr prev esc c r :
  lit quote attr es expr prev esc (c :: r) =
    let take e := let '(v, n, e') := lit quote attr es e (Some c) false r in (c :: v, S n, e') in
    if esc then take expr
    else if c =? c_bslash then
      let '(v, n, e') := lit quote attr es expr (Some c) true r in (v, S n, e')
    else
      let ctx := mkCtx 0 attr expr quote in
      let slash_special :=
        (c =? c_slash) && match quote with None => true | Some _ => false end
        && negb (truthy expr) && negb (truthy attr)
        && match prev with Some p => is_digit_py p | None => false end
        && peek_p is_digit_py r in
      if slash_special then take expr
      else if match quote with Some q => c =? q | None => false end
              || (c =? c_dollar) || is_allowed_operator c ctx then ([], O, expr)
      else if truthy es then
        if c =? c_lbrace then take (expr + 1)%Z
        else if c =? c_rbrace then
          if (es <? expr)%Z then take (expr - 1)%Z else ([], O, expr)
        else take expr
      else
        match quote with
        | None =>
            if negb (truthy attr) && negb (is_element_name c) then ([], O, expr)
            else if is_allowed_space c ctx || is_allowed_repeater c ctx || is_quote c
                    || match bracket_type c with Some _ => true | None => false end
            then ([], O, expr)
            else take expr
        | Some _ => take expr
        end.
Proof. reflexivity. Qed.

Lemma truthy_pos z : (0 < z)%Z -> truthy z = true.
Proof. intros H. unfold truthy. destruct (z =? 0)%Z eqn:E; [lia|reflexivity]. Qed.

(* no operator inside an expression *)
Lemma no_operator_in_expr c attr e q : truthy e = true -> is_allowed_operator c (mkCtx 0 attr e q) = false.
Proof.
  intros H. unfold is_allowed_operator. destruct (operator_type c); [|reflexivity].
  cbn [cquote cexpr]. destruct q; [reflexivity|]. rewrite H. reflexivity.
Qed.
(* no operator inside quotes *)
Lemma no_operator_in_quote c attr e q : is_allowed_operator c (mkCtx 0 attr e (Some q)) = false.
Proof. unfold is_allowed_operator. destruct (operator_type c); reflexivity. Qed.

(* ---------------------------------------------------------------- the literal scanner on a text payload.
   Inside `{`, at nesting depth [d] above the depth [es] at which the literal started, the scanner
   consumes the whole payload -- every operator, bracket, quote, `*`, white space -- up to the brace that
   closes the text, and yields the unescaped payload. *)
Lemma lit_text_aux : forall n T, (length T <= n)%nat -> forall d es prev attr rest,
  (0 < es)%Z -> bal d T = true ->
  lit None attr es (es + Z.of_nat d) prev false (T ++ c_rbrace :: rest) = (unescape T, length T, es).
Proof.
  induction n as [|n IH]; intros T Hlen d es prev attr rest Hes Hb.
  - destruct T; [|cbn [length] in Hlen; lia].
    cbn [bal] in Hb. apply Nat.eqb_eq in Hb. subst d.
    cbn [app unescape length]. rewrite lit_cons. cbv beta zeta.
    replace (c_rbrace =? c_bslash) with false by reflexivity.
    replace (c_rbrace =? c_slash) with false by reflexivity. cbn [andb].
    rewrite no_operator_in_expr by (apply truthy_pos; lia).
    replace (c_rbrace =? c_dollar) with false by reflexivity. cbn [orb].
    rewrite (truthy_pos es Hes).
    replace (c_rbrace =? c_lbrace) with false by reflexivity.
    replace (c_rbrace =? c_rbrace) with true by reflexivity.
    replace (es + Z.of_nat 0)%Z with es by lia.
    rewrite Z.ltb_irrefl. reflexivity.
  - destruct T as [|c r].
    { apply (IH [] (Nat.le_0_l _)); assumption. }
    cbn [length] in Hlen. cbn [bal] in Hb. cbn [app].
    rewrite lit_cons. cbv beta zeta.
    assert (Hexpr : truthy (es + Z.of_nat d) = true) by (apply truthy_pos; lia).
    destruct (c =? c_bslash) eqn:Ebs.
    + (* escape pair *)
      destruct r as [|c2 r']; [discriminate|].
      cbn [app]. rewrite lit_cons. cbv beta zeta.
      cbn [length] in Hlen.
      rewrite (IH r' ltac:(lia) d es (Some c2) attr rest Hes Hb).
      cbn [unescape]. rewrite Ebs. cbn [length]. reflexivity.
    + destruct (c =? c_dollar) eqn:Edl; [discriminate|].
      rewrite Hexpr. cbn [negb andb]. rewrite !andb_false_r. cbn [andb].
      rewrite no_operator_in_expr by exact Hexpr. cbn [orb].
      rewrite (truthy_pos es Hes).
      cbn [unescape]. rewrite Ebs. cbn [length].
      destruct (c =? c_lbrace) eqn:Elb.
      * replace (es + Z.of_nat d + 1)%Z with (es + Z.of_nat (S d))%Z by lia.
        rewrite (IH r ltac:(lia) (S d) es (Some c) attr rest Hes Hb). reflexivity.
      * destruct (c =? c_rbrace) eqn:Erb.
        -- destruct d as [|d']; [discriminate|].
           replace (es <? es + Z.of_nat (S d'))%Z with true by lia.
           replace (es + Z.of_nat (S d') - 1)%Z with (es + Z.of_nat d')%Z by lia.
           rewrite (IH r ltac:(lia) d' es (Some c) attr rest Hes Hb). reflexivity.
        -- rewrite (IH r ltac:(lia) d es (Some c) attr rest Hes Hb). reflexivity.
Qed.

Lemma lit_text T d es prev attr rest :
  (0 < es)%Z -> bal d T = true ->
  lit None attr es (es + Z.of_nat d) prev false (T ++ c_rbrace :: rest) = (unescape T, length T, es).
Proof. apply (lit_text_aux (length T)). lia. Qed.
