(* C06, "typed in full, in ANY letter case": for all tables, a keyword listed by the property snippet
   the name selects, typed after `:` in any mix of upper and lower case, resolves to the listed keyword.
   Then, by a complete sweep of its side conditions, for the regenerated built-in table. *)
From Coq Require Import ZifyBool String PrimFloat.
From Emmet Require Import lib.Base lib.StyleLib gen.GenCssSnippets model.CssTokenizer model.CssParser model.Score
     model.Color model.CssSnippets model.CssResolve model.CssFormat run.StyleShow
     proofs.CssTokenizerProofs proofs.StyleMatchProofs proofs.StyleValueProofs proofs.StyleTokProofs
     proofs.StyleMultiProofs proofs.StyleSweep.
Local Open Scope nat_scope.

Definition word_ok (w : str) : Prop := StyleTokProofs.key_ok w.     (* non-empty, letters only *)

(* scanner + parser of  name ":" word *)
Lemma tokenize_name_colon_word key v :
  word_ok key -> word_ok v ->
  ctokenize false (key ++ c_colon :: v) =
  CTOk [mkCTok (CLiteral key) 0 (0 + length key);
        mkCTok (COperator c_colon) (0 + length key) (0 + length key + 1);
        mkCTok (CLiteral v) (0 + length key + 1) (0 + length key + 1 + length v)].
Proof.
  intros Hk Hv. unfold ctokenize.
  assert (Hc : cconsume (Nat.eqb 0 0 && negb false) (Nat.eqb 0 0) (key ++ c_colon :: v) = CTok (CLiteral key) (length key)).
  { apply cconsume_key; [exact Hk|reflexivity]. }
  rewrite (ctoks_round _ false 0 [] 0 _ _ _ Hc I). cbn [should_consume_dash_after].
  rewrite skipn_app_exact.
  rewrite (op_round _ _ _ c_colon) by (right; right; reflexivity).
  assert (Hc2 : cconsume (Nat.eqb 0 0 && negb false) (Nat.eqb (0 + length key + 1) 0) v = CTok (CLiteral v) (length v)).
  { pose proof (cconsume_key (Nat.eqb (0 + length key + 1) 0) v [] Hv eq_refl) as H. rewrite app_nil_r in H. exact H. }
  rewrite (ctoks_round _ false 0 _ _ v _ _ Hc2 I). cbn [should_consume_dash_after].
  rewrite skipn_all. reflexivity.
Qed.

Lemma parse_name_colon_word key v :
  word_ok key -> word_ok v ->
  css_parse false (key ++ c_colon :: v) =
  Ok [mkProp (Some key) [[VTok (CLiteral v) (Some (0 + length key + 1)) (Some (0 + length key + 1 + length v))]] false false].
Proof.
  intros Hk Hv. unfold css_parse. rewrite (tokenize_name_colon_word key v Hk Hv). reflexivity.
Qed.

(* the keyword lookup: any spelling with the same lower-case form finds the listed keyword *)
Lemma find_in_dict_any_case (kws : kwdict) kw tok v :
  v <> [] ->
  In kw (map fst kws) -> assoc_str kw kws = Some tok -> lower v = lower kw ->
  (forall x, In x (map fst kws) -> lower x = lower kw -> x = kw) ->
  find_in_dict v kws f_zero = Some tok.
Proof.
  intros Hv Hin Ha Hl Hu. unfold find_in_dict.
  rewrite (exact_key_wins_unique (fun k : str => k) v f_zero false (map fst kws) kw Hin (eq_sym Hl)).
  - destruct kw as [|c kw']; [destruct v; [contradiction|discriminate]|]. exact Ha.
  - intros x Hx Hlx. apply Hu; [exact Hx|]. rewrite Hlx. exact Hl.
Qed.

Theorem keyword_any_case cfg sn key key' prop value kws deps kw tok v :
  word_ok key -> word_ok v -> str_eqb key gradient_name = false -> c_context cfg = None ->
  find_best_match sn_key key sn (c_min_score cfg) true = Some (SnProp key' prop value kws deps) ->
  get_unmatched_part key key' 0 = [] ->
  In kw (map fst kws) -> assoc_str kw kws = Some tok -> lower v = lower kw ->
  (forall x, In x (map fst kws) -> lower x = lower kw -> x = kw) ->
  expand_with cfg sn (key ++ c_colon :: v) = Ok (kw_line cfg prop tok).
Proof.
  intros Hk Hv Hg Hc Hm Hu Hin Ha Hl Huniq.
  unfold expand_with, parse_with, is_value_scope. rewrite Hc, (parse_name_colon_word key v Hk Hv). cbn [bind map_res].
  unfold get_snippets_for_scope. rewrite Hc.
  unfold resolve_node.
  set (litv := VTok (CLiteral v) (Some (0 + length key + 1)) (Some (0 + length key + 1 + length v))).
  assert (Hgr : resolve_gradient cfg (mkProp (Some key) [[litv]] false false) = None).
  { unfold resolve_gradient, in_section_scope. rewrite Hc. cbn [pvalue pname]. rewrite Hg. reflexivity. }
  rewrite Hgr. unfold is_value_scope. rewrite Hc. cbn [pname pvalue pimportant]. cbv zeta. rewrite Hm. cbn [bind].
  unfold resolve_as_property. rewrite Hu. cbn [pvalue pimportant].
  assert (Hv0 : v <> []) by (destruct Hv as [Hv _]; exact Hv).
  assert (Hrk : resolve_keyword v cfg (Some (kws, deps)) f_zero = Some tok).
  { unfold resolve_keyword. rewrite (find_in_dict_any_case kws kw tok v Hv0 Hin Ha Hl Huniq). reflexivity. }
  unfold resolve_value_keywords. cbn [map]. subst litv. cbn [resolve_value_token]. rewrite Hrk.
  cbn [pname bind]. f_equal. unfold stringify, kw_line.
  set (node := resolve_numeric_value cfg (mkProp (Some prop) [[tok]] false true)).
  assert (Hs : psnippet node = true) by reflexivity.
  replace (if c_skip_unmatched cfg then filter (fun n => psnippet n || pimportant n) [node] else [node]) with [node]
    by (destruct (c_skip_unmatched cfg); [cbn [filter]; rewrite Hs; reflexivity|reflexivity]).
  cbn [stringify_from]. rewrite andb_false_r. cbn [app]. rewrite app_nil_r. reflexivity.
Qed.

(* ------------------------------------------------------------------ the built-in table: side conditions by sweep *)
Fixpoint distinct_lower (l : list str) : bool :=
  match l with
  | [] => true
  | x :: r => negb (existsb (fun y => str_eqb (lower y) (lower x)) r) && distinct_lower r
  end.

Lemma distinct_lower_ok : forall l, distinct_lower l = true ->
  forall x y, In x l -> In y l -> lower x = lower y -> x = y.
Proof.
  induction l as [|a l IH]; intros H x y Hx Hy E; [contradiction|].
  cbn [distinct_lower] in H. apply andb_true_iff in H. destruct H as [H1 H2]. apply negb_true_iff in H1.
  assert (Hno : forall z, In z l -> lower z <> lower a).
  { intros z Hz Ez. assert (existsb (fun y0 => str_eqb (lower y0) (lower a)) l = true).
    { apply existsb_exists. exists z. split; [exact Hz|]. rewrite Ez. apply str_eqb_refl. }
    congruence. }
  destruct Hx as [<-|Hx], Hy as [<-|Hy]; try reflexivity.
  - exfalso. apply (Hno y Hy). symmetry. exact E.
  - exfalso. apply (Hno x Hx). exact E.
  - apply IH; assumption.
Qed.

Definition key_keywords_ok (ms : float) (sn : list snippet) (k : str) : bool :=
  match find_best_match sn_key k sn ms true with
  | Some (SnProp key' _ _ kws _) =>
      str_eqb k gradient_name ||
      (match get_unmatched_part k key' 0 with [] => true | _ => false end && distinct_lower (map fst kws))
  | _ => true
  end.

Definition sweep_kw_any_with (oc : option sconfig) (r : res (list snippet)) : bool :=
  match oc, r with
  | Some cfg, Ok sn => forallb (key_keywords_ok (c_min_score cfg) sn) table_keys
  | _, _ => false
  end.

Lemma sweep_kw_any_true : sweep_kw_any_with cfg_plain builtin_converted = true.
Proof. vm_compute. reflexivity. Qed.

Lemma assoc_in {A} k (v : A) : forall l, assoc_str k l = Some v -> In k (map fst l).
Proof.
  induction l as [|[k2 v2] l IH]; cbn [assoc_str map fst]; [discriminate|].
  destruct (str_eqb_spec k k2) as [e|ne]; [intros _; left; symmetry; exact e|intros H; right; apply IH; exact H].
Qed.

Theorem builtin_keywords_any_case :
  forall cfg0 cfg sn,
    cfg_plain = Some cfg0 -> c_min_score cfg = c_min_score cfg0 -> c_context cfg = None ->
    convert_snippets css_snippets = Ok sn ->
    forall k key' prop value kws deps kw tok v,
      In k table_keys -> word_ok k -> str_eqb k gradient_name = false ->
      find_best_match sn_key k sn (c_min_score cfg) true = Some (SnProp key' prop value kws deps) ->
      assoc_str kw kws = Some tok ->                 (* kw is listed, tok is its entry *)
      word_ok v -> lower v = lower kw ->             (* any letter case of it *)
      expand_with cfg sn (k ++ c_colon :: v) = Ok (kw_line cfg prop tok).
Proof.
  intros cfg0 cfg sn Hc0 Hms Hc Hs k key' prop value kws deps kw tok v Hk Hw Hg Hm Ha Hv Hl.
  pose proof sweep_kw_any_true as S.
  rewrite builtin_converted_eq in Hs. rewrite Hc0, Hs in S. cbn [sweep_kw_any_with] in S.
  rewrite forallb_forall in S. specialize (S k Hk). unfold key_keywords_ok in S.
  rewrite <- Hms, Hm, Hg in S. cbn [orb] in S. apply andb_true_iff in S. destruct S as [S1 S2].
  apply (keyword_any_case cfg sn k key' prop value kws deps kw tok v); try assumption.
  - destruct (get_unmatched_part k key' 0); [reflexivity|discriminate].
  - apply (assoc_in kw tok kws Ha).
  - intros x Hx Hlx. apply (distinct_lower_ok _ S2); [exact Hx|apply (assoc_in kw tok kws Ha)|exact Hlx].
Qed.
