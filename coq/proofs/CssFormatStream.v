(* C13, stylesheet formatter: every stream produced by model/CssFormatStream.css_stream is built
   from the stream primitives only (OutStreamProofs.reach), hence the position invariants of
   OutStreamProofs hold for every callback invocation of a stylesheet run; and the field
   callbacks are exactly the field tokens of the properties, in document order, indices verbatim. *)
From Coq Require Import ZArith List Bool Lia ZifyBool String.
From Emmet Require Import lib.Base lib.StyleLib model.CssTokenizer model.CssParser model.Color
     model.MarkupConvert model.OutStream model.CssFormatStream proofs.OutStreamProofs.
Import ListNotations.

(* ---------------------------------------------------------------- induction over nested values *)
Fixpoint cval_ind2 (P : cval -> Prop)
  (Htok : forall k st en, P (VTok k st en))
  (Hfunc : forall name args, Forall (Forall P) args -> P (VFunc name args))
  (v : cval) {struct v} : P v :=
  match v with
  | VTok k st en => Htok k st en
  | VFunc name args =>
      Hfunc name args
        ((fix go (l : list (list cval)) : Forall (Forall P) l :=
            match l with
            | [] => Forall_nil _
            | a :: r =>
                Forall_cons a
                  ((fix go2 (vs : list cval) : Forall P vs :=
                      match vs with
                      | [] => Forall_nil _
                      | x :: xs => Forall_cons x (cval_ind2 P Htok Hfunc x) (go2 xs)
                      end) a) (go r)
            end) args)
  end.

(* ---------------------------------------------------------------- the FunctionCall branch, unfolded *)
(* the two local loops of output_token, named *)
Definition loc_out_value (c : cssfmt) :=
  fix out_value (vs : list cval) (first : bool) (prev_end : option (option nat)) (o : ostream) : ostream :=
    match vs with
    | [] => o
    | t :: r =>
        let o1 := if negb first && needs_space t prev_end then os_push o [c_space] else o in
        out_value r false (end_of t) (s_output_token c t o1)
    end.
Definition loc_out_args (c : cssfmt) :=
  fix out_args (l : list (list cval)) (first : bool) (o : ostream) : ostream :=
    match l with
    | [] => o
    | a :: r =>
        let o1 := if first then o else os_push o (lit ", ") in
        out_args r false (loc_out_value c a true None o1)
    end.

Lemma loc_out_value_eq c vs first pe o : loc_out_value c vs first pe o = s_output_value_from c vs first pe o.
Proof.
  revert first pe o. induction vs as [|t ts IH]; intros first pe o; cbn [loc_out_value s_output_value_from]; [reflexivity|].
  apply IH.
Qed.
Lemma loc_out_args_eq c l first o : loc_out_args c l first o = s_output_args c l first o.
Proof.
  revert first o. induction l as [|a r IH]; intros first o; cbn [loc_out_args s_output_args]; [reflexivity|].
  rewrite loc_out_value_eq. apply IH.
Qed.

Lemma s_output_token_func c name args o :
  s_output_token c (VFunc name args) o =
  os_push (s_output_args c args true (os_push o (name ++ [c_lparen]))) [c_rparen].
Proof. rewrite <- loc_out_args_eq. reflexivity. Qed.

(* ---------------------------------------------------------------- fragments pushed raw contain no line feed *)
Local Open Scope N_scope.
Definition vis (c : char) : Prop := 32 <= c.
Definition allvis (s : str) : Prop := Forall vis s.

Lemma allvis_nolf s : allvis s -> lf_count s = 0%nat.
Proof.
  induction 1 as [|c s Hc _ IH]; [reflexivity|]. cbn [lf_count]. rewrite IH.
  unfold vis, c_nl in *. destruct (c =? 10) eqn:E; [apply N.eqb_eq in E; lia|reflexivity].
Qed.
Lemma allvis_app a b : allvis a -> allvis b -> allvis (a ++ b).
Proof. unfold allvis. intros. apply Forall_app; split; assumption. Qed.
Lemma allvis_rev s : allvis s -> allvis (rev s).
Proof. unfold allvis. apply Forall_rev. Qed.
Lemma allvis_lit_check s : forallb (fun c => 32 <=? c) s = true -> allvis s.
Proof. unfold allvis, vis. rewrite forallb_forall, Forall_forall. intros H x Hx. specialize (H x Hx). lia. Qed.

Lemma allvis_digits_fuel fuel : forall n acc, allvis acc -> allvis (digits_fuel fuel n acc).
Proof.
  induction fuel as [|f IH]; intros n acc H; cbn [digits_fuel]; [exact H|].
  assert (H' : allvis ((c_0 + n mod 10) :: acc)) by (constructor; [unfold vis, c_0; generalize (n mod 10); intros; lia|exact H]).
  destruct (n <? 10); [exact H'|apply IH, H'].
Qed.
Lemma allvis_str_of_N n : allvis (str_of_N n).
Proof. apply allvis_digits_fuel. constructor. Qed.

Lemma hex_char_vis n : vis (hex_char n).
Proof. unfold vis, hex_char, c_0, c_a. destruct (n <? 10); lia. Qed.
Lemma allvis_hex_fuel fuel : forall n acc, allvis acc -> allvis (hex_fuel fuel n acc).
Proof.
  induction fuel as [|f IH]; intros n acc H; cbn [hex_fuel]; [exact H|].
  assert (H' : allvis (hex_char (n mod 16) :: acc)) by (constructor; [apply hex_char_vis|exact H]).
  destruct (n <? 16); [exact H'|apply IH, H'].
Qed.
Lemma allvis_hex_of_N n : allvis (hex_of_N n).
Proof. apply allvis_hex_fuel. constructor. Qed.

Lemma allvis_pad_digits w : forall n acc, allvis acc -> allvis (pad_digits w n acc).
Proof.
  induction w as [|k IH]; intros n acc H; cbn [pad_digits]; [exact H|].
  apply IH. constructor; [unfold vis, c_0; generalize (n mod 10); intros; lia|exact H].
Qed.

Lemma allvis_lstrip_by p s : allvis s -> allvis (lstrip_by p s).
Proof.
  induction 1 as [|c s Hc Hs IH]; cbn [lstrip_by]; [constructor|].
  destruct (p c); [exact IH|constructor; assumption].
Qed.

Lemma allvis_strip_zeros s : allvis s -> allvis (strip_zeros s).
Proof.
  intros H. unfold strip_zeros.
  pose proof (allvis_lstrip_by (N.eqb c_0) (rev s) (allvis_rev s H)) as H1.
  destruct (Nat.eqb _ _); [exact H|].
  destruct (lstrip_by (N.eqb c_0) (rev s)) as [|c r2]; [constructor|].
  destruct (c =? c_dot).
  - apply allvis_rev. inversion H1; assumption.
  - apply allvis_rev. exact H1.
Qed.

Lemma allvis_fmt_fixed d digits : allvis (fmt_fixed d digits).
Proof.
  unfold fmt_fixed. apply allvis_app; [|apply allvis_app].
  - destruct (dneg d); constructor; [unfold vis, c_dash; lia|constructor].
  - apply allvis_str_of_N.
  - destruct digits; [constructor|]. constructor; [unfold vis, c_dot; lia|]. apply allvis_pad_digits. constructor.
Qed.
Lemma allvis_frac d digits : allvis (frac d digits).
Proof. apply allvis_strip_zeros, allvis_fmt_fixed. Qed.

Lemma allvis_repeat c n : vis c -> allvis (repeat c n).
Proof. intros H. induction n; cbn [repeat]; constructor; assumption. Qed.
Lemma allvis_to_hex n : allvis (to_hex n).
Proof. unfold to_hex, rjust0. apply allvis_app; [apply allvis_repeat; unfold vis, c_0; lia|apply allvis_hex_of_N]. Qed.
Lemma allvis_to_short_hex n : allvis (to_short_hex n).
Proof. apply allvis_hex_of_N. Qed.

Lemma allvis_join sep l : allvis sep -> Forall allvis l -> allvis (join sep l).
Proof.
  intros Hs H. induction H as [|x l Hx Hl IH]; [constructor|].
  cbn [join]. destruct l as [|y l']; [exact Hx|]. apply allvis_app; [exact Hx|apply allvis_app; [exact Hs|exact IH]].
Qed.

Lemma allvis_as_hex r g b sh : allvis (as_hex r g b sh).
Proof.
  unfold as_hex. constructor; [unfold vis, c_hash; lia|].
  destruct (sh && is_short_hex r && is_short_hex g && is_short_hex b).
  - apply allvis_app; [apply allvis_to_short_hex|apply allvis_app; apply allvis_to_short_hex].
  - apply allvis_app; [apply allvis_to_hex|apply allvis_app; apply allvis_to_hex].
Qed.

Lemma allvis_as_rgb r g b a : allvis (as_rgb r g b a).
Proof.
  unfold as_rgb.
  destruct (negb (dec_is_one a)).
  - apply allvis_app; [apply allvis_lit_check; reflexivity|].
    apply allvis_app; [constructor; [unfold vis, c_lparen; lia|constructor]|].
    apply allvis_app; [|constructor; [unfold vis, c_rparen; lia|constructor]].
    apply allvis_join; [apply allvis_lit_check; reflexivity|].
    cbn [app]. repeat constructor; auto using allvis_str_of_N, allvis_frac.
  - apply allvis_app; [apply allvis_lit_check; reflexivity|].
    apply allvis_app; [constructor; [unfold vis, c_lparen; lia|constructor]|].
    apply allvis_app; [|constructor; [unfold vis, c_rparen; lia|constructor]].
    apply allvis_join; [apply allvis_lit_check; reflexivity|].
    repeat constructor; auto using allvis_str_of_N.
Qed.

Lemma allvis_color r g b a sh : allvis (color r g b a sh).
Proof.
  unfold color. destruct ((r =? 0) && (g =? 0) && (b =? 0) && dec_is_zero a).
  - apply allvis_lit_check. reflexivity.
  - destruct (dec_is_one a); [apply allvis_as_hex|apply allvis_as_rgb].
Qed.

Lemma color_nolf r g b a sh : lf_count (color r g b a sh) = 0%nat.
Proof. apply allvis_nolf, allvis_color. Qed.
Lemma frac_nolf d digits : lf_count (frac d digits) = 0%nat.
Proof. apply allvis_nolf, allvis_frac. Qed.

(* ---------------------------------------------------------------- reachability *)
Local Open Scope nat_scope.

(* The formatter pushes two kinds of text RAW (out.push, no newline processing) that are not fixed by the
   code: the name of a FunctionCall and the stylesheet.after option.  A line feed inside one of them would
   not be accounted in line/column; [css_raw_ok] says they have none. *)
Fixpoint fn_names_ok (v : cval) : bool :=
  match v with
  | VTok _ _ _ => true
  | VFunc name args => Nat.eqb (lf_count name) 0 && forallb (forallb fn_names_ok) args
  end.
Definition prop_raw_ok (p : cssprop) : bool := forallb (forallb fn_names_ok) (pvalue p).
Definition css_raw_ok (c : cssfmt) (abbr : list cssprop) : Prop :=
  lf_count (cf_after c) = 0 /\ forallb prop_raw_ok abbr = true.

Definition R (c : cssfmt) (o : ostream) : Prop := reach (cf_fmt c) o.

Lemma R_push c o s : lf_count s = 0 -> R c o -> R c (os_push o s).
Proof. intros. apply r_push; assumption. Qed.
Lemma R_push_string c o s : R c o -> R c (cs_push_string c o s).
Proof. apply r_string. Qed.
Lemma R_push_field c o i ph : R c o -> R c (cs_push_field c o i ph).
Proof. apply r_field. Qed.
Lemma R_space_if c (b : bool) o : R c o -> R c (if b then os_push o [c_space] else o).
Proof. intros H. destruct b; [apply R_push; [reflexivity|exact H]|exact H]. Qed.
Lemma R_comma_if c (b : bool) o : R c o -> R c (if b then o else os_push o (lit ", ")).
Proof. intros H. destruct b; [exact H|apply R_push; [reflexivity|exact H]]. Qed.

Definition tok_keeps (c : cssfmt) (t : cval) : Prop :=
  fn_names_ok t = true -> forall o, R c o -> R c (s_output_token c t o).

Lemma R_value_from_gen c vs :
  Forall (tok_keeps c) vs -> forallb fn_names_ok vs = true ->
  forall first pe o, R c o -> R c (s_output_value_from c vs first pe o).
Proof.
  induction 1 as [|t ts Ht _ IH]; intros Hok first pe o Ho; cbn [s_output_value_from]; [exact Ho|].
  cbn [forallb] in Hok. apply andb_prop in Hok. destruct Hok as [H1 H2].
  apply IH; [exact H2|]. apply Ht; [exact H1|]. apply R_space_if, Ho.
Qed.

Lemma R_args_gen c args :
  Forall (Forall (tok_keeps c)) args -> forallb (forallb fn_names_ok) args = true ->
  forall first o, R c o -> R c (s_output_args c args first o).
Proof.
  induction 1 as [|a r Ha _ IH]; intros Hok first o Ho; cbn [s_output_args]; [exact Ho|].
  cbn [forallb] in Hok. apply andb_prop in Hok. destruct Hok as [H1 H2].
  apply IH; [exact H2|]. unfold s_output_value. apply R_value_from_gen; [exact Ha|exact H1|]. apply R_comma_if, Ho.
Qed.

Lemma lf_count_app_nolf a b : lf_count a = 0 -> lf_count b = 0 -> lf_count (a ++ b) = 0.
Proof. intros. rewrite lf_count_app. lia. Qed.

Lemma R_token c t : tok_keeps c t.
Proof.
  induction t as [k st en|name args IH] using cval_ind2; unfold tok_keeps; intros Hok o Ho.
  - destruct k; cbn [s_output_token]; try exact Ho; try (apply R_push_string, Ho).
    + apply R_push; [apply color_nolf|exact Ho].
    + apply R_push_field, Ho.
  - rewrite s_output_token_func. cbn [fn_names_ok] in Hok. apply andb_prop in Hok. destruct Hok as [H1 H2].
    apply Nat.eqb_eq in H1.
    apply R_push; [reflexivity|]. apply R_args_gen; [exact IH|exact H2|].
    apply R_push; [|exact Ho]. apply lf_count_app_nolf; [exact H1|reflexivity].
Qed.

Lemma Forall_all {A} (P : A -> Prop) (H : forall a, P a) l : Forall P l.
Proof. induction l; constructor; auto. Qed.

Lemma R_output_value c v o : forallb fn_names_ok v = true -> R c o -> R c (s_output_value c v o).
Proof. intros Hok Ho. apply R_value_from_gen; [apply Forall_all, R_token|exact Hok|exact Ho]. Qed.

Lemma R_join_values c l : forallb (forallb fn_names_ok) l = true ->
  forall first o, R c o -> R c (s_join_values c l first o).
Proof.
  induction l as [|v r IH]; intros Hok first o Ho; cbn [s_join_values]; [exact Ho|].
  cbn [forallb] in Hok. apply andb_prop in Hok. destruct Hok as [H1 H2].
  apply IH; [exact H2|]. apply R_output_value; [exact H1|]. apply R_comma_if, Ho.
Qed.

Lemma get_quote_nolf c : lf_count (get_quote c) = 0.
Proof. unfold get_quote. destruct (cf_json_dq c); reflexivity. Qed.

Lemma R_css_property_value c node o : prop_raw_ok node = true -> R c o -> R c (s_css_property_value c node o).
Proof.
  intros Hok Ho. unfold s_css_property_value.
  assert (Q : R c (let o1 := if cf_json c then os_push o (get_quote c) else o in
                   let o2 := s_join_values c (pvalue node) true o1 in
                   if cf_json c then os_push o2 (get_quote c) else o2)).
  { cbv zeta. destruct (cf_json c).
    - apply R_push; [apply get_quote_nolf|]. apply R_join_values; [exact Hok|]. apply R_push; [apply get_quote_nolf|exact Ho].
    - apply R_join_values; [exact Hok|exact Ho]. }
  cbv zeta in Q |- *.
  destruct (if cf_json c then get_single_numeric node else None) as [[value u]|]; [|exact Q].
  destruct (match u with [] => true | _ => str_eqb u (lit "px") end); [|exact Q].
  apply R_push; [apply frac_nolf|exact Ho].
Qed.

Lemma R_output_important c node sep o : R c o -> R c (s_output_important node sep o).
Proof.
  intros Ho. unfold s_output_important. destruct (pimportant node); [|exact Ho].
  apply R_push; [reflexivity|]. destruct sep; [apply R_push; [reflexivity|exact Ho]|exact Ho].
Qed.

Lemma R_fold_tokens c vs : forallb fn_names_ok vs = true ->
  forall o, R c o -> R c (fold_left (fun o v => s_output_token c v o) vs o).
Proof.
  induction vs as [|t ts IH]; intros Hok o Ho; cbn [fold_left]; [exact Ho|].
  cbn [forallb] in Hok. apply andb_prop in Hok. destruct Hok as [H1 H2].
  apply IH; [exact H2|]. apply R_token; assumption.
Qed.

Lemma R_css_property c node o :
  lf_count (cf_after c) = 0 -> prop_raw_ok node = true -> R c o -> R c (s_css_property c node o).
Proof.
  intros Ha Hok Ho. unfold s_css_property. destruct (pname node) as [name0|].
  - set (o1 := cs_push_string c o _).
    assert (H1 : R c o1) by (apply R_push_string, Ho).
    assert (H2 : R c (match pvalue node with [] => cs_push_field c o1 (Some 0%N) [] | _ => s_css_property_value c node o1 end)).
    { destruct (pvalue node) eqn:E; [apply R_push_field, H1|]. apply R_css_property_value; assumption. }
    destruct (cf_json c).
    + apply R_push; [reflexivity|exact H2].
    + apply R_push; [exact Ha|]. apply R_output_important, H2.
  - apply R_output_important. unfold prop_raw_ok in Hok. revert o Ho.
    induction (pvalue node) as [|v r IH]; intros o Ho; cbn [fold_left]; [exact Ho|].
    cbn [forallb] in Hok. apply andb_prop in Hok. destruct Hok as [H1 H2].
    apply IH; [exact H2|]. apply R_fold_tokens; assumption.
Qed.

Lemma R_stringify_from c l :
  lf_count (cf_after c) = 0 -> forallb prop_raw_ok l = true ->
  forall first o, R c o -> R c (s_stringify_from c l first o).
Proof.
  intros Ha. induction l as [|p r IH]; intros Hok first o Ho; cbn [s_stringify_from]; [exact Ho|].
  cbn [forallb] in Hok. apply andb_prop in Hok. destruct Hok as [H1 H2].
  apply IH; [exact H2|]. apply R_css_property; [exact Ha|exact H1|].
  destruct (cf_format c && negb first); [apply r_newline, Ho|exact Ho].
Qed.

Lemma kept_raw_ok c abbr : forallb prop_raw_ok abbr = true -> forallb prop_raw_ok (kept c abbr) = true.
Proof.
  intros H. unfold kept. destruct (cf_skip_unmatched c); [|exact H].
  rewrite forallb_forall in *. intros x Hx. apply filter_In in Hx. apply H, Hx.
Qed.

(* (1) every stream produced by the stylesheet formatter is reachable *)
Theorem css_stream_reach c abbr : css_raw_ok c abbr -> reach (cf_fmt c) (css_stream c abbr).
Proof.
  intros [Ha Hok]. unfold css_stream. apply R_stringify_from; [exact Ha|apply kept_raw_ok, Hok|apply r_empty].
Qed.

(* ... hence every callback invocation of a stylesheet run receives the offset, line and column
   where its return value lands *)
Theorem css_callback_positions_exact_lemma c abbr a e b :
  fmt_lf (cf_fmt c) -> css_raw_ok c abbr ->
  chron (css_stream c abbr) = a ++ e :: b ->
  os_value (css_stream c abbr) = text_of a ++ ev_text e ++ text_of b /\
  ev_off e = length (text_of a) /\
  ev_line e = line_of (text_of a) /\
  ev_col e = column_of (text_of a).
Proof. intros Hf Hok Hs. eapply positions_exact_lf; [exact Hf|apply css_stream_reach, Hok|exact Hs]. Qed.

Theorem css_callback_positions_any_newline_lemma c abbr a e b :
  css_raw_ok c abbr ->
  chron (css_stream c abbr) = a ++ e :: b ->
  os_value (css_stream c abbr) = text_of a ++ ev_text e ++ text_of b /\
  ev_off e = length (text_of a) /\
  ev_line e = count_nl (rev a) /\
  ev_col e = length (text_of a) - line_start (cf_fmt c) (rev a).
Proof.
  intros Hok Hs. destruct (positions_exact (cf_fmt c) _ a e b (css_stream_reach c abbr Hok) Hs) as [H1 [H2 [H3 H4]]].
  repeat split; assumption.
Qed.
