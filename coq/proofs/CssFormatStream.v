(* C13, stylesheet formatter: every stream produced by model/CssFormatStream.css_stream is built
   from the stream primitives only (OutStreamProofs.reach), hence the position invariants of
   OutStreamProofs hold for every callback invocation of a stylesheet run; and the field
   callbacks are exactly the field tokens of the properties, in document order, indices verbatim. *)
From Coq Require Import ZArith List Bool Lia ZifyBool String.
From Emmet Require Import lib.Base lib.StyleLib model.CssTokenizer model.CssParser model.Color
     model.MarkupConvert model.OutStream model.CssFormatStream proofs.OutStreamProofs.
Import ListNotations.

(* ---------------------------------------------------------------- induction over nested values *)
Fixpoint cval_ind2 (P : cval -> Prop)
  (Htok : forall k st en, P (VTok k st en))
  (Hfunc : forall name args, Forall (Forall P) args -> P (VFunc name args))
  (v : cval) {struct v} : P v :=
  match v with
  | VTok k st en => Htok k st en
  | VFunc name args =>
      Hfunc name args
        ((fix go (l : list (list cval)) : Forall (Forall P) l :=
            match l with
            | [] => Forall_nil _
            | a :: r =>
                Forall_cons a
                  ((fix go2 (vs : list cval) : Forall P vs :=
                      match vs with
                      | [] => Forall_nil _
                      | x :: xs => Forall_cons x (cval_ind2 P Htok Hfunc x) (go2 xs)
                      end) a) (go r)
            end) args)
  end.

(* ---------------------------------------------------------------- the FunctionCall branch, unfolded *)
(* the two local loops of output_token, named *)
Definition loc_out_value (c : cssfmt) :=
  fix out_value (vs : list cval) (first : bool) (prev_end : option (option nat)) (o : ostream) : ostream :=
    match vs with
    | [] => o
    | t :: r =>
        let o1 := if negb first && needs_space t prev_end then os_push o [c_space] else o in
        out_value r false (end_of t) (s_output_token c t o1)
    end.
Definition loc_out_args (c : cssfmt) :=
  fix out_args (l : list (list cval)) (first : bool) (o : ostream) : ostream :=
    match l with
    | [] => o
    | a :: r =>
        let o1 := if first then o else os_push o (lit ", ") in
        out_args r false (loc_out_value c a true None o1)
    end.

Lemma loc_out_value_eq c vs first pe o : loc_out_value c vs first pe o = s_output_value_from c vs first pe o.
Proof.
  revert first pe o. induction vs as [|t ts IH]; intros first pe o; cbn [loc_out_value s_output_value_from]; [reflexivity|].
  apply IH.
Qed.
Lemma loc_out_args_eq c l first o : loc_out_args c l first o = s_output_args c l first o.
Proof.
  revert first o. induction l as [|a r IH]; intros first o; cbn [loc_out_args s_output_args]; [reflexivity|].
  rewrite loc_out_value_eq. apply IH.
Qed.

Lemma s_output_token_func c name args o :
  s_output_token c (VFunc name args) o =
  os_push (s_output_args c args true (os_push o (name ++ [c_lparen]))) [c_rparen].
Proof. rewrite <- loc_out_args_eq. reflexivity. Qed.

(* ---------------------------------------------------------------- fragments pushed raw contain no line feed *)
Local Open Scope N_scope.
Definition vis (c : char) : Prop := 32 <= c.
Definition allvis (s : str) : Prop := Forall vis s.

Lemma allvis_nolf s : allvis s -> lf_count s = 0%nat.
Proof.
  induction 1 as [|c s Hc _ IH]; [reflexivity|]. cbn [lf_count]. rewrite IH.
  unfold vis, c_nl in *. destruct (c =? 10) eqn:E; [apply N.eqb_eq in E; lia|reflexivity].
Qed.
Lemma allvis_app a b : allvis a -> allvis b -> allvis (a ++ b).
Proof. unfold allvis. intros. apply Forall_app; split; assumption. Qed.
Lemma allvis_rev s : allvis s -> allvis (rev s).
Proof. unfold allvis. apply Forall_rev. Qed.
Lemma allvis_lit_check s : forallb (fun c => 32 <=? c) s = true -> allvis s.
Proof. unfold allvis, vis. rewrite forallb_forall, Forall_forall. intros H x Hx. specialize (H x Hx). lia. Qed.

Lemma allvis_digits_fuel fuel : forall n acc, allvis acc -> allvis (digits_fuel fuel n acc).
Proof.
  induction fuel as [|f IH]; intros n acc H; cbn [digits_fuel]; [exact H|].
  assert (H' : allvis ((c_0 + n mod 10) :: acc)) by (constructor; [unfold vis, c_0; generalize (n mod 10); intros; lia|exact H]).
  destruct (n <? 10); [exact H'|apply IH, H'].
Qed.
Lemma allvis_str_of_N n : allvis (str_of_N n).
Proof. apply allvis_digits_fuel. constructor. Qed.

Lemma hex_char_vis n : vis (hex_char n).
Proof. unfold vis, hex_char, c_0, c_a. destruct (n <? 10); lia. Qed.
Lemma allvis_hex_fuel fuel : forall n acc, allvis acc -> allvis (hex_fuel fuel n acc).
Proof.
  induction fuel as [|f IH]; intros n acc H; cbn [hex_fuel]; [exact H|].
  assert (H' : allvis (hex_char (n mod 16) :: acc)) by (constructor; [apply hex_char_vis|exact H]).
  destruct (n <? 16); [exact H'|apply IH, H'].
Qed.
Lemma allvis_hex_of_N n : allvis (hex_of_N n).
Proof. apply allvis_hex_fuel. constructor. Qed.

Lemma allvis_pad_digits w : forall n acc, allvis acc -> allvis (pad_digits w n acc).
Proof.
  induction w as [|k IH]; intros n acc H; cbn [pad_digits]; [exact H|].
  apply IH. constructor; [unfold vis, c_0; generalize (n mod 10); intros; lia|exact H].
Qed.

Lemma allvis_lstrip_by p s : allvis s -> allvis (lstrip_by p s).
Proof.
  induction 1 as [|c s Hc Hs IH]; cbn [lstrip_by]; [constructor|].
  destruct (p c); [exact IH|constructor; assumption].
Qed.

Lemma allvis_strip_zeros s : allvis s -> allvis (strip_zeros s).
Proof.
  intros H. unfold strip_zeros.
  pose proof (allvis_lstrip_by (N.eqb c_0) (rev s) (allvis_rev s H)) as H1.
  destruct (Nat.eqb _ _); [exact H|].
  destruct (lstrip_by (N.eqb c_0) (rev s)) as [|c r2]; [constructor|].
  destruct (c =? c_dot).
  - apply allvis_rev. inversion H1; assumption.
  - apply allvis_rev. exact H1.
Qed.

Lemma allvis_fmt_fixed d digits : allvis (fmt_fixed d digits).
Proof.
  unfold fmt_fixed. apply allvis_app; [|apply allvis_app].
  - destruct (dneg d); constructor; [unfold vis, c_dash; lia|constructor].
  - apply allvis_str_of_N.
  - destruct digits; [constructor|]. constructor; [unfold vis, c_dot; lia|]. apply allvis_pad_digits. constructor.
Qed.
Lemma allvis_frac d digits : allvis (frac d digits).
Proof. apply allvis_strip_zeros, allvis_fmt_fixed. Qed.

Lemma allvis_repeat c n : vis c -> allvis (repeat c n).
Proof. intros H. induction n; cbn [repeat]; constructor; assumption. Qed.
Lemma allvis_to_hex n : allvis (to_hex n).
Proof. unfold to_hex, rjust0. apply allvis_app; [apply allvis_repeat; unfold vis, c_0; lia|apply allvis_hex_of_N]. Qed.
Lemma allvis_to_short_hex n : allvis (to_short_hex n).
Proof. apply allvis_hex_of_N. Qed.

Lemma allvis_join sep l : allvis sep -> Forall allvis l -> allvis (join sep l).
Proof.
  intros Hs H. induction H as [|x l Hx Hl IH]; [constructor|].
  cbn [join]. destruct l as [|y l']; [exact Hx|]. apply allvis_app; [exact Hx|apply allvis_app; [exact Hs|exact IH]].
Qed.

Lemma allvis_as_hex r g b sh : allvis (as_hex r g b sh).
Proof.
  unfold as_hex. constructor; [unfold vis, c_hash; lia|].
  destruct (sh && is_short_hex r && is_short_hex g && is_short_hex b).
  - apply allvis_app; [apply allvis_to_short_hex|apply allvis_app; apply allvis_to_short_hex].
  - apply allvis_app; [apply allvis_to_hex|apply allvis_app; apply allvis_to_hex].
Qed.

Lemma allvis_as_rgb r g b a : allvis (as_rgb r g b a).
Proof.
  unfold as_rgb.
  destruct (negb (dec_is_one a)).
  - apply allvis_app; [apply allvis_lit_check; reflexivity|].
    apply allvis_app; [constructor; [unfold vis, c_lparen; lia|constructor]|].
    apply allvis_app; [|constructor; [unfold vis, c_rparen; lia|constructor]].
    apply allvis_join; [apply allvis_lit_check; reflexivity|].
    cbn [app]. repeat constructor; auto using allvis_str_of_N, allvis_frac.
  - apply allvis_app; [apply allvis_lit_check; reflexivity|].
    apply allvis_app; [constructor; [unfold vis, c_lparen; lia|constructor]|].
    apply allvis_app; [|constructor; [unfold vis, c_rparen; lia|constructor]].
    apply allvis_join; [apply allvis_lit_check; reflexivity|].
    repeat constructor; auto using allvis_str_of_N.
Qed.

Lemma allvis_color r g b a sh : allvis (color r g b a sh).
Proof.
  unfold color. destruct ((r =? 0) && (g =? 0) && (b =? 0) && dec_is_zero a).
  - apply allvis_lit_check. reflexivity.
  - destruct (dec_is_one a); [apply allvis_as_hex|apply allvis_as_rgb].
Qed.

Lemma color_nolf r g b a sh : lf_count (color r g b a sh) = 0%nat.
Proof. apply allvis_nolf, allvis_color. Qed.
Lemma frac_nolf d digits : lf_count (frac d digits) = 0%nat.
Proof. apply allvis_nolf, allvis_frac. Qed.

(* ---------------------------------------------------------------- what the formatter preserves *)
Local Open Scope nat_scope.

(* The formatter pushes two kinds of text RAW (out.push, no newline processing) that are not fixed by the
   code: the name of a FunctionCall (followed by "(") and the stylesheet.after option.  [names_ok ok v] says
   every such name of [v] satisfies [ok]. *)
Fixpoint names_ok (ok : str -> Prop) (v : cval) : Prop :=
  match v with
  | VTok _ _ _ => True
  | VFunc name args =>
      ok (name ++ [c_lparen]) /\
      (fix go (l : list (list cval)) : Prop :=
         match l with
         | [] => True
         | a :: r => (fix go2 (vs : list cval) : Prop :=
                        match vs with [] => True | x :: xs => names_ok ok x /\ go2 xs end) a /\ go r
         end) args
  end.
Lemma names_ok_func ok name args :
  names_ok ok (VFunc name args) <-> ok (name ++ [c_lparen]) /\ Forall (Forall (names_ok ok)) args.
Proof.
  cbn [names_ok]. apply and_iff_compat_l.
  induction args as [|a r IH]; [split; [constructor|exact (fun _ => I)]|].
  rewrite Forall_cons_iff, <- IH. apply and_iff_compat_r.
  induction a as [|x xs IHa]; [split; [constructor|exact (fun _ => I)]|].
  rewrite Forall_cons_iff, <- IHa. reflexivity.
Qed.
Definition prop_names_ok (ok : str -> Prop) (p : cssprop) : Prop := Forall (Forall (names_ok ok)) (pvalue p).

Lemma Forall_all {A} (P : A -> Prop) (H : forall a, P a) l : Forall P l.
Proof. induction l; constructor; auto. Qed.
Lemma lf_count_app_nolf a b : lf_count a = 0 -> lf_count b = 0 -> lf_count (a ++ b) = 0.
Proof. intros. rewrite lf_count_app. lia. Qed.
Lemma get_quote_nolf c : lf_count (get_quote c) = 0.
Proof. unfold get_quote. destruct (cf_json_dq c); reflexivity. Qed.

(* Any property [Inv] of streams that the stream operations preserve -- raw pushes only for fragments
   satisfying [ok], where [ok] holds at least for every fragment without a line feed -- is preserved by
   every function of the formatter, provided the function names and stylesheet.after satisfy [ok]. *)
Section Keeps.
  Variable c : cssfmt.
  Variable Inv : ostream -> Prop.
  Variable ok : str -> Prop.
  Hypothesis Hpush : forall o s, ok s -> Inv o -> Inv (os_push o s).
  Hypothesis Hstring : forall o s, Inv o -> Inv (os_push_string (cf_fmt c) o s).
  Hypothesis Hfield : forall o i ph, Inv o -> Inv (os_push_field o i ph).
  Hypothesis Hnewline : forall o ind, Inv o -> Inv (os_push_newline (cf_fmt c) o ind).
  Hypothesis Hnolf : forall s, lf_count s = 0 -> ok s.

  Lemma K_space_if (b : bool) o : Inv o -> Inv (if b then os_push o [c_space] else o).
  Proof. intros H. destruct b; [apply Hpush; [apply Hnolf; reflexivity|exact H]|exact H]. Qed.
  Lemma K_comma_if (b : bool) o : Inv o -> Inv (if b then o else os_push o (lit ", ")).
  Proof. intros H. destruct b; [exact H|apply Hpush; [apply Hnolf; reflexivity|exact H]]. Qed.

  Definition tok_keeps (t : cval) : Prop := names_ok ok t -> forall o, Inv o -> Inv (s_output_token c t o).

  Lemma K_value_from_gen vs :
    Forall tok_keeps vs -> Forall (names_ok ok) vs ->
    forall first pe o, Inv o -> Inv (s_output_value_from c vs first pe o).
  Proof.
    induction 1 as [|t ts Ht _ IH]; intros Hok first pe o Ho; cbn [s_output_value_from]; [exact Ho|].
    inversion Hok as [|? ? H1 H2]; subst.
    apply IH; [exact H2|]. apply Ht; [exact H1|]. apply K_space_if, Ho.
  Qed.

  Lemma K_args_gen args :
    Forall (Forall tok_keeps) args -> Forall (Forall (names_ok ok)) args ->
    forall first o, Inv o -> Inv (s_output_args c args first o).
  Proof.
    induction 1 as [|a r Ha _ IH]; intros Hok first o Ho; cbn [s_output_args]; [exact Ho|].
    inversion Hok as [|? ? H1 H2]; subst.
    apply IH; [exact H2|]. unfold s_output_value. apply K_value_from_gen; [exact Ha|exact H1|]. apply K_comma_if, Ho.
  Qed.

  Lemma K_token t : tok_keeps t.
  Proof.
    induction t as [k st en|name args IH] using cval_ind2; unfold tok_keeps; intros Hok o Ho.
    - destruct k; cbn [s_output_token]; try exact Ho; try (apply Hstring, Ho).
      + apply Hpush; [apply Hnolf, color_nolf|exact Ho].
      + apply Hfield, Ho.
    - rewrite s_output_token_func. apply names_ok_func in Hok. destruct Hok as [H1 H2].
      apply Hpush; [apply Hnolf; reflexivity|]. apply K_args_gen; [exact IH|exact H2|].
      apply Hpush; [exact H1|exact Ho].
  Qed.

  Lemma K_output_value v o : Forall (names_ok ok) v -> Inv o -> Inv (s_output_value c v o).
  Proof. intros Hok Ho. apply K_value_from_gen; [apply Forall_all, K_token|exact Hok|exact Ho]. Qed.

  Lemma K_join_values l : Forall (Forall (names_ok ok)) l ->
    forall first o, Inv o -> Inv (s_join_values c l first o).
  Proof.
    induction 1 as [|v r H1 _ IH]; intros first o Ho; cbn [s_join_values]; [exact Ho|].
    apply IH. apply K_output_value; [exact H1|]. apply K_comma_if, Ho.
  Qed.

  Lemma K_css_property_value node o : prop_names_ok ok node -> Inv o -> Inv (s_css_property_value c node o).
  Proof.
    intros Hok Ho. unfold s_css_property_value.
    assert (Q : Inv (let o1 := if cf_json c then os_push o (get_quote c) else o in
                     let o2 := s_join_values c (pvalue node) true o1 in
                     if cf_json c then os_push o2 (get_quote c) else o2)).
    { cbv zeta. destruct (cf_json c).
      - apply Hpush; [apply Hnolf, get_quote_nolf|]. apply K_join_values; [exact Hok|].
        apply Hpush; [apply Hnolf, get_quote_nolf|exact Ho].
      - apply K_join_values; [exact Hok|exact Ho]. }
    cbv zeta in Q |- *.
    destruct (if cf_json c then get_single_numeric node else None) as [[value u]|]; [|exact Q].
    destruct (match u with [] => true | _ => str_eqb u (lit "px") end); [|exact Q].
    apply Hpush; [apply Hnolf, frac_nolf|exact Ho].
  Qed.

  Lemma K_output_important node sep o : Inv o -> Inv (s_output_important node sep o).
  Proof.
    intros Ho. unfold s_output_important. destruct (pimportant node); [|exact Ho].
    apply Hpush; [apply Hnolf; reflexivity|]. destruct sep; [apply Hpush; [apply Hnolf; reflexivity|exact Ho]|exact Ho].
  Qed.

  Lemma K_fold_tokens vs : Forall (names_ok ok) vs ->
    forall o, Inv o -> Inv (fold_left (fun o v => s_output_token c v o) vs o).
  Proof.
    induction 1 as [|t ts H1 _ IH]; intros o Ho; cbn [fold_left]; [exact Ho|].
    apply IH. apply K_token; assumption.
  Qed.

  Lemma K_css_property node o : ok (cf_after c) -> prop_names_ok ok node -> Inv o -> Inv (s_css_property c node o).
  Proof.
    intros Ha Hok Ho. unfold s_css_property. destruct (pname node) as [name0|].
    - set (o1 := cs_push_string c o _).
      assert (H1 : Inv o1) by (apply Hstring, Ho).
      assert (H2 : Inv (match pvalue node with [] => cs_push_field c o1 (Some 0%N) [] | _ => s_css_property_value c node o1 end)).
      { destruct (pvalue node) eqn:E; [apply Hfield, H1|]. apply K_css_property_value; assumption. }
      destruct (cf_json c).
      + apply Hpush; [apply Hnolf; reflexivity|exact H2].
      + apply Hpush; [exact Ha|]. apply K_output_important, H2.
    - apply K_output_important. unfold prop_names_ok in Hok. revert o Ho.
      induction Hok as [|v r H1 _ IH]; intros o Ho; cbn [fold_left]; [exact Ho|].
      apply IH. apply K_fold_tokens; assumption.
  Qed.

  Lemma K_stringify_from l : ok (cf_after c) -> Forall (prop_names_ok ok) l ->
    forall first o, Inv o -> Inv (s_stringify_from c l first o).
  Proof.
    intros Ha. induction 1 as [|p r H1 _ IH]; intros first o Ho; cbn [s_stringify_from]; [exact Ho|].
    apply IH. apply K_css_property; [exact Ha|exact H1|].
    destruct (cf_format c && negb first); [apply Hnewline, Ho|exact Ho].
  Qed.

  Lemma kept_names_ok abbr : Forall (prop_names_ok ok) abbr -> Forall (prop_names_ok ok) (kept c abbr).
  Proof.
    intros H. unfold kept. destruct (cf_skip_unmatched c); [|exact H].
    rewrite Forall_forall in *. intros x Hx. apply filter_In in Hx. apply H, Hx.
  Qed.

  Theorem K_css_stream abbr : ok (cf_after c) -> Forall (prop_names_ok ok) abbr -> Inv os_empty -> Inv (css_stream c abbr).
  Proof. intros Ha Hok H0. unfold css_stream. apply K_stringify_from; [exact Ha|apply kept_names_ok, Hok|exact H0]. Qed.
End Keeps.

(* ---------------------------------------------------------------- reachability *)
(* decidable form of "no line feed in a function name" *)
Fixpoint fn_names_ok (v : cval) : bool :=
  match v with
  | VTok _ _ _ => true
  | VFunc name args => Nat.eqb (lf_count name) 0 && forallb (forallb fn_names_ok) args
  end.
Definition prop_raw_ok (p : cssprop) : bool := forallb (forallb fn_names_ok) (pvalue p).
(* the raw fragments that are not fixed by the code contain no line feed *)
Definition css_raw_ok (c : cssfmt) (abbr : list cssprop) : Prop :=
  lf_count (cf_after c) = 0 /\ forallb prop_raw_ok abbr = true.

Definition nolf (s : str) : Prop := lf_count s = 0.

Lemma forallb_Forall {A} (f : A -> bool) (P : A -> Prop) l :
  Forall (fun a => f a = true -> P a) l -> forallb f l = true -> Forall P l.
Proof.
  induction 1 as [|a r Ha _ IH]; intros H; [constructor|].
  cbn [forallb] in H. apply andb_prop in H. destruct H as [H1 H2]. constructor; [apply Ha, H1|apply IH, H2].
Qed.

Lemma fn_names_ok_nolf v : fn_names_ok v = true -> names_ok nolf v.
Proof.
  induction v as [k st en|name args IH] using cval_ind2; intros H; [exact I|].
  apply names_ok_func. cbn [fn_names_ok] in H. apply andb_prop in H. destruct H as [H1 H2].
  apply Nat.eqb_eq in H1. split; [apply lf_count_app_nolf; [exact H1|reflexivity]|].
  revert H2. apply forallb_Forall.
  induction IH as [|a r Ha _ IHr]; constructor; [|exact IHr].
  apply forallb_Forall. exact Ha.
Qed.

Lemma raw_ok_names c abbr : css_raw_ok c abbr -> nolf (cf_after c) /\ Forall (prop_names_ok nolf) abbr.
Proof.
  intros [Ha Hok]. split; [exact Ha|].
  revert Hok. apply forallb_Forall. apply Forall_all. intros p Hp.
  unfold prop_names_ok. revert Hp. unfold prop_raw_ok. apply forallb_Forall. apply Forall_all. intros v.
  apply forallb_Forall. apply Forall_all. intros t. apply fn_names_ok_nolf.
Qed.

(* (1) every stream produced by the stylesheet formatter is reachable *)
Theorem css_stream_reach c abbr : css_raw_ok c abbr -> reach (cf_fmt c) (css_stream c abbr).
Proof.
  intros H. destruct (raw_ok_names c abbr H) as [Ha Hok].
  apply (K_css_stream c (reach (cf_fmt c)) nolf); try assumption.
  - intros o s Hs Ho. apply r_push; assumption.
  - intros o s. apply r_string.
  - intros o i ph. apply r_field.
  - intros o ind. apply r_newline.
  - intros s Hs. exact Hs.
  - apply r_empty.
Qed.

(* ... hence every callback invocation of a stylesheet run receives the offset, line and column
   where its return value lands *)
Theorem css_callback_positions_exact_lemma c abbr a e b :
  fmt_lf (cf_fmt c) -> css_raw_ok c abbr ->
  chron (css_stream c abbr) = a ++ e :: b ->
  os_value (css_stream c abbr) = text_of a ++ ev_text e ++ text_of b /\
  ev_off e = length (text_of a) /\
  ev_line e = line_of (text_of a) /\
  ev_col e = column_of (text_of a).
Proof. intros Hf Hok Hs. eapply positions_exact_lf; [exact Hf|apply css_stream_reach, Hok|exact Hs]. Qed.

(* Without any hypothesis (any newline / indent strings, any function names, any stylesheet.after): the
   stream invariant of OutStreamProofs holds, so the offset is exact, the line is the number of line ends the
   stream itself wrote before, the column the distance from the last of them. *)
Theorem css_stream_inv c abbr : stream_inv (cf_fmt c) (css_stream c abbr).
Proof.
  apply (K_css_stream c (stream_inv (cf_fmt c)) (fun _ => True)); try exact I.
  - intros o s _. apply inv_push.
  - intros o s. apply inv_push_string.
  - intros o i ph. apply inv_push_field.
  - intros o ind. apply inv_push_newline.
  - intros s _. exact I.
  - apply Forall_all. intros p. unfold prop_names_ok. apply Forall_all. intros v. apply Forall_all.
    intros t. induction t as [k st en|name args IH] using cval_ind2; [exact I|]. apply names_ok_func. split; [exact I|exact IH].
  - apply inv_empty.
Qed.

Theorem css_callback_offsets_exact_lemma c abbr a e b :
  chron (css_stream c abbr) = a ++ e :: b ->
  os_value (css_stream c abbr) = text_of a ++ ev_text e ++ text_of b /\
  ev_off e = length (text_of a) /\
  ev_line e = count_nl (rev a) /\
  ev_col e = length (text_of a) - line_start (cf_fmt c) (rev a).
Proof.
  intros Hs. destruct (css_stream_inv c abbr) as [Hw _].
  destruct (wf_split (cf_fmt c) (os_events (css_stream c abbr)) a e b Hw Hs) as [H1 [H2 [H3 _]]].
  repeat split; try assumption.
  change (os_value (css_stream c abbr)) with (text_of (chron (css_stream c abbr))). rewrite Hs, text_of_app. reflexivity.
Qed.
