(* Chunk view of the output stream: one chunk per callback invocation, positions erased.
   What a stream operation appends is a function of the indentation level and the field
   counter only.  Basis of the C12 theorems and of the tabstop theorems of C13. *)
From Coq Require Import ZArith List Bool Lia ZifyBool.
From Emmet Require Import lib.Base model.MarkupTokenizer model.MarkupParser model.MarkupConvert
     model.OutStream model.FormatHtml model.FormatIndent proofs.OutStreamProofs proofs.FormatSteps
     proofs.FormatReach proofs.FormatProofs.

Inductive chunk := CT (nl : bool) (s : str) | CF (idx : N) (ph : str).
Definition chunk_of (e : oevent) : chunk :=
  match e with EvText b s _ _ _ => CT b s | EvField i ph _ _ _ => CF i ph end.
Definition chunks (o : ostream) : list chunk := map chunk_of (chron o).
Definition fchunks (st : fstate) : list chunk := chunks (fs_out st).

Lemma chunks_cons e evs lv off ln col :
  chunks (mkOs (e :: evs) lv off ln col) = map chunk_of (rev evs) ++ [chunk_of e].
Proof. unfold chunks, chron. cbn [os_events rev]. rewrite map_app. reflexivity. Qed.

Lemma chunks_events o o' : os_events o' = os_events o -> chunks o' = chunks o.
Proof. unfold chunks, chron. intros ->. reflexivity. Qed.

Lemma ch_set_level o l : chunks (os_set_level o l) = chunks o.
Proof. reflexivity. Qed.
Lemma ch_push_gen b o s : chunks (os_push_gen b o s) = chunks o ++ [CT b s].
Proof. unfold os_push_gen. rewrite chunks_cons. reflexivity. Qed.
Lemma ch_push_field o i ph : chunks (os_push_field o i ph) = chunks o ++ [CF i ph].
Proof. unfold os_push_field. rewrite chunks_cons. reflexivity. Qed.

Definition indent_chunk (f : ofmt) (n : Z) : chunk := CT false (repeat_str (of_indent f) (Z.to_nat (Z.max n 0))).
Lemma ch_push_indent f o n : chunks (os_push_indent f o n) = chunks o ++ [indent_chunk f n].
Proof. unfold os_push_indent, os_push. apply ch_push_gen. Qed.

Definition nl_chunk (f : ofmt) : chunk := CT true (of_newline f ++ of_base_indent f).
Definition nl_chunks (f : ofmt) (L : Z) (ind : option (option Z)) : list chunk :=
  nl_chunk f :: match ind with
                | None => []
                | Some None => [indent_chunk f L]
                | Some (Some n) => [indent_chunk f n]
                end.

Lemma ch_push_newline f o ind : chunks (os_push_newline f o ind) = chunks o ++ nl_chunks f (os_level o) ind.
Proof.
  unfold os_push_newline, nl_chunks.
  set (o2 := mkOs _ _ _ _ _).
  assert (H2 : chunks o2 = chunks o ++ [nl_chunk f]).
  { unfold o2. rewrite (chunks_events (os_push_gen true o (of_newline f ++ of_base_indent f))) by reflexivity.
    apply ch_push_gen. }
  destruct ind as [[n|]|].
  - rewrite ch_push_indent, H2, <- app_assoc. reflexivity.
  - rewrite ch_push_indent, H2, <- app_assoc. reflexivity.
  - exact H2.
Qed.

Definition line_chunks (f : ofmt) (L : Z) (l : str) : list chunk := nl_chunks f L (Some None) ++ [CT false l].
Definition string_chunks (f : ofmt) (L : Z) (s : str) : list chunk :=
  match split_crlf s with
  | [] => []
  | l0 :: ls => CT false l0 :: flat_map (line_chunks f L) ls
  end.

Lemma ch_push_string f o s : chunks (os_push_string f o s) = chunks o ++ string_chunks f (os_level o) s.
Proof.
  unfold os_push_string, string_chunks. destruct (split_crlf s) as [|l0 ls]; [rewrite app_nil_r; reflexivity|].
  assert (G : forall ls o', chunks (fold_left (fun o'' l => os_push (os_push_newline f o'' (Some None)) l) ls o')
                            = chunks o' ++ flat_map (line_chunks f (os_level o')) ls).
  { induction ls0 as [|l ls0 IH]; intros o'; cbn [fold_left flat_map]; [rewrite app_nil_r; reflexivity|].
    rewrite IH. unfold os_push. rewrite ch_push_gen, ch_push_newline.
    rewrite lvl_push_gen, lvl_push_newline. unfold line_chunks. rewrite <- !app_assoc. reflexivity. }
  rewrite G. unfold os_push. rewrite ch_push_gen, lvl_push_gen, <- app_assoc. reflexivity.
Qed.

(* ---------------------------------------------------------------- push_tokens *)
Definition token_chunks (f : ofmt) (L : Z) (F : N) (toks : list vtok) : list chunk :=
  flat_map (fun t => match t with
                     | VStr s => string_chunks f L s
                     | VField i nm => [CF (F + i)%N nm]
                     end) toks.
Definition max_field_from (lg : option N) (toks : list vtok) : option N :=
  fold_left (fun lg t => match t with
                         | VStr _ => lg
                         | VField i _ => match lg with Some l => Some (N.max l i) | None => Some i end
                         end) toks lg.
Definition next_field (F : N) (toks : list vtok) : N :=
  match max_field_from None toks with Some l => (F + l + 1)%N | None => F end.

Lemma push_tokens_spec c toks st :
  fchunks (push_tokens c toks st) = fchunks st ++ token_chunks (oc_fmt c) (lvl st) (fs_field st) toks /\
  fs_field (push_tokens c toks st) = next_field (fs_field st) toks.
Proof.
  unfold fchunks, push_tokens, next_field, lvl.
  assert (G : forall toks o lg,
            let r := fold_left (fun '(o, lg) t =>
                 match t with
                 | VStr s => (os_push_string (oc_fmt c) o s, lg)
                 | VField i nm => (os_push_field o (fs_field st + i)%N nm,
                                   match lg with Some l => Some (N.max l i) | None => Some i end)
                 end) toks (o, lg) in
            chunks (fst r) = chunks o ++ token_chunks (oc_fmt c) (os_level o) (fs_field st) toks /\
            snd r = max_field_from lg toks).
  { induction toks0 as [|t ts IH]; intros o lg; cbn [fold_left token_chunks flat_map max_field_from].
    - cbn. rewrite app_nil_r. split; reflexivity.
    - destruct t as [s|i nm].
      + destruct (IH (os_push_string (oc_fmt c) o s) lg) as [H1 H2]. cbv zeta in H1, H2. split; [|exact H2].
        rewrite H1, ch_push_string, lvl_push_string, <- app_assoc. reflexivity.
      + destruct (IH (os_push_field o (fs_field st + i)%N nm)
                     (match lg with Some l => Some (N.max l i) | None => Some i end)) as [H1 H2].
        cbv zeta in H1, H2. split; [|exact H2].
        rewrite H1, ch_push_field, <- app_assoc. reflexivity. }
  specialize (G toks (fs_out st) None). cbv zeta in G.
  destruct (fold_left _ toks (fs_out st, None)) as [out largest]. cbn [fst snd] in G. destruct G as [G1 G2].
  cbn [fs_out fs_field]. split; [exact G1|]. rewrite G2. reflexivity.
Qed.

Lemma ch_push_str c s st : fchunks (push_str c s st) = fchunks st ++ string_chunks (oc_fmt c) (lvl st) s.
Proof. unfold fchunks, push_str, lvl. cbn [fs_out]. apply ch_push_string. Qed.
Lemma fld_push_str c s st : fs_field (push_str c s st) = fs_field st.
Proof. reflexivity. Qed.
Lemma fld_map_out g st : fs_field (map_out g st) = fs_field st.
Proof. reflexivity. Qed.

Lemma ch_map_level d st : fchunks (map_out (fun o => os_add_level o d) st) = fchunks st.
Proof. reflexivity. Qed.
Lemma ch_map_newline c ind st :
  fchunks (map_out (fun o => os_push_newline (oc_fmt c) o ind) st) = fchunks st ++ nl_chunks (oc_fmt c) (lvl st) ind.
Proof. unfold fchunks, map_out, lvl. cbn [fs_out]. apply ch_push_newline. Qed.
Definition int_ind (n : Z) : option (option Z) := if (n =? 0)%Z then None else Some (Some n).
Lemma ch_level_newline c d st :
  fchunks (level_newline c d st) = fchunks st ++ nl_chunks (oc_fmt c) (lvl st + d) (int_ind (lvl st + d)).
Proof.
  unfold fchunks, level_newline, map_out, lvl, os_push_newline_int. cbn [fs_out].
  rewrite ch_push_newline. reflexivity.
Qed.

(* ---------------------------------------------------------------- fields of a chunk list *)
Definition fields_of (X : list chunk) : list (N * str) :=
  flat_map (fun ch => match ch with CF i p => [(i, p)] | CT _ _ => [] end) X.
Definition tok_fields (toks : list vtok) : list (N * str) :=
  flat_map (fun t => match t with VField i nm => [(i, nm)] | VStr _ => [] end) toks.

Lemma fields_app a b : fields_of (a ++ b) = fields_of a ++ fields_of b.
Proof. unfold fields_of. apply flat_map_app. Qed.

Lemma fields_nl f L ind : fields_of (nl_chunks f L ind) = [].
Proof. destruct ind as [[n|]|]; reflexivity. Qed.

Lemma fields_string f L s : fields_of (string_chunks f L s) = [].
Proof.
  unfold string_chunks. destruct (split_crlf s) as [|l0 ls]; [reflexivity|]. cbn [fields_of flat_map app].
  induction ls as [|l ls IH]; [reflexivity|]. cbn [flat_map]. fold (fields_of (line_chunks f L l ++ flat_map (line_chunks f L) ls)).
  rewrite fields_app. unfold fields_of at 2. rewrite IH. reflexivity.
Qed.

Definition shift (F : N) (x : N * str) : N * str := ((F + fst x)%N, snd x).

Lemma fields_tokens f L F toks : fields_of (token_chunks f L F toks) = map (shift F) (tok_fields toks).
Proof.
  induction toks as [|t ts IH]; [reflexivity|]. cbn [token_chunks flat_map tok_fields].
  fold (token_chunks f L F ts). rewrite fields_app, IH. destruct t as [s|i nm].
  - rewrite fields_string. reflexivity.
  - reflexivity.
Qed.

(* ================================================================ C13: explicit fields *)
(* what one push_tokens call (one value) emits: its fields in order, each index shifted by the
   counter value at the start of the call *)
Theorem value_fields_relative c v st :
  fields_of (fchunks (push_tokens c v st)) = fields_of (fchunks st) ++ map (shift (fs_field st)) (tok_fields v).
Proof. destruct (push_tokens_spec c v st) as [H _]. rewrite H, fields_app, fields_tokens. reflexivity. Qed.

Lemma max_field_from_ge lg toks l : lg = Some l -> exists m, max_field_from lg toks = Some m /\ (l <= m)%N.
Proof.
  revert lg l. induction toks as [|t ts IH]; intros lg l ->; cbn [max_field_from fold_left].
  - exists l. split; [reflexivity|lia].
  - destruct t as [s|i nm].
    + apply (IH (Some l) l eq_refl).
    + destruct (IH (Some (N.max l i)) (N.max l i) eq_refl) as [m [Hm Hle]]. exists m. split; [exact Hm|lia].
Qed.

Lemma max_field_bound toks : forall lg i nm, In (i, nm) (tok_fields toks) ->
  exists m, max_field_from lg toks = Some m /\ (i <= m)%N.
Proof.
  induction toks as [|t ts IH]; intros lg i nm Hin; [destruct Hin|].
  cbn [tok_fields flat_map] in Hin. cbn [max_field_from fold_left]. destruct t as [s|j nm'].
  - apply (IH lg i nm Hin).
  - destruct Hin as [E|Hin].
    + injection E as -> ->.
      destruct (max_field_from_ge (match lg with Some l => Some (N.max l i) | None => Some i end) ts
                                  (match lg with Some l => N.max l i | None => i end)) as [m [Hm Hle]].
      { destruct lg; reflexivity. }
      exists m. split; [exact Hm|]. destruct lg; lia.
    + apply (IH _ i nm Hin).
Qed.

(* every index a value emits lies in [counter before, counter after) *)
Theorem value_fields_range c v st i nm :
  In (i, nm) (tok_fields v) ->
  (fs_field st <= fs_field st + i < fs_field (push_tokens c v st))%N.
Proof.
  intros Hin. destruct (push_tokens_spec c v st) as [_ H]. rewrite H. unfold next_field.
  destruct (max_field_bound v None i nm Hin) as [m [Hm Hle]]. rewrite Hm. lia.
Qed.

Lemma next_field_ge F toks : (F <= next_field F toks)%N.
Proof. unfold next_field. destruct (max_field_from None toks); lia. Qed.

Theorem push_tokens_field_mono c v st : (fs_field st <= fs_field (push_tokens c v st))%N.
Proof. destruct (push_tokens_spec c v st) as [_ H]. rewrite H. apply next_field_ge. Qed.

(* two values written one after the other (anything in between that does not lower the
   counter): every index of the first is below every index of the second *)
Theorem successive_values_disjoint c v1 v2 st1 st2 i1 n1 i2 n2 :
  (fs_field (push_tokens c v1 st1) <= fs_field st2)%N ->
  In (i1, n1) (tok_fields v1) -> In (i2, n2) (tok_fields v2) ->
  (fs_field st1 + i1 < fs_field st2 + i2)%N.
Proof.
  intros Hle H1 H2. pose proof (value_fields_range c v1 st1 i1 n1 H1). lia.
Qed.

(* ---------------------------------------------------------------- the counter never decreases *)
Definition fmono (st st' : fstate) : Prop := (fs_field st <= fs_field st')%N.

Lemma fmono_fold {A} (f : fstate -> A -> fstate) (l : list A) :
  (forall st a, fmono st (f st a)) -> forall st, fmono st (fold_left f l st).
Proof.
  intros Hf. induction l as [|a l IH]; intros st; cbn [fold_left]; [unfold fmono; lia|].
  specialize (IH (f st a)). specialize (Hf st a). unfold fmono in *. lia.
Qed.

Lemma fmono_push_attribute c a st : fmono st (push_attribute c a st).
Proof.
  unfold push_attribute, fmono.
  repeat match goal with
         | |- (_ <= fs_field (match ?x with _ => _ end))%N => destruct x
         | |- (_ <= fs_field (if ?x then _ else _))%N => destruct x
         end;
    repeat rewrite fld_push_str;
    try match goal with |- (_ <= fs_field (push_tokens ?c ?v ?s))%N => pose proof (push_tokens_field_mono c v s) end;
    repeat rewrite fld_push_str in *; lia.
Qed.

Lemma fmono_comment_node c text n st : fmono st (comment_node c text n st).
Proof.
  unfold comment_node. destruct text; [unfold fmono; lia|]. destruct (should_comment c n); [|unfold fmono; lia].
  unfold comment_output. apply fmono_fold. intros st' t. destruct t as [s|b a nm]; [unfold fmono; rewrite fld_push_str; lia|].
  destruct (assoc_str nm _); [|unfold fmono; lia]. unfold fmono. rewrite fld_push_str.
  pose proof (push_tokens_field_mono c l (push_str c b st')). rewrite fld_push_str in H. exact H.
Qed.
