(* C10 Level B: example sheets of the grammar of model/CssSheet.v (non-vacuity of the
   theorems of proofs/CssRender.v), one per construct of the grammar, with the text they
   render to and the callbacks the implementation reports for that text. *)
From Coq Require Import ZArith List Bool String.
From Emmet Require Import lib.Base model.CssScan model.CssMatch model.CssTree model.CssSheet.
From Emmet Require lib.StrLit.
Import ListNotations.
Local Open Scope Z_scope.

Definition T (s : string) : str := StrLit.S s.
Definition W (s : string) : trun := map LCh (T s).              (* a word of plain characters *)
Definition ws : lex := LGap (GWs 32%N).
Definition sp : gap := [GWs 32%N].
Definition nl : gap := [GWs 10%N].
Definition lit (q : char) (s : string) : lex := LStr q (map SC (T s)).
Definition sel1 (r : trun) : selector := mkSel None r [].
Definition decl (n v : trun) : item := SDecl sp n [] sp v [].    (* ` n: v;` *)

(* core: nested rules, identifier/combinator selectors, `name: value;`, words and spaces *)
Definition sh_core : sheet :=
  mkSheet [SRule [] (sel1 (W "ul" ++ [ws] ++ W ">" ++ [ws] ++ W "li.a-b_c," ++ [ws] ++ W "#x" ++ [ws] ++ W "+" ++ [ws] ++ W "p"))
                 sp [decl (W "margin") (W "0" ++ [ws] ++ W "auto");
                     SRule sp (sel1 (W "b")) [] [SDecl [] (W "c") sp [] (W "d") sp] []] sp;
           SRule sp (sel1 (W "d")) sp [decl (W "e") (W "f")] sp] nl.
Definition tx_core : str := T "ul > li.a-b_c, #x + p { margin: 0 auto; b{c :d ;} } d { e: f; }
".

(* pseudo-selectors: a:hover, a::before, :root, ::after *)
Definition sh_pseudo : sheet :=
  mkSheet [SRule [] (mkSel None (W "a") [([], [], W "hover," ++ [ws] ++ W "a" ++ [LPseudo 0 98%N] ++ W "efore")]) sp [] [];
           SRule [] (mkSel (Some []) (W "root") []) [] [] [];
           SRule [] (sel1 (LPseudo 0 97%N :: W "fter")) [] [] [];
           SRule [] (mkSel (Some []) (W "not") [([], [], W "x")]) [] [] []] [].
Definition tx_pseudo : str := T "a:hover, a::before {}:root{}::after{}:not:x{}".

(* at-rules with parenthesised conditions: the colon inside the parentheses is a token *)
Definition sh_at : sheet :=
  mkSheet [SRule [] (sel1 (W "@media" ++ [ws; LOpen] ++ W "min-width" ++ [LColon; ws] ++ W "10px" ++ [LClose; ws] ++
                          W "and" ++ [ws; LOpen; LOpen] ++ W "a" ++ [LColon; LColon] ++ W "b" ++ [LClose; LClose]))
                 sp [SRule sp (sel1 (W "a")) sp [decl (W "b") (W "c")] sp] sp] [].
Definition tx_at : str := T "@media (min-width: 10px) and ((a::b)) { a { b: c; } }".

(* strings in values and attribute selectors holding { } : ; and escaped quotes *)
Definition sh_str : sheet :=
  mkSheet [SRule [] (sel1 (W "a[title=" ++ [lit 39%N "{;:}"] ++ W "]")) sp
                 [decl (W "content") [LStr 34%N [SC 120%N; SC 59%N; SC 125%N; SE 34%N; SC 123%N; SE 10%N; SC 58%N]; ws; lit 39%N """"]] sp] [].
Definition tx_str : str := T "a[title='{;:}'] { content: ""x;}\""{\
:"" '""'; }".

(* comments between items, inside selectors, around the colon and inside values *)
Definition sh_com : sheet :=
  mkSheet [SRule [GCom (T " a { b: c; } ")] (sel1 (W "a" ++ [ws; LGap (GCom (T "{")); ws] ++ W "b")) [GCom (T "}")]
                 [SDecl [GCom (T ";")] (W "c") [GCom (T ":")] [GCom (T "*")] (W "d" ++ [LGap (GCom (T " e: f; ")); ws] ++ W "g") [GCom (T "/")]]
                 [GCom []]] [GWs 10%N; GCom (T " end ")].
Definition tx_com : str := T "/* a { b: c; } */a /*{*/ b/*}*/{/*;*/c/*:*/:/***/d/* e: f; */ g/*/*/;/**/}
/* end */".

(* SCSS variables and custom properties, also at top level *)
Definition sh_var : sheet :=
  mkSheet [decl (W "$x") (W "1");
           SRule sp (mkSel (Some []) (W "root") []) [] [SDecl [] (W "--x") [] [] (W "y") []; decl (W "$w") (W "$x" ++ [ws] ++ W "!default")] []] [].
Definition tx_var : str := T " $x: 1; :root{--x:y; $w: $x !default;}".

(* `/` as a token (not in front of `*`) *)
Definition sh_slash : sheet :=
  mkSheet [SRule [] (sel1 (W "a")) sp
             [decl (W "font") (W "12px" ++ [LSlash] ++ W "1.5" ++ [ws] ++ W "a" ++ [ws; LSlash; ws] ++ W "b" ++ [ws; LSlash; LSlash; ws] ++ W "c")] sp] [].
Definition tx_slash : str := T "a { font: 12px/1.5 a / b // c; }".

(* everything together; the callbacks are those emmet.css_matcher.scan reports for the text *)
Definition sh_all : sheet :=
  mkSheet
    [SRule [] (sel1 (W "@media" ++ [ws; LOpen] ++ W "min-width" ++ [LColon; ws] ++ W "10px" ++ [LClose])) sp
       [SRule [GWs 10%N; GWs 32%N; GWs 32%N]
          (mkSel None (W "ul" ++ [ws] ++ W ">" ++ [ws] ++ W "li.a-b_c")
                 [([], [], W "hover," ++ [ws] ++ W "a" ++ [LPseudo 0 98%N] ++ W "efore")]) sp
          [decl (W "color") ([LStr 34%N [SC 120%N; SC 59%N; SC 125%N; SE 34%N; SC 123%N]; ws; LGap (GCom (T " c: d; } ")); ws] ++ W "red");
           decl (W "$v") (W "1")] sp] nl;
     SRule nl (mkSel (Some []) (W "root") []) [] [SDecl [] (W "--x") [] [] (W "y") []] [];
     SRule nl (sel1 (W "a[title=" ++ [lit 39%N "{;:}"] ++ W "]")) sp
       [SDecl sp (W "margin") [] sp
          (W "calc" ++ [LOpen; ws] ++ W "1px" ++ [ws] ++ W "+" ++ [ws; LOpen] ++ W "2px*3" ++ [LClose; ws; LClose; ws] ++
           W "url" ++ [LOpen] ++ W "data" ++ [LColon] ++ W "x" ++ [LClose]) sp] sp] [].
Definition tx_all : str := T "@media (min-width: 10px) {
  ul > li.a-b_c:hover, a::before { color: ""x;}\""{"" /* c: d; } */ red; $v: 1; }
}
:root{--x:y;}
a[title='{;:}'] { margin: calc( 1px + (2px*3) ) url(data:x) ; }".
Definition ev_all : list event :=
  [mkEv Selector 0 24 25; mkEv Selector 29 59 60; mkEv PropertyName 62 67 67; mkEv PropertyValue 69 95 95;
   mkEv PropertyName 97 99 99; mkEv PropertyValue 101 102 102; mkEv BlockEnd 104 105 104; mkEv BlockEnd 106 107 106;
   mkEv Selector 108 113 113; mkEv PropertyName 114 117 117; mkEv PropertyValue 118 119 119; mkEv BlockEnd 120 121 120;
   mkEv Selector 122 137 138; mkEv PropertyName 140 146 146; mkEv PropertyValue 148 181 182; mkEv BlockEnd 184 185 184].

Lemma ex_core : wf_sheet sh_core = true /\ render sh_core = tx_core.
Proof. vm_compute. split; reflexivity. Qed.
Lemma ex_pseudo : wf_sheet sh_pseudo = true /\ render sh_pseudo = tx_pseudo /\
  events sh_pseudo = [mkEv Selector 0 18 19; mkEv BlockEnd 20 21 20; mkEv Selector 21 26 26; mkEv BlockEnd 27 28 27;
                      mkEv Selector 28 35 35; mkEv BlockEnd 36 37 36; mkEv Selector 37 43 43; mkEv BlockEnd 44 45 44].
Proof. vm_compute. repeat split; reflexivity. Qed.
Lemma ex_at : wf_sheet sh_at = true /\ render sh_at = tx_at.
Proof. vm_compute. split; reflexivity. Qed.
Lemma ex_str : wf_sheet sh_str = true /\ render sh_str = tx_str.
Proof. vm_compute. split; reflexivity. Qed.
Lemma ex_com : wf_sheet sh_com = true /\ render sh_com = tx_com.
Proof. vm_compute. split; reflexivity. Qed.
Lemma ex_var : wf_sheet sh_var = true /\ render sh_var = tx_var.
Proof. vm_compute. split; reflexivity. Qed.
Lemma ex_slash : wf_sheet sh_slash = true /\ render sh_slash = tx_slash /\
  events sh_slash = [mkEv Selector 0 1 2; mkEv PropertyName 4 8 8; mkEv PropertyValue 10 29 29; mkEv BlockEnd 31 32 31].
Proof. vm_compute. repeat split; reflexivity. Qed.
Lemma ex_all : wf_sheet sh_all = true /\ render sh_all = tx_all /\ events sh_all = ev_all.
Proof. vm_compute. repeat split; reflexivity. Qed.

(* the listed finding, on the model: a `;` or a brace inside parentheses (outside strings and
   comments) does delimit.  In  a{b:f(;);}  the declaration  b:f(;);  spans 2..9 with the value
   f(;) = 4..8, but the scanner cuts the value at the inner `;` and match() at position 7 does not
   answer with that declaration.  This is why parenthesised expressions of the grammar are free
   of  ; { } . *)
Lemma paren_delimiter_refuted :
  scan (T "a{b:f(;);}") =
    [mkEv Selector 0 1 1; mkEv PropertyName 2 3 3; mkEv PropertyValue 4 6 6; mkEv PropertyName 7 8 8;
     mkEv BlockEnd 9 10 9] /\
  css_match (T "a{b:f(;);}") 7 <> Some (mkMR true 2 9 4 8) /\
  scan (T "a{b:f({);}") =
    [mkEv Selector 0 1 1; mkEv Selector 2 6 6; mkEv PropertyName 7 8 8; mkEv BlockEnd 9 10 9].
Proof. vm_compute. repeat split; try reflexivity. intro H; discriminate H. Qed.
