(* C04 -- the property's own vocabulary (SPEC).  No scanner here. *)
From Emmet Require Import lib.Base.
Local Open Scope N_scope.

(* a backslash makes the next character literal *)
Fixpoint unescape (s : str) : str :=
  match s with
  | [] => []
  | c :: r =>
      if c =? c_bslash then match r with [] => [] | d :: r' => d :: unescape r' end
      else c :: unescape r
  end.

(* [bal d T]: read from nesting depth [d], the payload closes exactly the [d] braces that are open and
   never more (braces balanced modulo escapes), has no unescaped `$` and no dangling backslash *)
Fixpoint bal (d : nat) (s : str) : bool :=
  match s with
  | [] => Nat.eqb d 0
  | c :: r =>
      if c =? c_bslash then match r with [] => false | _ :: r' => bal d r' end
      else if c =? c_dollar then false
      else if c =? c_lbrace then bal (S d) r
      else if c =? c_rbrace then match d with O => false | S d' => bal d' r end
      else bal d r
  end.

(* text payload of `{...}` in the sense of the statement *)
Definition text_payload (T : str) : Prop := bal 0 T = true.

(* payload of a quoted attribute value: no unescaped quote of the same kind, no unescaped `$`,
   no dangling backslash; braces and every other character are free *)
Fixpoint qpayload (q : char) (s : str) : bool :=
  match s with
  | [] => true
  | c :: r =>
      if c =? c_bslash then match r with [] => false | _ :: r' => qpayload q r' end
      else if (c =? c_dollar) || (c =? q) then false
      else qpayload q r
  end.

(* wrap lines: non-blank lines, trimmed, in order *)
Definition nonblank (l : str) : bool := match strip l with [] => false | _ => true end.
Definition wrap_lines (lines : list str) : list str := map strip (filter nonblank lines).
