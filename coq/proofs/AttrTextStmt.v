(* C03 for every element of a flat statement, through markup.parse.
   Text  e1 op1 e2 ... en  (elements with `#id`, `.class`, `[ ... ]`, `{T}`; op = `>`, `+`, `^`...):
   tokenize, parse, convert, snippet resolution and transform yield a forest whose preorder list of
   (depth, node without its children) is exactly the list the operators denote, each node carrying the
   merged mentions written on ITS element -- no attribute moves to another element. *)
From Coq Require Import ZArith List Bool Lia.
From Emmet Require Import lib.Base model.MarkupTokenizer model.MarkupParser model.MarkupConvert model.MarkupResolve
     proofs.ParserSpine proofs.TextSpec proofs.TextProofs proofs.TextLiteral proofs.ConvertProofs proofs.SafeResolve
     proofs.AttrText proofs.AttrTextParse proofs.AttrTextConvert proofs.AttrTextFlat proofs.AttrTextExpand.
From Emmet Require proofs.ExpandTree.
Local Open Scope nat_scope.

(* ================================================================ A. the parsed forest consists of the written elements *)
Section Good.
  Variable P : leaf -> Prop.

  Fixpoint good (n : tnode) : Prop :=
    match n with
    | TElem a b c r s els =>
        P (mkLeaf a b c r s) /\
        (fix go (l : list tnode) : Prop := match l with [] => True | x :: l' => good x /\ go l' end) els
    | TGroup _ _ => False
    end.

  Lemma good_elem a b c r s els : good (TElem a b c r s els) <-> P (mkLeaf a b c r s) /\ Forall good els.
  Proof.
    cbn [good]. split; intros [H1 H2]; (split; [exact H1|]).
    - induction els as [|x l IH]; [constructor|]. destruct H2 as [Hx Hl]. constructor; [exact Hx|apply IH; exact Hl].
    - induction els as [|x l IH]; [exact I|]. inversion H2; subst. split; [assumption|apply IH; assumption].
  Qed.

  Lemma good_leaf l : P l -> good (leaf_node l).
  Proof. intros H. unfold leaf_node. apply good_elem. split; [destruct l; exact H|constructor]. Qed.

  Lemma good_add_child c n : good c -> good n -> good (add_child c n).
  Proof.
    destruct c as [a b v r s els|els r]; [|intros []]. intros Hc Hn. cbn [add_child].
    apply good_elem in Hc. destruct Hc as [H1 H2]. apply good_elem. split; [exact H1|].
    apply Forall_app. split; [exact H2|constructor; [exact Hn|constructor]].
  Qed.

  Fixpoint sinv (cur : tnode) (stack : list tnode) : Prop :=
    match stack with
    | [] => match cur with TGroup els None => Forall good els | _ => False end
    | p :: st => good cur /\ sinv p st
    end.

  Lemma sinv_add : forall stack cur n, sinv cur stack -> good n -> sinv (add_child cur n) stack.
  Proof.
    intros [|p st] cur n H Hn; cbn [sinv] in *.
    - destruct cur as [|els [r|]]; try contradiction. cbn [add_child].
      apply Forall_app. split; [exact H|constructor; [exact Hn|constructor]].
    - destruct H as [Hc Hs]. split; [apply good_add_child; assumption|exact Hs].
  Qed.

  Lemma sinv_climb : forall k cur stack, sinv cur stack -> sinv (fst (climb k cur stack)) (snd (climb k cur stack)).
  Proof.
    induction k as [|k IH]; intros cur stack H; cbn [climb]; [exact H|].
    destruct stack as [|p st]; [exact H|]. cbn [sinv] in H. destruct H as [Hc Hs].
    apply IH. apply sinv_add; assumption.
  Qed.

  Lemma sinv_step cur stack l o : sinv cur stack -> P l ->
    sinv (fst (step (cur, stack) (l, o))) (snd (step (cur, stack) (l, o))).
  Proof.
    intros H Hl. pose proof (good_leaf l Hl) as Hg. destruct o as [| |k]; cbn [step fst snd].
    - cbn [sinv]. split; assumption.
    - apply sinv_add; assumption.
    - apply sinv_climb. apply sinv_add; assumption.
  Qed.

  Lemma sinv_fold : forall xs cur stack, Forall (fun x => P (fst x)) xs -> sinv cur stack ->
    sinv (fst (fold_left step xs (cur, stack))) (snd (fold_left step xs (cur, stack))).
  Proof.
    induction xs as [|[l o] xs IH]; intros cur stack HF H; [exact H|].
    inversion HF as [|x y Hl HF']; subst. cbn [fold_left].
    pose proof (sinv_step cur stack l o H Hl) as Hs.
    destruct (step (cur, stack) (l, o)) as [c1 s1]. apply IH; assumption.
  Qed.

  Lemma sinv_close : forall stack cur, sinv cur stack -> Forall good (elements_of (close_all cur stack)).
  Proof.
    induction stack as [|p st IH]; intros cur H; cbn [close_all].
    - cbn [sinv] in H. destruct cur as [|els [r|]]; try contradiction. exact H.
    - cbn [sinv] in H. destruct H as [Hc Hs]. apply IH. apply sinv_add; assumption.
  Qed.

  Theorem parse_flat_good jsx xs toks :
    flat jsx xs toks -> Forall (fun x => P (fst x)) xs ->
    exists els, parse jsx toks = POk els /\ preL 0 els = denote 0 xs /\ Forall good els.
  Proof.
    intros H HP. unfold parse. rewrite (stmts_flat jsx xs toks H).
    pose proof (steps_denote xs (TGroup [] None) [] I) as Hd.
    pose proof (sinv_fold xs (TGroup [] None) [] HP (Forall_nil _)) as Hs.
    destruct (fold_left step xs (TGroup [] None, [])) as [c' s']. destruct Hd as [Hv Hok]. cbn [fst snd] in Hs.
    rewrite skipn_all. eexists. split; [reflexivity|]. split.
    - rewrite close_all_view by assumption. rewrite Hv. reflexivity.
    - apply sinv_close. exact Hs.
  Qed.
End Good.

(* ================================================================ B. conversion of such a forest *)
(* the written elements, as parser leaves *)
Definition Pleaf (l : leaf) : Prop := exists pos e, selem_ok e /\ l = elem_leaf pos e.

(* preorder list of (depth, node without children) of a converted forest *)
Definition strip (n : anode) : anode := match n with ANode a b c d _ f => ANode a b c d [] f end.
Fixpoint apreN (d : nat) (n : anode) : list (nat * anode) :=
  match n with ANode _ _ _ _ ch _ => (d, strip n) :: flat_map (apreN (S d)) ch end.
Definition apreNL (d : nat) (l : list anode) : list (nat * anode) := flat_map (apreN d) l.

Lemma apreNL_app d a b : apreNL d (a ++ b) = apreNL d a ++ apreNL d b.
Proof. apply flat_map_app. Qed.

(* ---- the tokens of the written elements are clean (no `$#`, no repeater, no unknown operator) *)
Lemma uq_toks_forallb (p : token -> bool) :
  (forall t v, tk t = TLiteral v -> p t = true) -> (forall t o, tk t = TBracket o BGroup -> p t = true) ->
  forall n pos v, forallb p (uq_toks n pos v) = true.
Proof.
  intros Hl Hb. induction n as [|n IH]; intros pos v; [reflexivity|].
  destruct v as [|c r]; [reflexivity|]. cbn [uq_toks].
  destruct (c =? c_lparen)%N; [cbn [forallb]; erewrite Hb by reflexivity; apply IH|].
  destruct (c =? c_rparen)%N; [cbn [forallb]; erewrite Hb by reflexivity; apply IH|].
  cbn [forallb]. erewrite Hl by reflexivity. apply IH.
Qed.

Lemma clean_lit t v : tk t = TLiteral v -> clean_tok t = true.
Proof. intros H. unfold clean_tok. rewrite H. reflexivity. Qed.
Lemma clean_ws t v : tk t = TWhiteSpace v -> clean_tok t = true.
Proof. intros H. unfold clean_tok. rewrite H. reflexivity. Qed.
Lemma clean_br t o b : tk t = TBracket o b -> clean_tok t = true.
Proof. intros H. unfold clean_tok. rewrite H. reflexivity. Qed.

Lemma clean_text_tokens pos T : clean_toks (text_tokens pos T) = true.
Proof. apply text_tokens_forallb; [apply clean_ws|apply clean_lit]. Qed.

Lemma clean_attr_tattr pos a : clean_attr (attr_tattr pos a) = true.
Proof.
  unfold clean_attr, attr_tattr. cbn [ta_name ta_value clean_otoks clean_toks forallb andb].
  destruct (sa_value a) as [| |v|s q|e]; cbn [clean_otoks]; try reflexivity.
  - apply uq_toks_forallb; [apply clean_lit|intros t o; apply clean_br].
  - unfold clean_toks. cbn [forallb]. rewrite forallb_app. fold (clean_toks (text_tokens (pos + length (aname_text a) + 2) q)).
    rewrite clean_text_tokens. reflexivity.
  - unfold clean_toks. cbn [forallb]. rewrite forallb_app. fold (clean_toks (text_tokens (pos + length (aname_text a) + 2) e)).
    rewrite clean_text_tokens. reflexivity.
Qed.

Lemma clean_set : forall l pos, forallb clean_attr (set_tattrs pos l) = true.
Proof.
  induction l as [|[a w] l IH]; intros pos; [reflexivity|]. unfold set_tattrs in *.
  cbn [lay map fst snd forallb]. rewrite clean_attr_tattr. apply IH.
Qed.

Lemma clean_parts : forall ps pos, forallb clean_attr (parts_tattrs pos ps) = true.
Proof.
  induction ps as [|p ps IH]; intros pos; [reflexivity|]. cbn [parts_tattrs]. rewrite forallb_app, IH, andb_true_r.
  destruct p as [k v|k v|lead l]; cbn [part_tattrs]; [reflexivity|reflexivity|apply clean_set].
Qed.

Lemma clean_elem_leaf pos e els :
  forallb clean_node els = true ->
  clean_node (TElem (lf_name (elem_leaf pos e)) (lf_attrs (elem_leaf pos e)) (lf_value (elem_leaf pos e))
                    (lf_repeat (elem_leaf pos e)) (lf_self (elem_leaf pos e)) els) = true.
Proof.
  intros H. unfold elem_leaf. cbn [lf_name lf_attrs lf_value lf_repeat lf_self clean_node clean_otoks clean_toks forallb clean_rep andb].
  rewrite H, andb_true_r.
  assert (H1 : clean_oattrs (elem_tattrs pos e) = true).
  { unfold elem_tattrs. destruct (se_parts e) as [|p ps] eqn:E; [reflexivity|]. rewrite <- E. apply clean_parts. }
  assert (H2 : clean_otoks (elem_value pos e) = true).
  { unfold elem_value. destruct (se_text e); [apply clean_text_tokens|reflexivity]. }
  rewrite H1, H2. reflexivity.
Qed.

Lemma good_clean : forall n, good Pleaf n -> clean_node n = true.
Proof.
  induction n as [a b c r s els IH|els r IH] using tnode_ind'; intros H; [|contradiction].
  apply good_elem in H. destruct H as [[pos [e [Hok El]]] Hk].
  assert (Hkids : forallb clean_node els = true).
  { apply forallb_forall. intros x Hx. rewrite Forall_forall in IH, Hk. apply IH; [exact Hx|apply Hk; exact Hx]. }
  pose proof (clean_elem_leaf pos e els Hkids) as Hc. rewrite <- El in Hc. exact Hc.
Qed.

Lemma good_total : forall n, good Pleaf n -> total n = 0%Z.
Proof.
  induction n as [a b c r s els IH|els r IH] using tnode_ind'; intros H; [|contradiction].
  apply good_elem in H. destruct H as [[pos [e [Hok El]]] Hk].
  assert (Hr : r = None) by (unfold elem_leaf in El; injection El; auto).
  subst r. rewrite total_unfold. cbn [node_rep]. unfold inner_total. cbn [elements_of'].
  induction els as [|x l IHl]; [reflexivity|].
  inversion IH as [|? ? IHx IHr]; subst. inversion Hk as [|? ? Hx Hr]; subst.
  cbn [map zsum fold_right]. rewrite (IHx Hx). cbn [Z.add]. apply IHl; assumption.
Qed.

(* ---- what a written leaf converts to *)
Definition leaf_anode (env : cenv) (l : leaf) : anode :=
  ANode (option_map (name_str env []) (nonempty (lf_name l)))
        (option_map (value_toks env []) (nonempty (lf_value l)))
        None
        (option_map (map (attr_of env [])) (nonempty (lf_attrs l)))
        [] (lf_self l).

Lemma map_attr_of env : forall l m, pointwise env l m -> map (attr_of env []) l = m.
Proof.
  intros l m H. induction H as [|a a' l m Ha _ IH]; [reflexivity|]. cbn [map]. rewrite IH.
  unfold attr_of. rewrite Ha. reflexivity.
Qed.

Lemma leaf_anode_elem env pos e : selem_ok e -> leaf_anode env (elem_leaf pos e) = elem_node e.
Proof.
  intros [[Hne _] [Hp _]]. unfold leaf_anode, elem_leaf, elem_node. cbn [lf_name lf_attrs lf_value lf_self nonempty option_map].
  assert (E1 : name_str env [] [word_tok pos (se_name e)] = se_name e).
  { unfold name_str. rewrite (stringify_name_lit env (word_tok pos (se_name e)) (se_name e) _ eq_refl). reflexivity. }
  rewrite E1. f_equal.
  - unfold elem_value, elem_text_value. destruct (se_text e) as [T|]; [|reflexivity].
    set (p := pos + length (se_name e) + length (parts_text (se_parts e)) + 1).
    destruct T as [|t0 T']; [reflexivity|].
    destruct (text_tokens_nonempty p (t0 :: T') ltac:(discriminate)) as [t [l E]].
    rewrite E. cbn [nonempty option_map]. rewrite <- E. unfold value_toks, value_acc.
    pose proof (stringify_text env p (t0 :: T') (st_of [])) as Hs. unfold stringify_value in Hs. rewrite Hs. reflexivity.
  - pose proof (pointwise_parts env (se_parts e) (pos + length (se_name e)) Hp) as Hpw.
    pose proof (Forall2_len _ _ _ Hpw) as Hlen.
    unfold elem_tattrs, written_mentions, attrs_opt.
    destruct (se_parts e) as [|p ps] eqn:Eps; [reflexivity|]. rewrite <- Eps in *.
    rewrite <- (map_attr_of env _ _ Hpw).
    destruct (parts_tattrs (pos + length (se_name e)) (se_parts e)) as [|x l]; reflexivity.
Qed.

(* unrolling a good tree: one node per written element, children below it *)
Lemma unroll_good env : forall n, good Pleaf n -> forall d,
  apreNL d (unroll env [] n) = map (fun x => (fst x, leaf_anode env (snd x))) (pre d n).
Proof.
  induction n as [a b c r s els IH|els r IH] using tnode_ind'; intros H d; [|contradiction].
  apply good_elem in H. destruct H as [[pos [e [Hok El]]] Hk].
  assert (Hr : r = None) by (unfold elem_leaf in El; injection El; auto). subst r.
  rewrite unroll_unfold. cbn [node_rep once_u]. rewrite pre_elem. cbn [map fst snd].
  unfold leaf_items.
  assert (Hto : text_only_of (option_map (name_str env []) (nonempty a)) (option_map (map (attr_of env [])) (nonempty b))
                             (option_map (value_toks env []) (nonempty c)) = false).
  { pose proof (leaf_anode_elem env pos e Hok) as E. rewrite <- El in E. unfold leaf_anode, elem_node in E.
    cbn [lf_name lf_attrs lf_value] in E. injection E as E1 _ _ _. rewrite E1.
    destruct Hok as [[Hne _] _]. destruct (se_name e); [congruence|]. reflexivity. }
  rewrite Hto. cbn [apreNL flat_map apreN strip app]. rewrite app_nil_r.
  f_equal.
  clear Hto El. revert d. induction els as [|x l IHl]; intros d; [reflexivity|].
  inversion IH as [|? ? IHx IHr]; subst. inversion Hk as [|? ? Hx Hr]; subst.
  cbn [flat_map preL]. rewrite flat_map_app, map_app.
  change (flat_map (apreN (S d)) (unroll env [] x)) with (apreNL (S d) (unroll env [] x)).
  rewrite (IHx Hx (S d)). f_equal. apply IHl; assumption.
Qed.

Lemma unroll_goodL env : forall els d, Forall (good Pleaf) els ->
  apreNL d (flat_map (unroll env []) els) = map (fun x => (fst x, leaf_anode env (snd x))) (preL d els).
Proof.
  induction els as [|x l IH]; intros d H; [reflexivity|]. inversion H; subst.
  cbn [flat_map preL]. rewrite apreNL_app, map_app. rewrite unroll_good by assumption. rewrite IH by assumption. reflexivity.
Qed.

(* ================================================================ C. resolution and transform leave the places alone *)
Fixpoint nodes (n : anode) : list anode :=
  match n with ANode _ _ _ _ ch _ => strip n :: flat_map nodes ch end.

Lemma apreN_nodes : forall n d, map snd (apreN d n) = nodes n.
Proof.
  apply (anode_ind' (fun n => forall d, map snd (apreN d n) = nodes n)).
  intros nm v rp at_ ch sc HF d. cbn [apreN nodes map snd]. f_equal.
  induction ch as [|c k IH]; [reflexivity|]. inversion HF as [|? ? Hc Hl]; subst.
  cbn [flat_map]. rewrite map_app. rewrite Hc. f_equal. apply IH. assumption.
Qed.

Lemma apreNL_nodes l d : map snd (apreNL d l) = flat_map nodes l.
Proof.
  induction l as [|x l IH]; [reflexivity|]. unfold apreNL in *. cbn [flat_map]. rewrite map_app, apreN_nodes, IH. reflexivity.
Qed.

(* no node is a snippet: walk_resolve returns the forest *)
Section NoSnippet.
  Variable cfg : mconfig.
  Variable stack : list str.
  Variable rec : list str -> list anode -> res (list anode).

  Definition nosnip (n : anode) : Prop := snippet_of cfg stack (an_name n) = None.

  Lemma walk_node_id : forall n, Forall nosnip (nodes n) -> walk_node' cfg stack rec n = Ok [n].
  Proof.
    apply (anode_ind' (fun n => Forall nosnip (nodes n) -> walk_node' cfg stack rec n = Ok [n])).
    intros nm v rp at_ ch sc HF H. cbn [nodes] in H. inversion H as [|x y Hn Hk]; subst.
    unfold nosnip in Hn. cbn [strip an_name] in Hn. cbn [walk_node']. rewrite Hn.
    set (walk_kids := fix walk_kids (k : list anode) : res (list anode) :=
             match k with
             | [] => Ok []
             | c :: k' => let* a := walk_node' cfg stack rec c in let* b := walk_kids k' in Ok (a ++ b)
             end).
    assert (HK : walk_kids ch = Ok ch).
    { clear -HF Hk. induction ch as [|c k IH]; [reflexivity|].
      inversion HF as [|? ? Hc Hl]; subst. cbn [flat_map] in Hk. apply Forall_app in Hk. destruct Hk as [Hk1 Hk2].
      cbn [walk_kids]. rewrite (Hc Hk1). cbn [bind]. fold walk_kids. rewrite (IH Hl Hk2). reflexivity. }
    rewrite HK. reflexivity.
  Qed.

  Lemma walk_list_id : forall l, Forall nosnip (flat_map nodes l) -> walk_list' cfg stack rec l = Ok l.
  Proof.
    induction l as [|c r IH]; intros H; [reflexivity|]. cbn [flat_map] in H. apply Forall_app in H. destruct H as [H1 H2].
    cbn [walk_list']. rewrite (walk_node_id c H1). cbn [bind]. rewrite (IH H2). reflexivity.
  Qed.
End NoSnippet.

(* transform: every node keeps its place; its attributes are merged *)
Definition quiet_name (cfg : mconfig) (nm : option str) : Prop :=
  match nm with
  | Some ((_ :: _) as name) =>
      match_lorem name = LNo /\ str_eqb name s_label = false /\
      str_eqb (mc_syntax cfg) s_xsl && (str_eqb name s_xsl_variable || str_eqb name s_xsl_with_param) = false
  | _ => False
  end.
Definition quiet_node (cfg : mconfig) (n : anode) : Prop := quiet_name cfg (an_name n).

Definition merge_node (cfg : mconfig) (n : anode) : anode :=
  match n with ANode nm v rp at_ ch sc => ANode nm v rp (merge_attributes (mc_reverse_attrs cfg) at_) ch sc end.
Fixpoint tmap (cfg : mconfig) (n : anode) : anode :=
  match n with
  | ANode nm v rp at_ ch sc => ANode nm v rp (merge_attributes (mc_reverse_attrs cfg) at_) (map (tmap cfg) ch) sc
  end.

Lemma transform_node_quiet cfg pn top n :
  quiet_node cfg n -> transform_node_pre cfg pn top n = (merge_node cfg n, false).
Proof.
  destruct n as [nm v rp at_ ch sc]. unfold quiet_node, quiet_name. cbn [an_name].
  destruct nm as [[|c0 name]|]; try contradiction. intros [Hl [Hlab Hx]].
  unfold transform_node_pre, merge_node. cbn [nonempty]. rewrite Hl. cbn [opt_str_eqb]. rewrite Hlab. cbn [andb].
  destruct (str_eqb (mc_syntax cfg) s_xsl && (str_eqb (c0 :: name) s_xsl_variable || str_eqb (c0 :: name) s_xsl_with_param));
    [discriminate|]. cbn [andb]. reflexivity.
Qed.

(* BEM off: transform is the steps before the addon *)
Lemma transform_tree_quiet cfg : mc_bem cfg = false -> forall n pn top anc,
  Forall (quiet_node cfg) (nodes n) ->
  exists path, transform_tree cfg pn top false anc n = Ok (tmap cfg n, false, path).
Proof.
  intros Hbem.
  apply (anode_ind' (fun n => forall pn top anc, Forall (quiet_node cfg) (nodes n) ->
                               exists path, transform_tree cfg pn top false anc n = Ok (tmap cfg n, false, path))).
  intros nm v rp at_ ch sc HF pn top anc H. cbn [nodes] in H. inversion H as [|x y Hn Hk]; subst.
  assert (Hq : quiet_node cfg (ANode nm v rp at_ ch sc)) by exact Hn.
  rewrite ExpandTree.transform_tree_eq. cbv zeta. cbn [andb].
  assert (Etn : transform_node cfg pn top anc (ANode nm v rp at_ ch sc) =
                Ok (merge_node cfg (ANode nm v rp at_ ch sc), false,
                    anc ++ [MarkupBem.mkP (an_attrs (merge_node cfg (ANode nm v rp at_ ch sc))) None])).
  { unfold transform_node. rewrite (transform_node_quiet cfg pn top _ Hq). rewrite Hbem. reflexivity. }
  assert (Hgo : forall pth, exists pth2, ExpandTree.tt_kids cfg nm ch false pth = Ok (map (tmap cfg) ch, false, pth2)).
  { clear -HF Hk. induction ch as [|c k IH]; intros pth; [eexists; reflexivity|].
    inversion HF as [|? ? Hc Hl]; subst. cbn [flat_map] in Hk. apply Forall_app in Hk. destruct Hk as [Hk1 Hk2].
    destruct (Hc (Some nm) false pth Hk1) as [pth1 Ec].
    cbn [ExpandTree.tt_kids]. fold (ExpandTree.tt_kids cfg nm). rewrite Ec. cbn [bind].
    destruct (IH Hl Hk2 pth1) as [pth2 Ek]. rewrite Ek. cbn [bind map]. eexists. reflexivity. }
  cbn [merge_node] in Etn.
  destruct (Hgo (anc ++ [MarkupBem.mkP (an_attrs (ANode nm v rp (merge_attributes (mc_reverse_attrs cfg) at_) ch sc)) None]))
    as [pth2 Eg].
  exists (firstn (length anc) pth2).
  eapply eq_trans; [apply (ExpandTree.bind_ok _ _ _ Etn)|]. cbv beta iota. cbn [orb andb].
  eapply eq_trans; [apply (ExpandTree.bind_ok _ _ _ Eg)|]. reflexivity.
Qed.

(* a quiet forest has no lorem header: the lorem pass (whatever the oracle stream) leaves it alone *)
Lemma quiet_lorem_free cfg : forall n, Forall (quiet_node cfg) (nodes n) -> LoremFill.lorem_free n = true.
Proof.
  apply (anode_ind' (fun n => Forall (quiet_node cfg) (nodes n) -> LoremFill.lorem_free n = true)).
  intros nm v rp at_ ch sc HF H. cbn [nodes] in H. inversion H as [|x y Hn Hk]; subst.
  rewrite LoremFill.lorem_free_eq.
  assert (Hh : lorem_header nm = LNo).
  { unfold quiet_node, quiet_name in Hn. cbn [an_name] in Hn. destruct nm as [[|c0 name]|]; try contradiction.
    destruct Hn as [Hl _]. exact Hl. }
  rewrite Hh. cbn [andb]. clear H Hn Hh. induction HF as [|c k Hc _ IHk]; [reflexivity|].
  cbn [flat_map] in Hk. apply Forall_app in Hk. destruct Hk as [Hk1 Hk2].
  cbn [forallb]. rewrite (Hc Hk1), (IHk Hk2). reflexivity.
Qed.

Lemma transform_list_quiet cfg : mc_bem cfg = false -> forall l,
  Forall (quiet_node cfg) (flat_map nodes l) -> transform_list cfg l = Ok (map (tmap cfg) l).
Proof.
  intros Hbem l H. rewrite LoremFill.transform_list_free.
  2:{ clear - H. induction l as [|c r IH]; [reflexivity|]. cbn [flat_map] in H. apply Forall_app in H. destruct H as [H1 H2].
      cbn [forallb]. rewrite (quiet_lorem_free cfg c H1), (IH H2). reflexivity. }
  revert H. induction l as [|c r IH]; intros H; [reflexivity|]. cbn [flat_map] in H. apply Forall_app in H. destruct H as [H1 H2].
  cbn [transform_forest map]. destruct (transform_tree_quiet cfg Hbem c None true [] H1) as [path E].
  rewrite E. cbn [bind]. rewrite (IH H2). reflexivity.
Qed.

Lemma strip_tmap cfg n : strip (tmap cfg n) = merge_node cfg (strip n).
Proof. destruct n; reflexivity. Qed.

Lemma apreN_tmap cfg : forall n d, apreN d (tmap cfg n) = map (fun x => (fst x, merge_node cfg (snd x))) (apreN d n).
Proof.
  apply (anode_ind' (fun n => forall d, apreN d (tmap cfg n) = map (fun x => (fst x, merge_node cfg (snd x))) (apreN d n))).
  intros nm v rp at_ ch sc HF d. cbn [tmap apreN map fst snd strip merge_node]. f_equal.
  induction ch as [|c k IH]; [reflexivity|]. inversion HF as [|? ? Hc Hl]; subst.
  cbn [map flat_map]. rewrite map_app, Hc. f_equal. apply IH. assumption.
Qed.

Lemma apreNL_tmap cfg l d : apreNL d (map (tmap cfg) l) = map (fun x => (fst x, merge_node cfg (snd x))) (apreNL d l).
Proof.
  induction l as [|x l IH]; [reflexivity|]. unfold apreNL in *. cbn [map flat_map]. rewrite map_app, apreN_tmap, IH. reflexivity.
Qed.

(* ================================================================ D. the statement theorem *)
Lemma stmt_lay_anodes env : forall xs pos d,
  Forall (fun x => selem_ok (fst x)) xs ->
  map (fun x => (fst x, leaf_anode env (snd x))) (denote d (fst (stmt_lay pos xs))) =
  map (fun x => (fst x, elem_node (snd x))) (edenote d xs).
Proof.
  induction xs as [|[e o] xs' IH]; intros pos d H; [reflexivity|].
  inversion H as [|x l He Hr]; subst. cbn [fst] in *.
  destruct xs' as [|y xs''].
  - cbn [stmt_lay fst denote edenote map snd]. rewrite leaf_anode_elem by exact He. reflexivity.
  - rewrite stmt_lay_cons.
    specialize (IH (pos + length (elem_text e) + length (op_text o)) (next_depth d o) Hr).
    destruct (stmt_lay (pos + length (elem_text e) + length (op_text o)) (y :: xs'')) as [ls ts]. cbn [fst snd] in *.
    cbn [denote edenote map fst snd]. rewrite IH, leaf_anode_elem by exact He. reflexivity.
Qed.

Lemma stmt_lay_Pleaf : forall xs pos,
  Forall (fun x => selem_ok (fst x)) xs -> Forall (fun x => Pleaf (fst x)) (fst (stmt_lay pos xs)).
Proof.
  induction xs as [|[e o] xs' IH]; intros pos H; [constructor|].
  inversion H as [|x l He Hr]; subst. cbn [fst] in *.
  destruct xs' as [|y xs''].
  - cbn [stmt_lay fst]. constructor; [exists pos, e; split; [exact He|reflexivity]|constructor].
  - rewrite stmt_lay_cons.
    specialize (IH (pos + length (elem_text e) + length (op_text o)) Hr).
    destruct (stmt_lay (pos + length (elem_text e) + length (op_text o)) (y :: xs'')) as [ls ts]. cbn [fst snd] in *.
    constructor; [exists pos, e; split; [exact He|reflexivity]|exact IH].
Qed.

(* conditions on an element's name for the resolution / transform stages to leave it alone *)
Definition plain_name (cfg : mconfig) (e : selem) : Prop :=
  assoc_str (se_name e) (mc_snippets cfg) = None /\ quiet_name cfg (Some (se_name e)).

Lemma merge_elem_node cfg e : merge_node cfg (elem_node e) = resolved_node (mc_reverse_attrs cfg) e.
Proof.
  unfold elem_node, resolved_node, merged_mentions, merge_node. rewrite AttrProofs.merge_attributes_spec. unfold attrs_opt.
  destruct (written_mentions e); reflexivity.
Qed.

Theorem statement_markup_parse cfg (xs : list (selem * sop)) :
  Forall (fun x => selem_ok (fst x) /\ jsx_ok (mc_jsx cfg) (fst x) /\ plain_name cfg (fst x)) xs ->
  mc_text cfg = WNone -> mc_bem cfg = false ->
  exists forest,
    markup_parse cfg (stmt_text xs) = Ok forest /\
    apreNL 0 forest = map (fun x => (fst x, resolved_node (mc_reverse_attrs cfg) (snd x))) (edenote 0 xs).
Proof.
  intros H Htext Hbem.
  assert (H1 : Forall selem_ok (map fst xs)).
  { apply Forall_map. eapply Forall_impl; [|exact H]. cbn beta. tauto. }
  assert (H2 : Forall (fun x => selem_ok (fst x)) xs).
  { eapply Forall_impl; [|exact H]. cbn beta. tauto. }
  assert (H3 : Forall (fun x => selem_ok (fst x) /\ jsx_ok (mc_jsx cfg) (fst x)) xs).
  { eapply Forall_impl; [|exact H]. cbn beta. tauto. }
  set (env := mkCenv (mc_text cfg) (mc_variables cfg) (mc_href cfg)).
  destruct (parse_flat_good Pleaf (mc_jsx cfg) _ _ (stmt_lay_flat (mc_jsx cfg) xs 0 H3) (stmt_lay_Pleaf xs 0 H2))
    as [els [Hp [Hd Hg]]].
  (* convert *)
  assert (Hconv : convert env (mc_max_repeat cfg) els = Ok (flat_map (unroll env []) els)).
  { apply convert_enough; [exact Htext| |].
    - apply forallb_forall. intros n Hn. apply good_clean. rewrite Forall_forall in Hg. apply Hg. exact Hn.
    - assert (Ht : total_list els = 0%Z).
      { unfold total_list. clear -Hg. induction Hg as [|n l Hn _ IH]; [reflexivity|].
        cbn [map zsum fold_right]. rewrite (good_total n Hn). exact IH. }
      rewrite Ht. unfold budget_of. destruct (mc_max_repeat cfg); lia. }
  set (F := flat_map (unroll env []) els) in *.
  assert (HF : apreNL 0 F = map (fun x => (fst x, elem_node (snd x))) (edenote 0 xs)).
  { unfold F. rewrite (unroll_goodL env els 0 Hg). rewrite Hd. apply stmt_lay_anodes. exact H2. }
  (* every node of the converted forest is a plainly named written element *)
  assert (Hnodes : flat_map nodes F = map (fun x => elem_node (snd x)) (edenote 0 xs)).
  { rewrite <- apreNL_nodes with (d := 0). rewrite HF. rewrite map_map. reflexivity. }
  assert (Hall : forall (Q : anode -> Prop), (forall e, plain_name cfg e -> selem_ok e -> Q (elem_node e)) ->
                 Forall Q (flat_map nodes F)).
  { intros Q HQ. rewrite Hnodes. apply Forall_map.
    assert (G : forall d, Forall (fun x => Q (elem_node (snd x))) (edenote d xs)).
    { clear -H HQ. induction H as [|[e o] l [He [_ Hn]] _ IH]; intros d; [constructor|].
      cbn [edenote]. constructor; [apply HQ; assumption|apply IH]. }
    apply G. }
  exists (map (tmap cfg) F). split.
  - unfold markup_parse. fold env. unfold parse_abbr.
    rewrite (toks_stmt xs 0 None H1 : tokenize (stmt_text xs) = _). rewrite Hp. rewrite Hconv. cbn [bind].
    rewrite walk_resolve_eq. rewrite walk_list_id.
    + cbn [bind]. rewrite (transform_list_quiet _ Hbem); [reflexivity|].
      apply Hall. intros e [_ Hq] Hok. unfold quiet_node, elem_node. cbn [an_name]. exact Hq.
    + apply Hall. intros e [Hs _] Hok. unfold nosnip, elem_node, snippet_of. cbn [an_name].
      destruct Hok as [[Hne _] _]. destruct (se_name e) as [|c0 nm] eqn:En; [congruence|]. rewrite Hs. reflexivity.
  - rewrite apreNL_tmap, HF, map_map. apply map_ext. intros [d e]. cbn [fst snd]. rewrite merge_elem_node. reflexivity.
Qed.

(* ================================================================ E. the preorder list determines the forest *)
Lemma apreN_depths : forall n d, Forall (fun p => d <= fst p) (apreN d n).
Proof.
  apply (anode_ind' (fun n => forall d, Forall (fun p => d <= fst p) (apreN d n))).
  intros nm v rp at_ ch sc HF d. cbn [apreN]. constructor; [cbn [fst]; lia|].
  induction ch as [|k r IH]; [constructor|]. inversion HF as [|? ? Hk Hr]; subst.
  cbn [flat_map]. apply Forall_app. split; [|apply IH; exact Hr].
  eapply Forall_impl; [|apply (Hk (S d))]. cbn beta. intros p Hp. lia.
Qed.

Lemma apreNL_depths l d : Forall (fun p => d <= fst p) (apreNL d l).
Proof.
  induction l as [|n r IH]; [constructor|]. unfold apreNL in *. cbn [flat_map].
  apply Forall_app. split; [apply apreN_depths|exact IH].
Qed.

Definition starts_le (d : nat) (m : list (nat * anode)) : Prop :=
  match m with [] => True | p :: _ => fst p <= d end.

Lemma apreNL_starts l d : starts_le d (apreNL d l).
Proof. destruct l as [|[nm v rp at_ ch sc] r]; [exact I|]. cbn. lia. Qed.

Lemma split_by_depth d : forall (l1 l2 m1 m2 : list (nat * anode)),
  Forall (fun p => S d <= fst p) l1 -> Forall (fun p => S d <= fst p) l2 ->
  starts_le d m1 -> starts_le d m2 -> l1 ++ m1 = l2 ++ m2 -> l1 = l2 /\ m1 = m2.
Proof.
  induction l1 as [|p l1 IH]; intros l2 m1 m2 H1 H2 S1 S2 E.
  - destruct l2 as [|q l2]; [split; [reflexivity|exact E]|].
    cbn [app] in E. subst m1. cbn [starts_le] in S1. inversion H2; subst. lia.
  - destruct l2 as [|q l2].
    + cbn [app] in E. subst m2. cbn [starts_le] in S2. inversion H1; subst. lia.
    + cbn [app] in E. injection E as -> E. inversion H1; subst. inversion H2; subst.
      destruct (IH l2 m1 m2) as [-> ->]; try assumption. split; reflexivity.
Qed.

Definition node_inj (n : anode) : Prop :=
  forall d r1 n2 r2, apreN d n ++ apreNL d r1 = apreN d n2 ++ apreNL d r2 -> n = n2 /\ apreNL d r1 = apreNL d r2.

Lemma forest_inj_from : forall l, Forall node_inj l -> forall d l2, apreNL d l = apreNL d l2 -> l = l2.
Proof.
  induction l as [|k r IH]; intros HF d l2 E.
  - destruct l2 as [|[nm v rp at_ ch sc] r2]; [reflexivity|discriminate].
  - destruct l2 as [|k2 r2]; [destruct k; discriminate|].
    inversion HF as [|? ? Hk Hr]; subst. unfold apreNL in E. cbn [flat_map] in E.
    destruct (Hk d r k2 r2 E) as [-> E2]. f_equal. apply (IH Hr d). exact E2.
Qed.

Lemma node_inj_all : forall n, node_inj n.
Proof.
  apply anode_ind'. intros nm v rp at_ ch sc HF d r1 [nm2 v2 rp2 at2 ch2 sc2] r2 E.
  cbn [apreN strip] in E. cbn [app] in E. injection E as E1 E2 E3 E4 E5 E.
  fold (apreNL (S d) ch) in E. fold (apreNL (S d) ch2) in E.
  destruct (split_by_depth d _ _ _ _ (apreNL_depths ch (S d)) (apreNL_depths ch2 (S d))
                           (apreNL_starts r1 d) (apreNL_starts r2 d) E) as [Ech Er].
  split; [|exact Er]. subst. f_equal. apply (forest_inj_from ch HF (S d)). exact Ech.
Qed.

(* two forests with the same preorder (depth, node) list are equal *)
Theorem apreNL_inj l1 l2 d : apreNL d l1 = apreNL d l2 -> l1 = l2.
Proof.
  apply forest_inj_from. apply Forall_forall. intros n _. apply node_inj_all.
Qed.
