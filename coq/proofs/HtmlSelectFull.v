(* C17 (HTML half), the range LIST of select_item_html as an equation.

   SPEC (short, no scanner in it):
     words s off        the white-space separated words of [s] as ranges, first character at [off]
     strip v            how many characters of a value as written are quotes / braces to be left
                        out: one leading quote (and the same quote at the end when it is there), or
                        one `{` ... `}` pair
     inner v            the value without them
     attr_sel a         the ranges selected for one attribute token: [name start, value end) -- or
                        the name alone for an attribute without value --, then the unquoted value,
                        then for `class` the words of the unquoted value
     squash prev l      what a sequence of push_range calls keeps of [l]: no empty range, no range
                        equal to the one pushed just before it
     tag_sel_ranges     tag name range :: squash of all attr_sel, in order

   THEOREMS: token_list = words (all strings); the loop of get_tag_selection_model = the spec for
   ALL token lists whose values are non-empty slices of the tag source; select_item_html on every
   string and over every ordered event list = the spec applied to the selected event. *)
From Coq Require Import List NArith ZArith Bool Lia ZifyBool.
From Emmet Require Import lib.Base lib.HtmlLib gen.GenHtml model.HtmlScan model.HtmlMatch model.HtmlActions
  proofs.HtmlScanProofs proofs.HtmlFoldProofs proofs.HtmlC16Proofs proofs.HtmlActionsProofs.
Import ListNotations.
Local Open Scope Z_scope.

(* ================================================================== SPEC *)
(* [pos] = offset of the head of [s]; [cur] = where the word being read began *)
Fixpoint words_go (pos : Z) (cur : option Z) (s : str) : list range :=
  match s with
  | [] => match cur with Some b => [(b, pos)] | None => [] end
  | c :: r =>
      if is_space c
      then match cur with Some b => [(b, pos)] | None => [] end ++ words_go (pos + 1) None r
      else words_go (pos + 1) (Some (match cur with Some b => b | None => pos end)) r
  end.
Definition words (s : str) (off : Z) : list range := words_go off None s.

Definition strip (v : str) : nat * nat :=
  match v with
  | [] => (O, O)
  | c :: _ =>
      let l := last v c in
      if is_quote c then (1%nat, if (l =? c)%N then 1%nat else O)
      else if (c =? c_lbrace)%N && (l =? c_rbrace)%N then (1%nat, 1%nat) else (O, O)
  end.
Definition inner (v : str) : str :=
  firstn (length v - fst (strip v) - snd (strip v)) (skipn (fst (strip v)) v).

(* the ranges of one attribute token whose offsets count from [st] *)
Definition attr_ranges (st : Z) (a : attr) : list range :=
  match a_value a with
  | None => [(st + Z.of_N (a_ns a), st + Z.of_N (a_ne a))]
  | Some (v, vs, ve) =>
      let x := st + Z.of_N vs + Z.of_nat (fst (strip v)) in
      let y := st + Z.of_N ve - Z.of_nat (snd (strip v)) in
      (st + Z.of_N (a_ns a), st + Z.of_N ve) :: (x, y) ::
      (if str_eqb (a_name a) class_name then words (inner v) x else [])
  end.
(* ... for a token with offsets into the document *)
Definition attr_sel (a : attr) : list range :=
  match a_value a with
  | None => [(Z.of_N (a_ns a), Z.of_N (a_ne a))]
  | Some (v, vs, ve) =>
      let x := Z.of_N vs + Z.of_nat (fst (strip v)) in
      let y := Z.of_N ve - Z.of_nat (snd (strip v)) in
      (Z.of_N (a_ns a), Z.of_N ve) :: (x, y) ::
      (if str_eqb (a_name a) class_name then words (inner v) x else [])
  end.

Definition range_eqb (a b : range) : bool := (fst a =? fst b) && (snd a =? snd b).
Fixpoint squash (prev : option range) (l : list range) : list range :=
  match l with
  | [] => []
  | r :: rest =>
      if (fst r =? snd r) || match prev with Some p => range_eqb p r | None => false end
      then squash prev rest
      else r :: squash (Some r) rest
  end.

Definition name_range (start : N) (name : str) : range :=
  (Z.of_N start + 1, Z.of_N start + 1 + Z.of_nat (length name)).
(* the ranges of a tag that starts at [start], given its attribute tokens (document offsets) *)
Definition tag_sel_ranges (start : N) (name : str) (attrs : list attr) : list range :=
  name_range start name :: squash (Some (name_range start name)) (flat_map attr_sel attrs).
Definition tag_sel (code : str) (e : event) : sel_model :=
  mkSel (Z.of_N (ev_start e)) (Z.of_N (ev_end e))
        (tag_sel_ranges (ev_start e) (ev_name e) (get_attributes code (ev_start e) (ev_end e) (ev_name e))).

(* ================================================================== token_list = words *)
Lemma span_pos_head p c r k : (S k <= span p (c :: r))%nat -> p c = true /\ (k <= span p r)%nat.
Proof. cbn [span]. destruct (p c); [lia|lia]. Qed.

Lemma token_list_go_words offset : forall s pos,
  (forall start, start <= pos ->
     token_list_go offset 0 pos start s =
     words_go (offset + pos) (if start =? pos then None else Some (offset + start)) s) /\
  (forall k, (k <= span is_space s)%nat ->
     token_list_go offset k pos (pos + Z.of_nat k) s = words_go (offset + pos) None s).
Proof.
  induction s as [|c r IH]; intros pos.
  - split.
    + intros start Hs. cbn [token_list_go words_go]. destruct (start =? pos); reflexivity.
    + intros k Hk. cbn [span] in Hk. assert (k = O) by lia. subst k. cbn [token_list_go words_go].
      replace (pos + Z.of_nat 0) with pos by lia. rewrite Z.eqb_refl. reflexivity.
  - destruct (IH (pos + 1)) as [IHa IHb].
    assert (A : forall start, start <= pos ->
              token_list_go offset 0 pos start (c :: r) =
              words_go (offset + pos) (if start =? pos then None else Some (offset + start)) (c :: r)).
    { intros start Hs. cbn [token_list_go words_go]. destruct (is_space c) eqn:Ec.
      - f_equal.
        + destruct (start =? pos); reflexivity.
        + replace (pos + 1 + Z.of_nat (span is_space r)) with ((pos + 1) + Z.of_nat (span is_space r)) by lia.
          rewrite IHb by lia. f_equal. lia.
      - rewrite IHa by lia.
        replace (offset + (pos + 1)) with (offset + pos + 1) by lia.
        assert (E1 : (start =? pos + 1) = false) by lia. rewrite E1.
        destruct (start =? pos) eqn:E2; [|reflexivity].
        assert (start = pos) by lia. subst. reflexivity. }
    split; [exact A|].
    intros k Hk. destruct k as [|k].
    + replace (pos + Z.of_nat 0) with pos by lia. rewrite A by lia. rewrite Z.eqb_refl. reflexivity.
    + apply span_pos_head in Hk. destruct Hk as [Hc Hk].
      cbn [token_list_go words_go]. rewrite Hc. cbn [app].
      replace (pos + Z.of_nat (S k)) with ((pos + 1) + Z.of_nat k) by lia.
      rewrite IHb by exact Hk. f_equal. lia.
Qed.

Theorem token_list_words (v : str) (off : Z) : token_list v off = words v off.
Proof.
  unfold token_list, words. destruct (token_list_go_words off v 0) as [A _].
  rewrite A by lia. rewrite Z.eqb_refl. f_equal. lia.
Qed.

(* ================================================================== push_range = squash *)
Definition last_range (l : list range) : option range := hd_error (rev l).

Lemma last_range_snoc l r : last_range (l ++ [r]) = Some r.
Proof. unfold last_range. rewrite rev_app_distr. reflexivity. Qed.

Lemma push_range_squash ranges rng :
  push_range ranges rng = ranges ++ squash (last_range ranges) [rng].
Proof.
  unfold push_range, last_range. cbn [squash]. destruct (fst rng =? snd rng); cbn [orb].
  - rewrite app_nil_r. reflexivity.
  - destruct (rev ranges) as [|prev t]; cbn [hd_error]; [reflexivity|].
    unfold range_eqb.
    destruct (fst prev =? fst rng); destruct (snd prev =? snd rng); cbn [negb orb andb];
      try reflexivity; rewrite app_nil_r; reflexivity.
Qed.

Lemma push_range_empty ranges rng : fst rng = snd rng -> push_range ranges rng = ranges.
Proof. intros H. unfold push_range. rewrite H, Z.eqb_refl. reflexivity. Qed.

Lemma fold_push_squash : forall l ranges,
  fold_left push_range l ranges = ranges ++ squash (last_range ranges) l.
Proof.
  induction l as [|r l IH]; intros ranges; cbn [fold_left squash]; [rewrite app_nil_r; reflexivity|].
  rewrite IH. rewrite push_range_squash. cbn [squash].
  destruct ((fst r =? snd r) || match last_range ranges with Some p => range_eqb p r | None => false end).
  - rewrite app_nil_r. reflexivity.
  - rewrite last_range_snoc. rewrite <- app_assoc. reflexivity.
Qed.

Lemma squash_app : forall a b prev,
  squash prev (a ++ b) =
  squash prev a ++ squash (match last_range (squash prev a) with Some r => Some r | None => prev end) b.
Proof.
  induction a as [|r a IH]; intros b prev; cbn [app squash]; [reflexivity|].
  destruct ((fst r =? snd r) || match prev with Some p => range_eqb p r | None => false end).
  - apply IH.
  - rewrite IH. cbn [app]. f_equal. f_equal.
    unfold last_range. cbn [rev].
    destruct (rev (squash (Some r) a)) as [|x t] eqn:E; cbn [app hd_error]; reflexivity.
Qed.

(* ================================================================== value_range = strip *)
Lemma last_rev_hd {A} (v : list A) d l t : rev v = l :: t -> last v d = l.
Proof.
  intros H. apply (f_equal (@rev A)) in H. rewrite rev_involutive in H. subst v.
  cbn [rev]. apply last_last.
Qed.

Lemma value_range_strip v vs ve :
  v <> [] ->
  value_range v vs ve = Ok (vs + Z.of_nat (fst (strip v)), ve - Z.of_nat (snd (strip v))).
Proof.
  intros Hne. unfold value_range, strip. destruct v as [|ch r]; [congruence|].
  destruct (rev (ch :: r)) as [|last_ch t] eqn:Er.
  { apply (f_equal (@length char)) in Er. rewrite rev_length in Er. cbn [length] in Er. lia. }
  rewrite (last_rev_hd (ch :: r) ch last_ch t Er).
  unfold is_quote.
  destruct ((ch =? c_dquote)%N || (ch =? c_squote)%N).
  - cbn [fst snd]. destruct (last_ch =? ch)%N; f_equal; f_equal; lia.
  - destruct ((ch =? c_lbrace)%N && (last_ch =? c_rbrace)%N); cbn [fst snd]; f_equal; f_equal; lia.
Qed.

Lemma strip_bounds v : value_shape v -> (fst (strip v) + snd (strip v) <= length v)%nat.
Proof.
  unfold value_shape, strip. destruct v as [|c r]; [tauto|]. intros H.
  destruct (is_quote c) eqn:Eq.
  - specialize (H eq_refl). destruct r; [congruence|]. cbn [fst snd length].
    destruct (last (c :: c0 :: r) c =? c)%N; lia.
  - destruct ((c =? c_lbrace)%N && (last (c :: r) c =? c_rbrace)%N) eqn:Eb; cbn [fst snd length]; [|lia].
    destruct r as [|c2 r']; [|cbn [length]; lia].
    cbn [last] in Eb. apply andb_true_iff in Eb. destruct Eb as [B1 B2].
    apply N.eqb_eq in B1, B2. rewrite B1 in B2. discriminate.
Qed.

(* the slice the code takes for the class tokens is the unquoted value *)
Lemma py_slice_inner (tag_src v : str) (vs ve : N) :
  v = sliceN tag_src vs ve -> (vs < ve)%N -> (ve <= N.of_nat (length tag_src))%N -> value_shape v ->
  py_slice tag_src (Z.of_N vs + Z.of_nat (fst (strip v))) (Z.of_N ve - Z.of_nat (snd (strip v))) = inner v.
Proof.
  intros Hv Hlt Hle Hsh.
  pose proof (strip_bounds v Hsh) as Hb.
  assert (Hlen : length v = N.to_nat (ve - vs)) by (subst v; apply sliceN_length; lia).
  unfold inner. set (f := fst (strip v)) in *. set (b := snd (strip v)) in *.
  unfold py_slice, py_index.
  assert (E1 : (Z.of_N vs + Z.of_nat f <? 0) = false) by lia.
  assert (E2 : (Z.of_N ve - Z.of_nat b <? 0) = false) by lia.
  rewrite E1, E2.
  replace (Z.to_nat (Z.min (Z.of_N ve - Z.of_nat b) (Z.of_nat (length tag_src)) -
                     Z.min (Z.of_N vs + Z.of_nat f) (Z.of_nat (length tag_src))))
    with (length v - f - b)%nat by lia.
  replace (Z.to_nat (Z.min (Z.of_N vs + Z.of_nat f) (Z.of_nat (length tag_src)))) with (N.to_nat vs + f)%nat by lia.
  clearbody f b. subst v. unfold sliceN in *. symmetry.
  rewrite Hlen. apply frag_slice.
  rewrite firstn_length, skipn_length. rewrite firstn_length, skipn_length in Hlen, Hb. lia.
Qed.

(* ================================================================== the loop of get_tag_selection_model *)
(* a token whose value is a non-empty slice of the string given to attributes() *)
Definition tok_ok (tag_src : str) (a : attr) : Prop :=
  match a_value a with
  | None => True
  | Some (v, vs, ve) =>
      v = sliceN tag_src vs ve /\ (vs < ve)%N /\ (ve <= N.of_nat (length tag_src))%N /\ value_shape v
  end.

Lemma attrs_sorted_tok_ok src : forall l lo,
  attrs_sorted src lo (N.of_nat (length src)) l -> Forall (tok_ok src) l.
Proof.
  induction l as [|a l IH]; intros lo H; [constructor|].
  cbn [attrs_sorted] in H. destruct H as [Hw Hr]. constructor; [|eapply IH; exact Hr].
  unfold attr_wf in Hw. destruct Hw as (_ & _ & _ & W4). unfold tok_ok.
  destruct (a_value a) as [[[v vs] ve]|]; [|exact I].
  destruct W4 as (X1 & X2 & X3 & X4 & X5). repeat split; assumption.
Qed.

Theorem selection_ranges_eq (tag_src : str) (st : Z) : forall attrs ranges,
  Forall (tok_ok tag_src) attrs ->
  selection_ranges tag_src st attrs ranges =
  Ok (fold_left push_range (flat_map (attr_ranges st) attrs) ranges).
Proof.
  induction attrs as [|a rest IH]; intros ranges HF; cbn [selection_ranges flat_map]; [reflexivity|].
  inversion HF as [|? ? Ha Hrest]; subst. rewrite fold_left_app.
  unfold tok_ok in Ha.
  destruct (a_value a) as [[[v vs] ve]|] eqn:Ev.
  - assert (Ea : attr_ranges st a =
                 (st + Z.of_N (a_ns a), st + Z.of_N ve) ::
                 (st + Z.of_N vs + Z.of_nat (fst (strip v)), st + Z.of_N ve - Z.of_nat (snd (strip v))) ::
                 (if str_eqb (a_name a) class_name
                  then words (inner v) (st + Z.of_N vs + Z.of_nat (fst (strip v))) else []))
      by (unfold attr_ranges; rewrite Ev; reflexivity).
    rewrite Ea. clear Ea.
    destruct Ha as (Hv & Hlt & Hle & Hsh).
    assert (Hne : v <> []) by (destruct v; [destruct Hsh|discriminate]).
    rewrite (value_range_strip v (Z.of_N vs) (Z.of_N ve) Hne). cbn [bind fst snd].
    rewrite (py_slice_inner tag_src v vs ve Hv Hlt Hle Hsh).
    rewrite token_list_words.
    set (x := Z.of_N vs + Z.of_nat (fst (strip v))).
    set (y := Z.of_N ve - Z.of_nat (snd (strip v))).
    replace (st + Z.of_N vs + Z.of_nat (fst (strip v))) with (st + x) by (unfold x; lia).
    replace (st + Z.of_N ve - Z.of_nat (snd (strip v))) with (st + y) by (unfold y; lia).
    rewrite IH by exact Hrest. f_equal. f_equal.
    cbn [fold_left].
    pose proof (strip_bounds v Hsh) as Hb.
    assert (Hlen : length v = N.to_nat (ve - vs)) by (subst v; apply sliceN_length; lia).
    destruct (x =? y) eqn:Exy.
    + (* empty unquoted value: nothing pushed, and the spec's entries are dropped by push_range *)
      assert (Hin : inner v = []).
      { unfold inner. replace (length v - fst (strip v) - snd (strip v))%nat with O by (unfold x, y in Exy; lia).
        reflexivity. }
      rewrite Hin. unfold words. cbn [words_go]. destruct (str_eqb (a_name a) class_name); cbn [fold_left].
      * rewrite (push_range_empty _ (st + x, st + y)) by (cbn [fst snd]; lia). reflexivity.
      * rewrite (push_range_empty _ (st + x, st + y)) by (cbn [fst snd]; lia). reflexivity.
    + destruct (str_eqb (a_name a) class_name); reflexivity.
  - assert (Ea : attr_ranges st a = [(st + Z.of_N (a_ns a), st + Z.of_N (a_ne a))])
      by (unfold attr_ranges; rewrite Ev; reflexivity).
    rewrite Ea. cbn [fold_left]. apply IH. exact Hrest.
Qed.

(* offsets counted from the tag start = document offsets of the shifted token *)
Lemma attr_ranges_shift (start : N) (a : attr) :
  attr_ranges (Z.of_N start) a = attr_sel (shift_attr start a).
Proof.
  unfold attr_ranges, attr_sel, shift_attr. cbn [a_value a_ns a_ne a_name].
  destruct (a_value a) as [[[v vs] ve]|].
  - replace (Z.of_N (vs + start) + Z.of_nat (fst (strip v))) with (Z.of_N start + Z.of_N vs + Z.of_nat (fst (strip v))) by lia.
    f_equal; [f_equal; lia|]. f_equal. f_equal; lia.
  - f_equal. f_equal; lia.
Qed.

Lemma flat_map_attr_ranges_shift (start : N) : forall l,
  flat_map (attr_ranges (Z.of_N start)) l = flat_map attr_sel (map (shift_attr start) l).
Proof.
  induction l as [|a l IH]; [reflexivity|]. cbn [flat_map map]. rewrite IH, attr_ranges_shift. reflexivity.
Qed.

(* get_tag_selection_model on ANY range of ANY string *)
Theorem get_tag_selection_model_eq (code name : str) (start stop : N) :
  get_tag_selection_model code name start stop =
  Ok (mkSel (Z.of_N start) (Z.of_N stop) (tag_sel_ranges start name (get_attributes code start stop name))).
Proof.
  unfold get_tag_selection_model, tag_sel_ranges, get_attributes.
  set (tag_src := sliceN code start stop).
  pose proof (attributes_sorted tag_src (Some name)) as Hs.
  apply attrs_sorted_tok_ok in Hs.
  rewrite (selection_ranges_eq tag_src (Z.of_N start) _ _ Hs). cbn [bind].
  rewrite fold_push_squash. rewrite flat_map_attr_ranges_shift.
  reflexivity.
Qed.

(* ================================================================== the public function *)
(* over every ordered event list (scan ran to its end without raising) *)
Theorem select_item_html_of_eq (code : str) (evs : list event) (lo : N) (pos : Z) (is_prev : bool) :
  events_ordered lo evs ->
  select_item_html_of code (evs, None) pos is_prev =
  Ok (option_map (tag_sel code) (select_target pos is_prev evs)).
Proof.
  intros Hord. unfold select_item_html_of, select_target. destruct is_prev.
  - unfold select_previous_item_of. cbn [fst snd].
    pose proof (prev_item_go_spec pos evs lo None Hord) as Hp.
    destruct (prev_item_go pos None evs) as [stopped last]. cbn [snd] in Hp.
    assert (Hlast : last = last_opt (filter (prev_pred pos) evs)).
    { rewrite Hp. destruct (last_opt (filter (prev_pred pos) evs)); reflexivity. }
    rewrite <- Hlast.
    destruct last as [e|].
    + rewrite get_tag_selection_model_eq. cbn [bind option_map]. destruct stopped; reflexivity.
    + destruct stopped; reflexivity.
  - unfold select_next_item_of, after_scan. cbn [fst snd]. rewrite next_item_go_spec.
    destruct (find (next_pred pos) evs) as [e|]; cbn [bind option_map].
    + rewrite get_tag_selection_model_eq. reflexivity.
    + reflexivity.
Qed.

(* on every string *)
Theorem select_item_html_eq (o : opts) (code : str) (pos : Z) (is_prev : bool) :
  select_item_html o code pos is_prev =
  Ok (option_map (tag_sel code) (select_target pos is_prev (fst (scan (o_special o) code)))).
Proof.
  unfold select_item_html.
  destruct (scan_events_wf (o_special o) code) as [_ Hord].
  pose proof (scan_no_internal_error (o_special o) code) as Herr.
  destruct (scan (o_special o) code) as [evs err]. cbn [fst snd] in *. subst err.
  eapply select_item_html_of_eq. exact Hord.
Qed.

(* ================================================================== what the words are *)
(* SPEC of [words]: the ranges are non-empty, in order, with at least one character between two of
   them, inside the string, and a character of the string lies in one of them exactly when it is no
   white space -- i.e. they are the maximal runs of non-space characters *)
Definition covers (l : list range) (i : Z) : Prop := exists r, In r l /\ fst r <= i /\ i < snd r.
Fixpoint separated (lo : Z) (l : list range) : Prop :=
  match l with
  | [] => True
  | r :: rest => lo <= fst r /\ fst r < snd r /\ separated (snd r + 1) rest
  end.

Lemma separated_weaken : forall l lo lo', lo' <= lo -> separated lo l -> separated lo' l.
Proof. destruct l as [|r rest]; intros lo lo' H S; [exact I|]. cbn [separated] in *. intuition lia. Qed.

Lemma separated_lower : forall l lo, separated lo l -> Forall (fun r => lo <= fst r) l.
Proof.
  induction l as [|r rest IH]; intros lo S; [constructor|]. cbn [separated] in S. destruct S as (A & B & C).
  constructor; [exact A|]. eapply Forall_impl; [|apply (IH _ C)]. cbn beta. intros x Hx. lia.
Qed.

Lemma not_covers_below l lo i : separated lo l -> i < lo -> ~ covers l i.
Proof.
  intros S Hi (r & Hin & A & B). apply separated_lower in S. rewrite Forall_forall in S.
  specialize (S r Hin). cbn beta in S. lia.
Qed.

Definition words_inv (pos : Z) (cur : option Z) (s : str) (l : list range) : Prop :=
  match cur with
  | None => separated pos l
  | Some b => exists e rest, l = (b, e) :: rest /\ pos <= e /\ separated (e + 1) rest
  end /\
  Forall (fun r => snd r <= pos + Z.of_nat (length s)) l /\
  forall i c, nth_error s i = Some c -> (covers l (pos + Z.of_nat i) <-> is_space c = false).

Lemma words_go_inv : forall s pos cur,
  match cur with Some b => b < pos | None => True end ->
  words_inv pos cur s (words_go pos cur s).
Proof.
  induction s as [|c r IH]; intros pos cur Hcur.
  - cbn [words_go]. unfold words_inv. cbn [length]. destruct cur as [b|].
    + split; [exists pos, []; split; [reflexivity|split; [lia|exact I]]|]. split.
      * constructor; [cbn [snd]; lia|constructor].
      * intros i x Hx. destruct i; discriminate.
    + split; [exact I|]. split; [constructor|]. intros i x Hx. destruct i; discriminate.
  - cbn [words_go]. destruct (is_space c) eqn:Ec.
    + destruct (IH (pos + 1) None I) as (Hsep & B & C). cbn beta iota in Hsep.
      set (rest := words_go (pos + 1) None r) in *.
      assert (Hnc : forall i, i <= pos -> ~ covers rest i) by (intros i Hi; eapply not_covers_below; [exact Hsep|lia]).
      assert (Hcov : forall pre, (forall x, In x pre -> snd x <= pos) -> forall i x,
                nth_error (c :: r) i = Some x -> (covers (pre ++ rest) (pos + Z.of_nat i) <-> is_space x = false)).
      { intros pre Hpre i x Hx. destruct i as [|i].
        - cbn in Hx. inversion Hx; subst x. rewrite Ec. split; [|discriminate].
          intros (q & Hin & A1 & A2). exfalso. apply in_app_or in Hin. destruct Hin as [Hin|Hin].
          + specialize (Hpre q Hin). lia.
          + apply (Hnc (pos + Z.of_nat 0)); [lia|]. exists q. auto.
        - cbn [nth_error] in Hx. rewrite <- (C i x Hx).
          replace (pos + Z.of_nat (S i)) with (pos + 1 + Z.of_nat i) by lia.
          split; intros (q & Hin & A1 & A2).
          + apply in_app_or in Hin. destruct Hin as [Hin|Hin]; [specialize (Hpre q Hin); lia|]. exists q. auto.
          + exists q. split; [apply in_or_app; right; exact Hin|auto]. }
      assert (HB : Forall (fun q => snd q <= pos + Z.of_nat (length (c :: r))) rest).
      { eapply Forall_impl; [|exact B]. cbn beta. cbn [length]. intros q Hq. lia. }
      unfold words_inv. destruct cur as [b|].
      * split; [exists pos, rest; split; [reflexivity|split; [lia|exact Hsep]]|]. split.
        -- constructor; [cbn [snd length]; lia|exact HB].
        -- apply (Hcov [(b, pos)]). intros x [<-|[]]. cbn [snd]. lia.
      * split; [cbn [app]; eapply separated_weaken; [|exact Hsep]; lia|]. split; [exact HB|].
        apply (Hcov []). intros x [].
    + set (b' := match cur with Some b => b | None => pos end).
      assert (Hb' : b' <= pos) by (unfold b'; destruct cur; lia).
      destruct (IH (pos + 1) (Some b') ltac:(lia)) as (Hsep & B & C). cbn beta iota in Hsep.
      destruct Hsep as (e & rest & El & He & Srest).
      rewrite El in *.
      assert (HB : Forall (fun q => snd q <= pos + Z.of_nat (length (c :: r))) ((b', e) :: rest)).
      { eapply Forall_impl; [|exact B]. cbn beta. cbn [length]. intros q Hq. lia. }
      assert (Hcov : forall i x, nth_error (c :: r) i = Some x ->
                       (covers ((b', e) :: rest) (pos + Z.of_nat i) <-> is_space x = false)).
      { intros i x Hx. destruct i as [|i].
        - cbn in Hx. inversion Hx; subst x. rewrite Ec. split; [reflexivity|]. intros _.
          exists (b', e). split; [left; reflexivity|]. cbn [fst snd]. lia.
        - cbn [nth_error] in Hx. rewrite <- (C i x Hx).
          replace (pos + Z.of_nat (S i)) with (pos + 1 + Z.of_nat i) by lia. tauto. }
      unfold words_inv. destruct cur as [b|].
      * split; [exists e, rest; split; [reflexivity|split; [lia|exact Srest]]|]. split; [exact HB|exact Hcov].
      * split; [cbn [separated fst snd]; split; [lia|split; [lia|exact Srest]]|]. split; [exact HB|exact Hcov].
Qed.

Theorem words_spec (s : str) (off : Z) :
  separated off (words s off) /\
  Forall (fun r => snd r <= off + Z.of_nat (length s)) (words s off) /\
  forall i c, nth_error s i = Some c -> (covers (words s off) (off + Z.of_nat i) <-> is_space c = false).
Proof. exact (words_go_inv s off None I). Qed.

(* the spec determines the list: two lists with these three properties over the same string are equal,
   so [words] is THE list of maximal non-space runs *)
Lemma covers_cons_iff r rest i : covers (r :: rest) i <-> (fst r <= i /\ i < snd r) \/ covers rest i.
Proof.
  split.
  - intros (q & [<-|Hin] & A); [left; exact A|right; exists q; auto].
  - intros [A|(q & Hin & A)]; [exists r; split; [left; reflexivity|exact A]|exists q; split; [right; exact Hin|exact A]].
Qed.

Lemma covers_nil i : ~ covers [] i.
Proof. intros (q & [] & _). Qed.

Theorem separated_covers_unique : forall l1 l2 lo,
  separated lo l1 -> separated lo l2 -> (forall i, covers l1 i <-> covers l2 i) -> l1 = l2.
Proof.
  induction l1 as [|r1 t1 IH]; intros l2 lo S1 S2 Hc.
  - destruct l2 as [|r2 t2]; [reflexivity|]. exfalso. cbn [separated] in S2. destruct S2 as (A & B & _).
    apply (covers_nil (fst r2)). apply Hc. apply covers_cons_iff. left. lia.
  - destruct l2 as [|r2 t2].
    { exfalso. cbn [separated] in S1. destruct S1 as (A & B & _).
      apply (covers_nil (fst r1)). apply Hc. apply covers_cons_iff. left. lia. }
    cbn [separated] in S1, S2. destruct S1 as (A1 & B1 & C1). destruct S2 as (A2 & B2 & C2).
    assert (N1 : forall i, i <= snd r1 -> ~ covers t1 i) by (intros i Hi; eapply not_covers_below; [exact C1|lia]).
    assert (N2 : forall i, i <= snd r2 -> ~ covers t2 i) by (intros i Hi; eapply not_covers_below; [exact C2|lia]).
    assert (F12 : fst r2 <= fst r1).
    { assert (H : covers (r2 :: t2) (fst r1)) by (apply Hc; apply covers_cons_iff; left; lia).
      apply covers_cons_iff in H. destruct H as [H|H]; [lia|].
      destruct (Z_le_gt_dec (fst r1) (snd r2)) as [L|G]; [exfalso; exact (N2 _ L H)|lia]. }
    assert (F21 : fst r1 <= fst r2).
    { assert (H : covers (r1 :: t1) (fst r2)) by (apply Hc; apply covers_cons_iff; left; lia).
      apply covers_cons_iff in H. destruct H as [H|H]; [lia|].
      destruct (Z_le_gt_dec (fst r2) (snd r1)) as [L|G]; [exfalso; exact (N1 _ L H)|lia]. }
    assert (E1 : snd r1 <= snd r2).
    { destruct (Z_le_gt_dec (snd r1) (snd r2)) as [L|G]; [exact L|exfalso].
      assert (H : covers (r2 :: t2) (snd r2)) by (apply Hc; apply covers_cons_iff; left; lia).
      apply covers_cons_iff in H. destruct H as [H|H]; [lia|]. exact (N2 (snd r2) ltac:(lia) H). }
    assert (E2 : snd r2 <= snd r1).
    { destruct (Z_le_gt_dec (snd r2) (snd r1)) as [L|G]; [exact L|exfalso].
      assert (H : covers (r1 :: t1) (snd r1)) by (apply Hc; apply covers_cons_iff; left; lia).
      apply covers_cons_iff in H. destruct H as [H|H]; [lia|]. exact (N1 (snd r1) ltac:(lia) H). }
    assert (Er : r1 = r2) by (destruct r1, r2; cbn [fst snd] in *; f_equal; lia).
    subst r2. f_equal. apply (IH t2 (snd r1 + 1) C1 C2).
    intros i. split; intros H.
    + assert (H' : covers (r1 :: t2) i) by (apply Hc; apply covers_cons_iff; right; exact H).
      apply covers_cons_iff in H'. destruct H' as [H'|H']; [|exact H'].
      exfalso. exact (N1 i ltac:(lia) H).
    + assert (H' : covers (r1 :: t1) i) by (apply Hc; apply covers_cons_iff; right; exact H).
      apply covers_cons_iff in H'. destruct H' as [H'|H']; [|exact H'].
      exfalso. exact (N2 i ltac:(lia) H).
Qed.

(* ================================================================== what strip / inner mean for the three ways a value is written *)
Lemma strip_quoted q body : is_quote q = true ->
  strip (q :: body ++ [q]) = (1%nat, 1%nat) /\ inner (q :: body ++ [q]) = body.
Proof.
  intros Hq.
  assert (E : strip (q :: body ++ [q]) = (1%nat, 1%nat)).
  { unfold strip. rewrite Hq. change (q :: body ++ [q]) with ((q :: body) ++ [q]). rewrite last_last.
    rewrite N.eqb_refl. reflexivity. }
  split; [exact E|]. unfold inner. rewrite E. cbn [fst snd skipn length]. rewrite app_length. cbn [length].
  replace (S (length body + 1) - 1 - 1)%nat with (length body) by lia.
  rewrite firstn_app, Nat.sub_diag, firstn_all. cbn [firstn]. apply app_nil_r.
Qed.

Lemma strip_braced body :
  strip (c_lbrace :: body ++ [c_rbrace]) = (1%nat, 1%nat) /\ inner (c_lbrace :: body ++ [c_rbrace]) = body.
Proof.
  assert (E : strip (c_lbrace :: body ++ [c_rbrace]) = (1%nat, 1%nat)).
  { unfold strip. change (c_lbrace :: body ++ [c_rbrace]) with ((c_lbrace :: body) ++ [c_rbrace]). rewrite last_last.
    reflexivity. }
  split; [exact E|]. unfold inner. rewrite E. cbn [fst snd skipn length]. rewrite app_length. cbn [length].
  replace (S (length body + 1) - 1 - 1)%nat with (length body) by lia.
  rewrite firstn_app, Nat.sub_diag, firstn_all. cbn [firstn]. apply app_nil_r.
Qed.

Lemma strip_plain c r : is_quote c = false -> (c =? c_lbrace)%N = false ->
  strip (c :: r) = (O, O) /\ inner (c :: r) = c :: r.
Proof.
  intros Hq Hb.
  assert (E : strip (c :: r) = (O, O)) by (unfold strip; rewrite Hq, Hb; reflexivity).
  split; [exact E|]. unfold inner. rewrite E. cbn [fst snd skipn]. rewrite !Nat.sub_0_r. apply firstn_all.
Qed.

(* ================================================================== get_open_tag as an equation, every string *)
(* the ContextTag of a scanner event: a closing tag carries no attributes *)
Definition ctx_of_event (code : str) (e : event) : context_tag :=
  mkCtxTag (ev_name e) (ev_type e) (ev_start e) (ev_end e)
           (match ev_type e with
            | EClose => None
            | _ => Some (get_attributes code (ev_start e) (ev_end e) (ev_name e))
            end).
Definition hits (pos : Z) (e : event) : bool := strictly_in (ev_start e) pos (ev_end e).

Theorem get_open_tag_of_eq (code : str) (evs : list event) (lo : N) (pos : Z) :
  events_ordered lo evs ->
  get_open_tag_of code (evs, None) pos = Ok (option_map (ctx_of_event code) (find (hits pos) evs)).
Proof.
  intros Hord. unfold get_open_tag_of, after_scan. cbn [fst snd].
  destruct (find (hits pos) evs) as [e|] eqn:Ef.
  - apply find_some in Ef. destruct Ef as [Hin Hhit]. unfold hits in Hhit.
    rewrite (open_tag_go_complete pos evs lo e Hord Hin Hhit). reflexivity.
  - destruct (open_tag_go pos evs) as [[e|]|] eqn:Eo; try reflexivity.
    apply open_tag_go_sound in Eo. destruct Eo as [Hin Hhit].
    pose proof (find_none _ _ Ef e Hin) as Hn. unfold hits in Hn. congruence.
Qed.

Theorem get_open_tag_eq (code : str) (pos : Z) :
  get_open_tag code pos =
  Ok (option_map (ctx_of_event code) (find (hits pos) (fst (scan (o_special default_opts) code)))).
Proof.
  unfold get_open_tag.
  destruct (scan_events_wf (o_special default_opts) code) as [_ Hord].
  pose proof (scan_no_internal_error (o_special default_opts) code) as Herr.
  destruct (scan (o_special default_opts) code) as [evs err]. cbn [fst snd] in *. subst err.
  eapply get_open_tag_of_eq. exact Hord.
Qed.
