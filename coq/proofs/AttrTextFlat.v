(* C03 / C01, text level: a flat statement whose elements carry `#id`, `.class` and `[ ... ]` attribute
   sets -- e1 op1 e2 op2 ... en with `>`, `+` and runs of `^` -- tokenizes and parses to the tree the
   operators denote, every element a block with exactly its written attributes
   (AttrTextParse.elem_block plugged into ParserSpine.parse_flat_denote). *)
From Coq Require Import ZArith List Bool Lia.
From Emmet Require Import lib.Base model.MarkupTokenizer model.MarkupParser model.MarkupConvert
     proofs.ParserSpine proofs.ParserGroups proofs.TextSpec proofs.TextProofs proofs.AttrText proofs.AttrTextParse
     proofs.AttrTextConvert.
From Emmet Require proofs.TokenizeRender.
Local Open Scope nat_scope.

Definition op_text := TokenizeRender.op_text.
Definition op_toks := TokenizeRender.op_toks.

(* the text of a statement: elements with the operator written after each; the last has none *)
Fixpoint stmt_text (xs : list (selem * sop)) : str :=
  match xs with
  | [] => []
  | [(e, _)] => elem_text e
  | (e, o) :: xs' => elem_text e ++ op_text o ++ stmt_text xs'
  end.

(* leaves (with the operator after each) and tokens of a statement text starting at [pos] *)
Fixpoint stmt_lay (pos : nat) (xs : list (selem * sop)) : list (leaf * sop) * list token :=
  match xs with
  | [] => ([], [])
  | (e, o) :: xs' =>
      match xs' with
      | [] => ([(elem_leaf pos e, SSibling)], elem_toks pos e)
      | _ :: _ =>
          let p1 := pos + length (elem_text e) in
          let '(ls, ts) := stmt_lay (p1 + length (op_text o)) xs' in
          ((elem_leaf pos e, o) :: ls, elem_toks pos e ++ op_toks o p1 ++ ts)
      end
  end.

Lemma stmt_lay_cons pos e o y xs'' :
  stmt_lay pos ((e, o) :: y :: xs'') =
    (let '(ls, ts) := stmt_lay (pos + length (elem_text e) + length (op_text o)) (y :: xs'') in
     ((elem_leaf pos e, o) :: ls, elem_toks pos e ++ op_toks o (pos + length (elem_text e)) ++ ts)).
Proof. reflexivity. Qed.

Lemma op_text_wstop o rest : estop (op_text o ++ rest).
Proof.
  destruct o; cbn [op_text TokenizeRender.op_text app repeat]; (split; [|reflexivity]);
    cbn [wstop]; (split; [vm_compute; reflexivity|split; [discriminate|intros E; discriminate E]]).
Qed.

Theorem toks_stmt : forall xs pos prev,
  Forall selem_ok (map fst xs) ->
  toks 0 ctx0 prev pos (stmt_text xs) = TOk (snd (stmt_lay pos xs)).
Proof.
  induction xs as [|[e o] xs' IH]; intros pos prev H; [reflexivity|].
  cbn [map fst] in H. inversion H as [|x l He Hr]; subst.
  destruct xs' as [|y xs''].
  - cbn [stmt_text stmt_lay snd]. pose proof (seg_elem 0%Z e He prev pos [] (conj I eq_refl)) as E.
    rewrite app_nil_r in E. change (C0 0) with ctx0 in E. rewrite E. cbn [toks tcons]. rewrite app_nil_r. reflexivity.
  - change (stmt_text ((e, o) :: y :: xs'')) with (elem_text e ++ op_text o ++ stmt_text (y :: xs'')).
    pose proof (seg_elem 0%Z e He prev pos (op_text o ++ stmt_text (y :: xs'')) (op_text_wstop _ _)) as E.
    change (C0 0) with ctx0 in E. rewrite E.
    destruct (TokenizeRender.op_toks_run o (stmt_text (y :: xs'')) (last_prev prev (elem_text e)) (pos + length (elem_text e)))
      as [prev' E2].
    unfold op_text. rewrite E2.
    rewrite (IH (pos + length (elem_text e) + length (TokenizeRender.op_text o)) prev' Hr).
    rewrite stmt_lay_cons. unfold op_text, op_toks.
    destruct (stmt_lay (pos + length (elem_text e) + length (TokenizeRender.op_text o)) (y :: xs'')) as [ls ts].
    cbn [snd tcons]. reflexivity.
Qed.

Theorem stmt_lay_flat jsx : forall xs pos,
  Forall (fun x => selem_ok (fst x) /\ jsx_ok jsx (fst x)) xs ->
  flat jsx (fst (stmt_lay pos xs)) (snd (stmt_lay pos xs)).
Proof.
  induction xs as [|[e o] xs' IH]; intros pos H; [apply flat_nil|].
  inversion H as [|x l [He Hj] Hr]; subst. cbn [fst] in *.
  destruct xs' as [|y xs''].
  - cbn [stmt_lay fst snd]. apply flat_last. apply elem_block; assumption.
  - rewrite stmt_lay_cons.
    specialize (IH (pos + length (elem_text e) + length (op_text o)) Hr).
    destruct (stmt_lay (pos + length (elem_text e) + length (op_text o)) (y :: xs'')) as [ls ts]. cbn [fst snd] in *.
    apply flat_cons; [apply elem_block; assumption|apply TokenizeRender.op_toks_tokens|exact IH].
Qed.

(* the depth list the operators denote, over the written elements *)
Fixpoint edenote (d : nat) (xs : list (selem * sop)) : list (nat * selem) :=
  match xs with
  | [] => []
  | (e, o) :: xs' => (d, e) :: edenote (next_depth d o) xs'
  end.

Lemma stmt_lay_denote env : forall xs pos d,
  Forall (fun x => selem_ok (fst x)) xs ->
  Forall2 (fun dl de => fst dl = fst de /\
                        forall st, conv_stmt env (leaf_node (snd dl)) st = Ok ([elem_node (snd de)], st))
          (denote d (fst (stmt_lay pos xs))) (edenote d xs).
Proof.
  induction xs as [|[e o] xs' IH]; intros pos d H; [constructor|].
  inversion H as [|x l He Hr]; subst. cbn [fst] in *.
  destruct xs' as [|y xs''].
  - cbn [stmt_lay fst denote edenote]. constructor; [|constructor]. split; [reflexivity|]. intros st. apply conv_elem. exact He.
  - rewrite stmt_lay_cons.
    specialize (IH (pos + length (elem_text e) + length (op_text o)) (next_depth d o) Hr).
    destruct (stmt_lay (pos + length (elem_text e) + length (op_text o)) (y :: xs'')) as [ls ts]. cbn [fst snd] in *.
    cbn [denote edenote]. constructor; [|exact IH].
    split; [reflexivity|]. intros st. apply conv_elem. exact He.
Qed.

(* C03 + C01 at text level: the statement tokenizes and parses; the parsed tree's preorder depth list is
   the one the operators denote, and the element at each place converts to ONE node carrying exactly the
   mentions written on it *)
Theorem statement_attributes_text jsx env (xs : list (selem * sop)) :
  Forall (fun x => selem_ok (fst x) /\ jsx_ok jsx (fst x)) xs ->
  exists toks els,
    tokenize (stmt_text xs) = TOk toks /\ parse jsx toks = POk els /\
    Forall2 (fun dl de => fst dl = fst de /\
                          forall st, conv_stmt env (leaf_node (snd dl)) st = Ok ([elem_node (snd de)], st))
            (preL 0 els) (edenote 0 xs).
Proof.
  intros H.
  assert (H1 : Forall selem_ok (map fst xs)).
  { apply Forall_map. eapply Forall_impl; [|exact H]. cbn beta. tauto. }
  assert (H2 : Forall (fun x => selem_ok (fst x)) xs).
  { eapply Forall_impl; [|exact H]. cbn beta. tauto. }
  exists (snd (stmt_lay 0 xs)).
  destruct (parse_flat_denote jsx _ _ (stmt_lay_flat jsx xs 0 H)) as [els [Hp Hd]].
  exists els. split; [unfold tokenize; apply toks_stmt; exact H1|]. split; [exact Hp|].
  rewrite Hd. apply stmt_lay_denote. exact H2.
Qed.

(* ---------------------------------------------------------------- composed with the merge theorem *)
From Emmet Require Import model.MarkupResolve proofs.AttrProofs.

(* the attribute list of the element after merge_attributes: the specification [merge_spec] applied to
   the written mentions *)
Theorem element_merged_text (rev_attrs : bool) (e : selem) :
  merge_attributes rev_attrs (an_attrs (elem_node e)) =
    match written_mentions e with [] => None | m => Some (merge_spec rev_attrs [] m) end.
Proof.
  unfold elem_node. cbn [an_attrs]. rewrite merge_attributes_spec. unfold attrs_opt.
  destruct (written_mentions e); reflexivity.
Qed.

(* ---------------------------------------------------------------- groups: the element is a unit of C01_parse_groups *)
Theorem elem_group_unit jsx pos e :
  selem_ok e -> jsx_ok jsx e -> unit_toks jsx (GE (elem_leaf pos e)) (elem_toks pos e).
Proof. intros H Hj. apply ut_elem. apply elem_gblock; assumption. Qed.

(* `(a.x>b[c=1])*2+d##e` as tokens: a group of two attribute elements, repeated, then a sibling *)
Example group_of_attribute_elements :
  let a := mkSElem [97%N] [PClass 0 [120%N]] None false in
  let b := mkSElem [98%N] [PSet [] (spaced [mkSAttr false [99%N] false (SUnq [49%N])])] None false in
  let d := mkSElem [100%N] [PId 1 [101%N]] None false in
  let br o p := mkTok (TBracket o BGroup) p (p + 1) in
  let op o p := mkTok (TOperator o) p (p + 1) in
  let rp := mkTok (TRepeater 2 0 false) 13 15 in
  gflat false
    [(GG [(GE (elem_leaf 1 a), SChild); (GE (elem_leaf 5 b), SSibling)] (Some (mkRep 2 0 false)), SSibling);
     (GE (elem_leaf 16 d), SSibling)]
    ((br true 0 :: (elem_toks 1 a ++ [op OpChild 4] ++ elem_toks 5 b) ++ br false 12 :: [rp]) ++ [op OpSibling 15] ++ elem_toks 16 d).
Proof.
  cbv zeta.
  assert (Hw : forall c, is_element_name c = true -> word_ok [c]) by (intros c H; split; [discriminate|repeat constructor; exact H]).
  apply gf_cons; [|apply ot_sibling; reflexivity|discriminate|].
  - apply ut_group; [reflexivity|reflexivity| |apply rt_some; reflexivity].
    apply gf_cons; [apply elem_group_unit; [|left; reflexivity]|apply ot_child; reflexivity|discriminate|].
    + split; [apply Hw; reflexivity|]. split; [|exact I]. repeat constructor; discriminate.
    + apply gf_last. apply elem_group_unit; [|left; reflexivity].
      split; [apply Hw; reflexivity|]. split; [|exact I]. repeat constructor; try discriminate.
      intros H0. exfalso. apply H0. reflexivity.
  - apply gf_last. apply elem_group_unit; [|left; reflexivity].
    split; [apply Hw; reflexivity|]. split; [|exact I]. repeat constructor; discriminate.
Qed.
