(* C14, string level, the decorated alias on the ALIAS side: the abbreviations `k>c`, `k+c`, `k.c`, `k#c`
   (k, c key texts) are read as the trees the theorems of SnippetAcyclic.v speak about; hence
   markup_parse of these abbreviations for every table in which the definition of k does not reach
   itself.  (The definition side of the decorated forms -- "the same abbreviation with the definition
   text written in place" -- is proved at tree level only: resolve_def, add_attrs, attach_deepest.) *)
From Coq Require Import List NArith ZArith Bool Lia.
From Emmet Require Import lib.Base model.MarkupTokenizer model.MarkupParser model.MarkupConvert
     model.MarkupResolve.
From Emmet Require Import proofs.ParserSpine proofs.TokenizeRender proofs.ExpandRepeat proofs.ExpandGroupsTok
     proofs.TextParse proofs.AttrProofs proofs.SnippetProofs proofs.SnippetAcyclic proofs.SnippetAliasParse.
Import ListNotations.

(* ------------------------------------------------------------------ tokenizer: a key followed by an operator *)
Definition opc (c : char) : Prop := c = c_gt \/ c = c_plus \/ c = c_dot \/ c = c_hash.
Definition stop_op (rest : str) : Prop := match rest with [] => True | c :: _ => opc c end.

Lemma lit_key_rest : forall name rest prev,
  Forall (fun c => keyc c = true) name -> stop_op rest ->
  lit None 0 0 0 prev false (name ++ rest) = (name, length name, 0%Z).
Proof.
  induction name as [|c name IH]; intros rest prev Hn Hs.
  - cbn [app length]. destruct rest as [|c r]; [reflexivity|].
    cbn [stop_op] in Hs. destruct Hs as [-> | [-> | [-> | ->]]]; reflexivity.
  - inversion Hn as [|x l Hc Hn']; subst. cbn [app length lit].
    rewrite (keyc_not c c_bslash Hc) by (unfold c_bslash; lia).
    rewrite (keyc_not c c_slash Hc) by (unfold c_slash; lia).
    rewrite (keyc_not c c_dollar Hc) by (unfold c_dollar; lia).
    cbn [andb orb]. unfold is_allowed_operator at 1. rewrite (keyc_operator c Hc).
    cbn [truthy Z.eqb negb]. rewrite (keyc_element_name c Hc). cbn [negb andb].
    unfold is_allowed_space, is_allowed_repeater. rewrite (keyc_not_space c Hc).
    rewrite (keyc_not c c_star Hc) by (unfold c_star; lia).
    rewrite (keyc_not_quote c Hc), (keyc_not_bracket c Hc). cbn [andb orb].
    rewrite (IH rest (Some c) Hn' Hs). reflexivity.
Qed.

Lemma consume_key_rest k rest prev :
  key_text k = true -> stop_op rest ->
  consume ctx0 prev (k ++ rest) = (CTok (TLiteral k) (length k), ctx0).
Proof.
  intros Hk Hs. destruct k as [|c name]; [discriminate|]. cbn [key_text] in Hk.
  assert (Hn : Forall (fun c => keyc c = true) (c :: name)).
  { apply Forall_forall. apply forallb_forall. exact Hk. }
  assert (Hc : keyc c = true) by (inversion Hn; assumption).
  unfold consume, ctx0. cbn [cexpr cattr cquote cgroup].
  assert (Hf : field (mkCtx 0 0 0 None) ((c :: name) ++ rest) = CNone) by reflexivity.
  rewrite Hf. cbn [orelse].
  assert (Hrp : repeater_placeholder ((c :: name) ++ rest) = CNone).
  { unfold repeater_placeholder. cbn [app]. destruct (name ++ rest); [reflexivity|].
    rewrite (keyc_not c c_dollar Hc) by (unfold c_dollar; lia). reflexivity. }
  rewrite Hrp. cbn [orelse].
  assert (Hrn : repeater_number ((c :: name) ++ rest) = CNone).
  { unfold repeater_number. cbn [app span]. rewrite N.eqb_sym.
    rewrite (keyc_not c c_dollar Hc) by (unfold c_dollar; lia). reflexivity. }
  rewrite Hrn. cbn [orelse].
  assert (Hr : repeater (mkCtx 0 0 0 None) ((c :: name) ++ rest) = CNone).
  { unfold repeater, is_allowed_repeater. cbn [app].
    rewrite (keyc_not c c_star Hc) by (unfold c_star; lia). reflexivity. }
  rewrite Hr. cbn [orelse].
  assert (Hw : white_space ((c :: name) ++ rest) = CNone).
  { unfold white_space. cbn [app span]. rewrite (keyc_not_space c Hc). reflexivity. }
  rewrite Hw.
  change (Z.min 0 1) with 0%Z.
  rewrite (lit_key_rest (c :: name) rest prev Hn Hs). cbn [length]. reflexivity.
Qed.

Definition op_of (c : char) : optype :=
  if (c =? c_gt)%N then OpChild else if (c =? c_plus)%N then OpSibling
  else if (c =? c_dot)%N then OpClass else OpId.

Lemma consume_opc c rest prev :
  opc c -> consume ctx0 prev (c :: rest) = (CTok (TOperator (op_of c)) 1, ctx0).
Proof.
  intros Hc. destruct rest as [|x rest]; destruct Hc as [-> | [-> | [-> | ->]]]; reflexivity.
Qed.

(* `k OP c` : three tokens *)
Definition tok_at (k : tkind) (pos n : nat) : token := mkTok k pos (pos + n).

Theorem tokenize_key_op_key k o c :
  key_text k = true -> opc o -> key_text c = true ->
  tokenize (k ++ o :: c) =
    TOk [tok_at (TLiteral k) 0 (length k); tok_at (TOperator (op_of o)) (length k) 1;
         tok_at (TLiteral c) (length k + 1) (length c)].
Proof.
  intros Hk Ho Hc. unfold tokenize.
  assert (Hkn : k <> []) by (destruct k; [discriminate|discriminate]).
  assert (Hcn : c <> []) by (destruct c; [discriminate|discriminate]).
  rewrite (toks_step k (o :: c) ctx0 None 0 (TLiteral k) ctx0 Hkn (consume_key_rest k (o :: c) None Hk Ho)).
  change (o :: c) with ([o] ++ c).
  rewrite (toks_step [o] c ctx0 (lastc k) (0 + length k) (TOperator (op_of o)) ctx0 ltac:(discriminate)
             (consume_opc o c (lastc k) Ho)).
  pose proof (toks_step c [] ctx0 (lastc [o]) (0 + length k + length [o]) (TLiteral c) ctx0 Hcn) as S.
  pose proof (consume_key_rest c [] (lastc [o]) Hc I) as Cc.
  rewrite app_nil_r in S, Cc. rewrite (S Cc).
  destruct c as [|c0 c']; [contradiction|]. cbn [toks length Nat.add]. unfold tok_at.
  rewrite Nat.add_0_l. reflexivity.
Qed.

(* ------------------------------------------------------------------ parser *)
(* a bare name is an element block under every jsx setting *)
Lemma element_name_tok_boundary jsx t v rest : tk t = TLiteral v -> boundary rest ->
  element jsx (t :: rest) = POk (Some (TElem (Some [t]) None None None false [], 1)).
Proof.
  intros Ht Hb.
  assert (Hn : is_element_name_tok t = true) by (unfold is_element_name_tok; rewrite Ht; reflexivity).
  assert (Hname : element_name jsx (t :: rest) = 1).
  { unfold element_name. cbn [hd_is tl].
    destruct rest as [|t' r].
    - destruct (jsx && is_capitalized_literal t); cbn [jsx_chain skipn span_tok Nat.add]; [reflexivity|rewrite Hn; reflexivity].
    - cbn [boundary] in Hb.
      assert (Hn' : is_element_name_tok t' = false).
      { unfold is_element_name_tok. destruct Hb as [H|[H|H]]; unfold op_tok in H; rewrite H; reflexivity. }
      assert (Hcl : is_operator t' (Some OpClass) = false).
      { unfold is_operator. destruct Hb as [H|[H|H]]; unfold op_tok in H; rewrite H; reflexivity. }
      destruct (jsx && is_capitalized_literal t).
      + cbn [jsx_chain]. rewrite Hcl. cbn [skipn span_tok Nat.add]. rewrite Hn'. reflexivity.
      + cbn [skipn span_tok Nat.add]. rewrite Hn, Hn'. reflexivity. }
  unfold element. rewrite Hname. cbn [firstn elem_loop].
  rewrite (elem_loop_boundary jsx _ rest Hb). reflexivity.
Qed.

Lemma block_key jsx t v : tk t = TLiteral v -> block_ok jsx [t] (mkLeaf (Some [t]) None None None false).
Proof.
  intros Ht. split; [discriminate|]. split.
  - cbn [hd_is]. unfold is_climb_op, is_operator. rewrite Ht. reflexivity.
  - intros rest Hb. cbn [app length]. rewrite (element_name_tok_boundary jsx t v rest Ht Hb). reflexivity.
Qed.

Definition key_elem (t : token) (els : list tnode) : tnode := TElem (Some [t]) None None None false els.

Lemma parse_key_child jsx kt gt ct k c :
  tk kt = TLiteral k -> tk gt = TOperator OpChild -> tk ct = TLiteral c ->
  parse jsx [kt; gt; ct] = POk [key_elem kt [key_elem ct []]].
Proof.
  intros Hk Hg Hc. unfold parse.
  assert (F : flat jsx [(mkLeaf (Some [kt]) None None None false, SChild);
                        (mkLeaf (Some [ct]) None None None false, SSibling)] ([kt] ++ [gt] ++ [ct])).
  { apply flat_cons; [exact (block_key jsx kt k Hk)|apply ot_child; exact Hg|apply flat_last; exact (block_key jsx ct c Hc)]. }
  cbn [app] in F. rewrite (stmts_flat jsx _ _ F). cbn. reflexivity.
Qed.

Lemma parse_key_sibling jsx kt pt ct k c :
  tk kt = TLiteral k -> tk pt = TOperator OpSibling -> tk ct = TLiteral c ->
  parse jsx [kt; pt; ct] = POk [key_elem kt []; key_elem ct []].
Proof.
  intros Hk Hg Hc. unfold parse.
  assert (F : flat jsx [(mkLeaf (Some [kt]) None None None false, SSibling);
                        (mkLeaf (Some [ct]) None None None false, SSibling)] ([kt] ++ [pt] ++ [ct])).
  { apply flat_cons; [exact (block_key jsx kt k Hk)|apply ot_sibling; exact Hg|apply flat_last; exact (block_key jsx ct c Hc)]. }
  cbn [app] in F. rewrite (stmts_flat jsx _ _ F). cbn. reflexivity.
Qed.

(* ------------------------------------------------------------------ parse_abbr of `k>c` and `k+c` *)
Theorem parse_abbr_key_child jsx env mr k c :
  key_text k = true -> key_text c = true -> ce_text env = WNone ->
  parse_abbr jsx env mr (k ++ c_gt :: c) = Ok [ANode (Some k) None None None [bare c] false].
Proof.
  intros Hk Hc Ht. unfold parse_abbr.
  rewrite (tokenize_key_op_key k c_gt c Hk (or_introl eq_refl) Hc).
  change (op_of c_gt) with OpChild.
  rewrite (parse_key_child jsx (tok_at (TLiteral k) 0 (length k)) (tok_at (TOperator OpChild) (length k) 1)
             (tok_at (TLiteral c) (length k + 1) (length c)) k c eq_refl eq_refl eq_refl).
  destruct k as [|k0 k']; [discriminate|]. destruct c as [|c0 c']; [discriminate|].
  unfold convert, key_elem, tok_at. cbn [conv_list conv_stmt nonempty stringify_name]. unfold stringify. cbn [tk bind].
  rewrite !app_nil_r. cbn [bind app]. rewrite Ht. reflexivity.
Qed.

Theorem parse_abbr_key_sibling jsx env mr k c :
  key_text k = true -> key_text c = true -> ce_text env = WNone ->
  parse_abbr jsx env mr (k ++ c_plus :: c) = Ok [bare k; bare c].
Proof.
  intros Hk Hc Ht. unfold parse_abbr.
  rewrite (tokenize_key_op_key k c_plus c Hk (or_intror (or_introl eq_refl)) Hc).
  change (op_of c_plus) with OpSibling.
  rewrite (parse_key_sibling jsx (tok_at (TLiteral k) 0 (length k)) (tok_at (TOperator OpSibling) (length k) 1)
             (tok_at (TLiteral c) (length k + 1) (length c)) k c eq_refl eq_refl eq_refl).
  destruct k as [|k0 k']; [discriminate|]. destruct c as [|c0 c']; [discriminate|].
  unfold convert, key_elem, tok_at. cbn [conv_list conv_stmt nonempty stringify_name]. unfold stringify. cbn [tk bind].
  rewrite !app_nil_r. cbn [bind app]. rewrite Ht. reflexivity.
Qed.

(* ------------------------------------------------------------------ `k.c` and `k#c` (jsx off: with jsx on,
   `Foo.Bar` is a member name, not a class) *)
Definition short_attr (name : str) (c : str) : aattr := mkAAttr (Some name) (Some [VStr c]) VRaw false false false.

Lemma parse_key_class k c :
  parse false [tok_at (TLiteral k) 0 (length k); tok_at (TOperator OpClass) (length k) 1;
               tok_at (TLiteral c) (length k + 1) (length c)] =
  POk [TElem (Some [tok_at (TLiteral k) 0 (length k)])
             (Some [mkTAttr (Some [literal_tok s_class]) (Some [tok_at (TLiteral c) (length k + 1) (length c)]) false false])
             None None false []].
Proof. reflexivity. Qed.

Lemma parse_key_id k c :
  parse false [tok_at (TLiteral k) 0 (length k); tok_at (TOperator OpId) (length k) 1;
               tok_at (TLiteral c) (length k + 1) (length c)] =
  POk [TElem (Some [tok_at (TLiteral k) 0 (length k)])
             (Some [mkTAttr (Some [literal_tok s_id]) (Some [tok_at (TLiteral c) (length k + 1) (length c)]) false false])
             None None false []].
Proof. reflexivity. Qed.

Theorem parse_abbr_key_class env mr k c :
  key_text k = true -> key_text c = true -> ce_text env = WNone ->
  parse_abbr false env mr (k ++ c_dot :: c) = Ok [ANode (Some k) None None (Some [short_attr s_class c]) [] false].
Proof.
  intros Hk Hc Ht. unfold parse_abbr.
  rewrite (tokenize_key_op_key k c_dot c Hk (or_intror (or_intror (or_introl eq_refl))) Hc).
  change (op_of c_dot) with OpClass. rewrite parse_key_class.
  destruct k as [|k0 k']; [discriminate|]. destruct c as [|c0 c']; [discriminate|].
  unfold convert. cbn. rewrite Ht. rewrite !app_nil_r. reflexivity.
Qed.

Theorem parse_abbr_key_id env mr k c :
  key_text k = true -> key_text c = true -> ce_text env = WNone ->
  parse_abbr false env mr (k ++ c_hash :: c) = Ok [ANode (Some k) None None (Some [short_attr s_id c]) [] false].
Proof.
  intros Hk Hc Ht. unfold parse_abbr.
  rewrite (tokenize_key_op_key k c_hash c Hk (or_intror (or_intror (or_intror eq_refl))) Hc).
  change (op_of c_hash) with OpId. rewrite parse_key_id.
  destruct k as [|k0 k']; [discriminate|]. destruct c as [|c0 c']; [discriminate|].
  unfold convert. cbn. rewrite Ht. rewrite !app_nil_r. reflexivity.
Qed.

(* ------------------------------------------------------------------ markup_parse of the decorated alias *)
(* `k>c`: the definition resolved in place, the child (itself resolved: it may be an alias) attached below
   the end of the last-child chain of its last top-level node; then the transform pass *)
Theorem alias_child_string : forall cfg k c d,
  key_text k = true -> key_text c = true ->
  def_of cfg (Some k) = Some d -> self_free cfg d = true -> mc_text cfg = WNone ->
  markup_parse cfg (k ++ c_gt :: c) =
  let* resolved := resolve_def cfg d in
  match resolved with
  | [] => Ok []
  | _ :: _ => let* kids := walk_resolve (full_fuel cfg) cfg [] [bare c] in
              transform_list cfg (attach_deepest resolved kids)
  end.
Proof.
  intros cfg k c d Hk Hc Hd Hsf Ht. unfold markup_parse. fold (outer_env cfg).
  rewrite (parse_abbr_key_child (mc_jsx cfg) (outer_env cfg) (mc_max_repeat cfg) k c Hk Hc Ht). cbn [bind].
  fold (full_fuel cfg). rewrite (alias_children cfg k d [bare c] Hd Hsf).
  destruct (resolve_def cfg d) as [resolved| | |]; try reflexivity. cbn [bind].
  destruct resolved as [|r0 rs]; [reflexivity|].
  destruct (walk_resolve (full_fuel cfg) cfg [] [bare c]); reflexivity.
Qed.

(* `k+c` *)
Theorem alias_sibling_string : forall cfg k c d,
  key_text k = true -> key_text c = true ->
  def_of cfg (Some k) = Some d -> self_free cfg d = true -> mc_text cfg = WNone ->
  markup_parse cfg (k ++ c_plus :: c) =
  let* a := resolve_def cfg d in
  let* b := walk_resolve (full_fuel cfg) cfg [] [bare c] in
  transform_list cfg (a ++ b).
Proof.
  intros cfg k c d Hk Hc Hd Hsf Ht. unfold markup_parse. fold (outer_env cfg).
  rewrite (parse_abbr_key_sibling (mc_jsx cfg) (outer_env cfg) (mc_max_repeat cfg) k c Hk Hc Ht). cbn [bind].
  fold (full_fuel cfg). unfold full_fuel at 1. rewrite walk_resolve_cons. fold (full_fuel cfg).
  unfold bare at 1. rewrite (alias_eq_definition_tree cfg k d Hd Hsf).
  destruct (resolve_def cfg d) as [a| | |]; try reflexivity. cbn [bind].
  destruct (walk_resolve (full_fuel cfg) cfg [] [bare c]); reflexivity.
Qed.

(* `k.c` / `k#c`: the class / id is appended to the attributes of every top-level node of the
   definition (put in front under reverseAttributes); then the transform pass merges them *)
Theorem alias_class_string : forall cfg k c d,
  key_text k = true -> key_text c = true -> mc_jsx cfg = false ->
  def_of cfg (Some k) = Some d -> self_free cfg d = true -> mc_text cfg = WNone ->
  markup_parse cfg (k ++ c_dot :: c) =
  let* resolved := resolve_def cfg d in
  transform_list cfg (map (add_attrs (mc_reverse_attrs cfg) [short_attr s_class c]) resolved).
Proof.
  intros cfg k c d Hk Hc Hj Hd Hsf Ht. unfold markup_parse. fold (outer_env cfg). rewrite Hj.
  rewrite (parse_abbr_key_class (outer_env cfg) (mc_max_repeat cfg) k c Hk Hc Ht). cbn [bind].
  fold (full_fuel cfg). rewrite (alias_attributes cfg k d _ [] Hd Hsf).
  destruct (resolve_def cfg d); reflexivity.
Qed.

Theorem alias_id_string : forall cfg k c d,
  key_text k = true -> key_text c = true -> mc_jsx cfg = false ->
  def_of cfg (Some k) = Some d -> self_free cfg d = true -> mc_text cfg = WNone ->
  markup_parse cfg (k ++ c_hash :: c) =
  let* resolved := resolve_def cfg d in
  transform_list cfg (map (add_attrs (mc_reverse_attrs cfg) [short_attr s_id c]) resolved).
Proof.
  intros cfg k c d Hk Hc Hj Hd Hsf Ht. unfold markup_parse. fold (outer_env cfg). rewrite Hj.
  rewrite (parse_abbr_key_id (outer_env cfg) (mc_max_repeat cfg) k c Hk Hc Ht). cbn [bind].
  fold (full_fuel cfg). rewrite (alias_attributes cfg k d _ [] Hd Hsf).
  destruct (resolve_def cfg d); reflexivity.
Qed.
