(* C20: configuration layering.  SPEC (documented precedence) and the proofs that
   the model of merged_data / Config.__init__ (model/Config.v, driven by the
   generated statement order gen/GenLayerOrder.v) refines it, for ALL layer
   contents, names and keys. *)
From Emmet Require Import lib.Base lib.ConfigLib gen.GenLayerOrder model.Config.

(* ------------------------------------------------------------------ strings *)
Lemma str_eqb_eq : forall a b, str_eqb a b = true <-> a = b.
Proof.
  induction a as [|x a IH]; destruct b as [|y b]; simpl; split; intros H; try reflexivity; try discriminate.
  - apply andb_true_iff in H. destruct H as [H1 H2]. apply N.eqb_eq in H1. apply IH in H2. subst. reflexivity.
  - inversion H; subst. apply andb_true_iff. split; [apply N.eqb_refl|]. apply IH. reflexivity.
Qed.

Lemma str_eqb_refl a : str_eqb a a = true.
Proof. apply str_eqb_eq. reflexivity. Qed.

Lemma str_eqb_neq a b : a <> b -> str_eqb a b = false.
Proof. intros H. destruct (str_eqb a b) eqn:E; [|reflexivity]. apply str_eqb_eq in E. contradiction. Qed.

Lemma str_eq_dec (a b : str) : {a = b} + {a <> b}.
Proof. destruct (str_eqb a b) eqn:E; [left; apply str_eqb_eq; exact E|right]. intros H. subst. rewrite str_eqb_refl in E. discriminate. Qed.

(* ------------------------------------------------------------------ first_some *)
Lemma first_some_app {A B} (f : A -> option B) l1 l2 :
  first_some f (l1 ++ l2) = match first_some f l1 with Some b => Some b | None => first_some f l2 end.
Proof. induction l1 as [|a l1 IH]; simpl; [reflexivity|]. destruct (f a); [reflexivity|exact IH]. Qed.

Lemma first_some_map {A B C} (g : A -> B) (f : B -> option C) l :
  first_some f (map g l) = first_some (fun a => f (g a)) l.
Proof. induction l as [|a l IH]; simpl; [reflexivity|]. destruct (f (g a)); [reflexivity|exact IH]. Qed.

Lemma first_some_ext {A B} (f g : A -> option B) l :
  (forall a, In a l -> f a = g a) -> first_some f l = first_some g l.
Proof.
  induction l as [|a l IH]; simpl; intros H; [reflexivity|].
  rewrite (H a (or_introl eq_refl)). destruct (g a); [reflexivity|]. apply IH. intros; apply H; right; assumption.
Qed.

Lemma first_some_filter {A B} (p : A -> bool) (f : A -> option B) l :
  (forall a, p a = false -> f a = None) -> first_some f (filter p l) = first_some f l.
Proof.
  intros H. induction l as [|a l IH]; simpl; [reflexivity|].
  destruct (p a) eqn:E; simpl; [rewrite IH; reflexivity|]. rewrite (H a E). exact IH.
Qed.

Lemma rev_filter {A} (p : A -> bool) l : rev (filter p l) = filter p (rev l).
Proof.
  induction l as [|a l IH]; simpl; [reflexivity|]. rewrite filter_app. simpl.
  destruct (p a); simpl; rewrite IH; [reflexivity|rewrite app_nil_r; reflexivity].
Qed.

(* ------------------------------------------------------------------ dict facts *)
Section DictFacts.
  Context {V : Type}.
  Implicit Types (d src : dict V) (k : str).

  (* unique keys: what a real Python dict satisfies *)
  Definition wf (d : dict V) : Prop := NoDup (map fst d).

  Lemma dget_dset_same k v d : dget k (dset k v d) = Some v.
  Proof.
    induction d as [|[k0 v0] d IH]; simpl.
    - unfold dget; simpl. rewrite str_eqb_refl. reflexivity.
    - destruct (str_eqb k k0) eqn:E; unfold dget in *; simpl; rewrite E; [reflexivity|exact IH].
  Qed.

  Lemma dget_dset_other k k' v d : k <> k' -> dget k (dset k' v d) = dget k d.
  Proof.
    intros Hne. induction d as [|[k0 v0] d IH]; unfold dget in *; simpl.
    - rewrite (str_eqb_neq _ _ Hne). reflexivity.
    - destruct (str_eqb k' k0) eqn:E; simpl.
      + apply str_eqb_eq in E. subst k0. rewrite (str_eqb_neq _ _ Hne). reflexivity.
      + destruct (str_eqb k k0); [reflexivity|exact IH].
  Qed.

  (* lookup after update: the last binding of the source wins, else the old value *)
  Lemma dget_dupdate k src : forall d,
    dget k (dupdate d src) = match dlast k src with Some v => Some v | None => dget k d end.
  Proof.
    induction src as [|[k' v] src IH]; intros d; [reflexivity|].
    unfold dupdate in *. cbn [fold_left fst snd dlast]. rewrite IH.
    destruct (dlast k src); [reflexivity|].
    destruct (str_eqb k k') eqn:E.
    - apply str_eqb_eq in E. subst k'. apply dget_dset_same.
    - apply dget_dset_other. intros ->. rewrite str_eqb_refl in E. discriminate.
  Qed.

  Lemma dupdate_nil d : dupdate d [] = d.
  Proof. reflexivity. Qed.

  Lemma dget_none_iff k d : dget k d = None <-> ~ In k (map fst d).
  Proof.
    induction d as [|[k0 v0] d IH]; unfold dget in *; simpl; [tauto|].
    destruct (str_eqb k k0) eqn:E.
    - apply str_eqb_eq in E. subst. split; [discriminate|]. intros H. exfalso. apply H. left. reflexivity.
    - rewrite IH. split; [|tauto]. intros H [H1|H1]; [|tauto]. subst. rewrite str_eqb_refl in E. discriminate.
  Qed.

  Lemma dlast_none_iff k src : dlast k src = None <-> ~ In k (map fst src).
  Proof.
    induction src as [|[k0 v0] src IH]; simpl; [tauto|].
    destruct (dlast k src) eqn:E.
    - split; [discriminate|]. intros H. exfalso. apply H. right.
      destruct (In_dec str_eq_dec k (map fst src)) as [Hin|Hnin]; [exact Hin|].
      apply IH in Hnin. discriminate.
    - destruct (str_eqb k k0) eqn:E2.
      + apply str_eqb_eq in E2. subst. split; [discriminate|]. intros H. exfalso. apply H. left. reflexivity.
      + split; [|reflexivity]. intros _ [H1|H1].
        * subst. rewrite str_eqb_refl in E2. discriminate.
        * apply (proj1 IH eq_refl). exact H1.
  Qed.

  (* on a real dict (unique keys) "last binding" is just lookup *)
  Lemma dlast_wf k src : wf src -> dlast k src = dget k src.
  Proof.
    unfold wf. induction src as [|[k0 v0] src IH]; intros Hwf; [reflexivity|].
    simpl in Hwf. inversion Hwf as [|? ? Hnin Hwf']; subst.
    unfold dget in *. simpl. rewrite (IH Hwf').
    destruct (str_eqb k k0) eqn:E.
    - apply str_eqb_eq in E. subst k0. apply dget_none_iff in Hnin. unfold dget in Hnin. rewrite Hnin. reflexivity.
    - destruct (assoc_str k src); reflexivity.
  Qed.

  Lemma dset_keys k v d :
    map fst (dset k v d) = if mem_str k (map fst d) then map fst d else map fst d ++ [k].
  Proof.
    induction d as [|[k0 v0] d IH]; [reflexivity|]. unfold mem_str in *. simpl.
    destruct (str_eqb k k0) eqn:E; simpl; [reflexivity|]. rewrite IH.
    destruct (existsb (str_eqb k) (map fst d)); reflexivity.
  Qed.

  Lemma mem_str_false k l : mem_str k l = false -> ~ In k l.
  Proof.
    unfold mem_str. intros H Hin. assert (existsb (str_eqb k) l = true); [|congruence].
    apply existsb_exists. exists k. split; [exact Hin|apply str_eqb_refl].
  Qed.

  Lemma wf_dset k v d : wf d -> wf (dset k v d).
  Proof.
    unfold wf. intros H. rewrite dset_keys. destruct (mem_str k (map fst d)) eqn:E; [exact H|].
    apply mem_str_false in E. apply NoDup_rev in H. rewrite <- (rev_involutive (map fst d ++ [k])).
    apply NoDup_rev. rewrite rev_app_distr. simpl. constructor; [|exact H]. rewrite <- in_rev. exact E.
  Qed.

  Lemma wf_dupdate src : forall d, wf d -> wf (dupdate d src).
  Proof.
    induction src as [|[k v] src IH]; intros d H; [exact H|]. unfold dupdate in *. simpl. apply IH. apply wf_dset. exact H.
  Qed.

  Lemma wf_nil : wf (@nil (str * V)).
  Proof. constructor. Qed.

  (* `untouched`, one update: a source that does not mention k leaves k as it was *)
  Lemma untouched_update k d src :
    ~ In k (map fst src) -> dget k (dupdate d src) = dget k d.
  Proof. intros H. rewrite dget_dupdate. apply dlast_none_iff in H. rewrite H. reflexivity. Qed.

  (* re-applying the same update is idempotent on lookups *)
  Lemma dget_dupdate_twice k d src : dget k (dupdate (dupdate d src) src) = dget k (dupdate d src).
  Proof. rewrite !dget_dupdate. destruct (dlast k src); reflexivity. Qed.
End DictFacts.

(* ------------------------------------------------------------------ SPEC *)
(* The documented order, least specific first. *)
Definition documented_order : list layer :=
  [Default; TypeDefaults; SyntaxDefaults; TypeOverride; SyntaxOverride; User].

Section Spec.
  Context {V : Type}.
  Implicit Types (e : env V) (k : str).

  (* the section `sec` of a documented layer, for a Config of type `ty` and syntax `syn` *)
  Definition layer_section e (ty syn sec : str) (l : layer) : dict V :=
    section_of (source_cfg e ty syn (source_of_layer l)) sec.
  (* the value layer l gives to key k, if it defines k *)
  Definition layer_value e (ty syn sec : str) (l : layer) k : option V :=
    dlast k (layer_section e ty syn sec l).
  (* the effective value: taken from the most specific layer that defines k *)
  Definition spec_lookup e (ty syn sec : str) k : option V :=
    first_some (fun l => layer_value e ty syn sec l k) (rev documented_order).

  (* ---------------------------------------------------------------- theorems *)
  Definition stmt_section e (ty syn sec : str) (st : source * guard) : dict V :=
    section_of (source_cfg e ty syn (fst st)) sec.

  Lemma fold_lookup e ty syn sec k : forall stmts d0,
    dget k (fold_left (fun result st => dupdate result (stmt_section e ty syn sec st)) stmts d0) =
    match first_some (fun st => dlast k (stmt_section e ty syn sec st)) (rev stmts) with
    | Some v => Some v
    | None => dget k d0
    end.
  Proof.
    induction stmts as [|st stmts IH]; intros d0; [reflexivity|].
    cbn [fold_left rev]. rewrite IH, first_some_app. cbn [first_some].
    destruct (first_some _ (rev stmts)); [reflexivity|].
    rewrite dget_dupdate. destruct (dlast k (stmt_section e ty syn sec st)); reflexivity.
  Qed.

  Lemma merged_over_lookup stmts e ty syn sec k :
    dget k (merged_over stmts e ty syn sec) =
    first_some (fun s => dlast k (section_of (source_cfg e ty syn s) sec)) (rev (map fst stmts)).
  Proof.
    unfold merged_over. change (fun result st => dupdate result (section_of (source_cfg e ty syn (fst st)) sec))
      with (fun result st => dupdate result (stmt_section e ty syn sec st)).
    rewrite fold_lookup. rewrite <- map_rev, first_some_map. unfold stmt_section.
    destruct (first_some _ (rev stmts)); reflexivity.
  Qed.
End Spec.

(* The generated statement order IS the documented one.  Reordering two update
   calls in merged_data, or fetching a layer from the other table / under the
   other name, regenerates GenLayerOrder.v and breaks these two [reflexivity]s. *)
Theorem layer_order_documented : layer_order = documented_order.
Proof. reflexivity. Qed.

Lemma layer_sources_documented : map fst layer_stmts = map source_of_layer documented_order.
Proof. reflexivity. Qed.

(* the three sections of the statement are exactly the slots Config.__init__ fills *)
Definition s_variables : str := [118; 97; 114; 105; 97; 98; 108; 101; 115]%N.
Definition s_snippets : str := [115; 110; 105; 112; 112; 101; 116; 115]%N.
Definition s_options : str := [111; 112; 116; 105; 111; 110; 115]%N.
Definition s_markup : str := [109; 97; 114; 107; 117; 112]%N.
Definition s_html : str := [104; 116; 109; 108]%N.

Lemma init_sections_documented :
  forall sec, In sec [s_variables; s_snippets; s_options] <-> In sec init_sections.
Proof.
  intros sec. unfold init_sections, s_variables, s_snippets, s_options. simpl. tauto.
Qed.

Lemma init_defaults_documented : init_default_type = s_markup /\ init_fallback_syntax = s_html.
Proof. split; reflexivity. Qed.

Section Theorems.
  Context {V : Type}.
  Implicit Types (e : env V) (k : str).

  (* MAIN: for all layer contents, names and keys, the merged dict gives k the
     value of the LAST layer of the documented order that defines k (None if
     none does). *)
  Theorem merged_lookup e ty syn sec k :
    dget k (merged_data e ty syn sec) = spec_lookup e ty syn sec k.
  Proof.
    unfold merged_data. rewrite merged_over_lookup, layer_sources_documented.
    unfold spec_lookup, layer_value, layer_section. rewrite <- map_rev, first_some_map. reflexivity.
  Qed.

  (* the same, spelled out *)
  Corollary merged_lookup_explicit e ty syn sec k :
    dget k (merged_data e ty syn sec) =
    match layer_value e ty syn sec User k with Some v => Some v | None =>
    match layer_value e ty syn sec SyntaxOverride k with Some v => Some v | None =>
    match layer_value e ty syn sec TypeOverride k with Some v => Some v | None =>
    match layer_value e ty syn sec SyntaxDefaults k with Some v => Some v | None =>
    match layer_value e ty syn sec TypeDefaults k with Some v => Some v | None =>
    layer_value e ty syn sec Default k end end end end end.
  Proof.
    rewrite merged_lookup. unfold spec_lookup. simpl.
    repeat match goal with |- context [match ?x with _ => _ end] => destruct x; try reflexivity end.
  Qed.

  (* the result is a real dict: unique keys *)
  Theorem merged_wf stmts e ty syn sec : wf (merged_over stmts e ty syn sec).
  Proof.
    unfold merged_over. generalize (@nil (str * V)) (@wf_nil V).
    induction stmts as [|st stmts IH]; intros d H; [exact H|]. simpl. apply IH. apply wf_dupdate. exact H.
  Qed.

  (* `untouched`: a layer that does not mention k can be removed without changing k *)
  Definition without_layer (l : layer) (stmts : list (source * guard)) : list (source * guard) :=
    filter (fun st => negb (layer_eqb (layer_of_source (fst st)) l)) stmts.

  Lemma layer_eqb_eq a b : layer_eqb a b = true -> a = b.
  Proof. destruct a, b; simpl; intros H; try reflexivity; discriminate. Qed.

  Lemma source_layer_source s : source_of_layer (layer_of_source s) = s.
  Proof. destruct s as [|[]|[]|]; reflexivity. Qed.

  Theorem untouched_layer e ty syn sec l k :
    layer_value e ty syn sec l k = None ->
    dget k (merged_over (without_layer l layer_stmts) e ty syn sec) = dget k (merged_data e ty syn sec).
  Proof.
    intros H. unfold merged_data. rewrite !merged_over_lookup. unfold without_layer.
    set (p := fun s : source => negb (layer_eqb (layer_of_source s) l)).
    assert (Hm : forall stmts : list (source * guard),
               map fst (filter (fun st => negb (layer_eqb (layer_of_source (fst st)) l)) stmts) = filter p (map fst stmts)).
    { induction stmts as [|st stmts IH]; [reflexivity|]. simpl. unfold p at 1.
      destruct (negb (layer_eqb (layer_of_source (fst st)) l)); simpl; rewrite IH; reflexivity. }
    rewrite Hm, rev_filter. apply first_some_filter.
    intros s Hp. unfold p in Hp. apply negb_false_iff, layer_eqb_eq in Hp. subst l.
    unfold layer_value, layer_section in H. rewrite source_layer_source in H. exact H.
  Qed.

  (* layers whose section is empty contribute nothing to the result (as a dict) *)
  Lemma fold_drop (p : source * guard -> bool) e ty syn sec : forall stmts d,
    (forall st, In st stmts -> p st = false -> section_of (source_cfg e ty syn (fst st)) sec = []) ->
    fold_left (fun result st => dupdate result (section_of (source_cfg e ty syn (fst st)) sec)) stmts d =
    fold_left (fun result st => dupdate result (section_of (source_cfg e ty syn (fst st)) sec)) (filter p stmts) d.
  Proof.
    induction stmts as [|st stmts IH]; intros d H; [reflexivity|].
    simpl. destruct (p st) eqn:E; simpl.
    - apply IH. intros; apply H; [right|]; assumption.
    - rewrite (H st (or_introl eq_refl) E). rewrite dupdate_nil. apply IH. intros; apply H; [right|]; assumption.
  Qed.

  Lemma merged_over_drop (p : source * guard -> bool) e ty syn sec stmts :
    (forall st, In st stmts -> p st = false -> section_of (source_cfg e ty syn (fst st)) sec = []) ->
    merged_over stmts e ty syn sec = merged_over (filter p stmts) e ty syn sec.
  Proof. intros H. unfold merged_over. apply fold_drop. exact H. Qed.

  (* `unknown_syntax`: a syntax name that is neither a key of SYNTAX_CONFIG nor of
     the global config contributes nothing: the result is exactly
     defaults + type defaults + global type override + user. *)
  Definition unknown_name e (name : str) : Prop :=
    dget name (e_syntax_config e) = None /\ dget name (e_global e) = None.

  Theorem unknown_syntax e ty syn sec :
    unknown_name e syn ->
    merged_data e ty syn sec =
    dupdate (dupdate (dupdate (dupdate [] (layer_section e ty syn sec Default))
                              (layer_section e ty syn sec TypeDefaults))
                     (layer_section e ty syn sec TypeOverride))
            (layer_section e ty syn sec User).
  Proof.
    intros [H1 H2]. unfold merged_data.
    rewrite (merged_over_drop (fun st => negb (by_syntax (fst st)))).
    - reflexivity.
    - intros [s g] _ Hp. apply negb_false_iff in Hp. simpl in *.
      destruct s as [|[]|[]|]; try discriminate; simpl; unfold table_get.
      + rewrite H1. reflexivity.
      + rewrite H2. reflexivity.
  Qed.

  (* ... hence every unknown syntax name gives the same result *)
  Corollary unknown_syntax_any e ty syn1 syn2 sec :
    unknown_name e syn1 -> unknown_name e syn2 -> merged_data e ty syn1 sec = merged_data e ty syn2 sec.
  Proof. intros H1 H2. rewrite (unknown_syntax _ _ _ _ H1), (unknown_syntax _ _ _ _ H2). reflexivity. Qed.

  (* the syntax layers of an unknown syntax define no key at all *)
  Corollary unknown_syntax_lookup e ty syn sec k :
    unknown_name e syn ->
    dget k (merged_data e ty syn sec) =
    match layer_value e ty syn sec User k with Some v => Some v | None =>
    match layer_value e ty syn sec TypeOverride k with Some v => Some v | None =>
    match layer_value e ty syn sec TypeDefaults k with Some v => Some v | None =>
    layer_value e ty syn sec Default k end end end.
  Proof.
    intros [H1 H2]. rewrite merged_lookup_explicit.
    assert (layer_value e ty syn sec SyntaxOverride k = None) as ->.
    { unfold layer_value, layer_section. simpl. unfold table_get. rewrite H2. reflexivity. }
    assert (layer_value e ty syn sec SyntaxDefaults k = None) as ->.
    { unfold layer_value, layer_section. simpl. unfold table_get. rewrite H1. reflexivity. }
    reflexivity.
  Qed.

  (* A syntax name equal to the type name ('markup', 'stylesheet' are keys of
     SYNTAX_CONFIG without being syntaxes) fetches the type's layers a second
     time; that never changes any effective value. *)
  Theorem syntax_named_as_type e ty sec k :
    dget k (merged_data e ty ty sec) =
    match layer_value e ty ty sec User k with Some v => Some v | None =>
    match layer_value e ty ty sec TypeOverride k with Some v => Some v | None =>
    match layer_value e ty ty sec TypeDefaults k with Some v => Some v | None =>
    layer_value e ty ty sec Default k end end end.
  Proof.
    rewrite merged_lookup_explicit.
    change (layer_value e ty ty sec SyntaxOverride k) with (layer_value e ty ty sec TypeOverride k).
    change (layer_value e ty ty sec SyntaxDefaults k) with (layer_value e ty ty sec TypeDefaults k).
    repeat match goal with |- context [match ?x with _ => _ end] => destruct x; try reflexivity end.
  Qed.

  (* ---------------------------------------------------------------- Config *)
  Lemma assoc_str_map_self {A} (f : str -> A) (l : list str) sec :
    In sec l -> assoc_str sec (map (fun s => (s, f s)) l) = Some (f sec).
  Proof.
    induction l as [|s l IH]; intros H; [contradiction|]. simpl.
    destruct (str_eqb sec s) eqn:E.
    - apply str_eqb_eq in E. subst. reflexivity.
    - destruct H as [H|H]; [subst; rewrite str_eqb_refl in E; discriminate|]. apply IH. exact H.
  Qed.

  Definition resolved_type (u : user_config V) : str :=
    match u_type u with Some t => t | None => s_markup end.
  Definition resolved_syntax (b : builtin V) (u : user_config V) : str :=
    match u_syntax u with
    | Some s => s
    | None => match assoc_str (resolved_type u) (b_default_syntaxes b) with Some s => s | None => s_html end
    end.

  (* Config(user, global).<section>[k] for the three documented sections *)
  Theorem config_lookup b u g sec k :
    In sec [s_variables; s_snippets; s_options] ->
    exists d, config_section (config_init b u g) sec = Some d /\
              cf_type (config_init b u g) = resolved_type u /\
              cf_syntax (config_init b u g) = resolved_syntax b u /\
              d = merged_data (config_env b u g) (resolved_type u) (resolved_syntax b u) sec /\
              dget k d = spec_lookup (config_env b u g) (resolved_type u) (resolved_syntax b u) sec k.
  Proof.
    intros H. apply init_sections_documented in H.
    exists (merged_data (config_env b u g) (resolved_type u) (resolved_syntax b u) sec).
    unfold config_section, config_init. cbn [cf_sections cf_type cf_syntax].
    repeat split.
    - apply (assoc_str_map_self (fun s => merged_data _ _ _ s)). exact H.
    - apply merged_lookup.
  Qed.
End Theorems.
