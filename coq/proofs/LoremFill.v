(* The lorem pass of markup_parse (model/MarkupResolve.v lorem_fill_node, lorem_fill_list): for EVERY forest and EVERY stream of draws
   it returns the forest with the paragraphs written in, or runs out of draws; never Internal; the identity on a
   forest without lorem headers (whatever the stream). *)
From Coq Require Import ZArith List Bool Lia Arith.
From Emmet Require Import lib.Base gen.GenLorem model.MarkupTokenizer model.MarkupParser model.MarkupConvert
     model.MarkupLorem model.MarkupResolve proofs.SafeResolve proofs.LoremProofs.
Import ListNotations.

(* the children loop of lorem_fill_node, named *)
Definition fill_kids (anc : option rep) : list anode -> list Z -> lres (list anode) :=
  fix go (l : list anode) (s : list Z) : lres (list anode) :=
    match l with
    | [] => LOk [] s
    | c :: r =>
        let+ c' from s1 := lorem_fill_node anc c s in
        let+ r' from s2 := go r s1 in
        LOk (c' :: r') s2
    end.

Lemma lorem_fill_node_eq : forall anc nm v rp at_ ch sc s,
  lorem_fill_node anc (ANode nm v rp at_ ch sc) s =
  let+ v1 from s1 :=
    match lorem_header nm with
    | LYes lang minw maxw =>
        let common := match own_or rp anc with None => true | Some r => (rvalue r =? 0)%N end in
        let+ p from s1 := lorem_text lang minw maxw common s in
        LOk (Some [VStr p]) s1
    | LNo => LOk v s
    end in
  let+ ch' from s2 := fill_kids (own_or rp anc) ch s1 in
  LOk (ANode nm v1 rp at_ ch' sc) s2.
Proof. reflexivity. Qed.

(* what the pass does to one node: only the value changes, and only under a lorem header *)
Definition value_filled (nm : option str) (rp anc : option rep) (v v' : option (list vtok)) : Prop :=
  match lorem_header nm with
  | LNo => v' = v
  | LYes lang minw maxw =>
      exists t db wc, v' = Some [VStr t] /\ lorem_db lang = Some db /\
                      (lorem_min minw <= wc <= lorem_max minw maxw)%Z /\
                      is_paragraph db wc (match own_or rp anc with None => true | Some r => (rvalue r =? 0)%N end) t
  end.
Definition node_filled (anc : option rep) (n n' : anode) : Prop :=
  match n, n' with
  | ANode nm v rp at_ ch sc, ANode nm' v' rp' at' ch' sc' =>
      nm' = nm /\ rp' = rp /\ at' = at_ /\ sc' = sc /\ length ch' = length ch /\ value_filled nm rp anc v v'
  end.

Lemma fill_value_safe : forall nm v rp anc s,
  lsafe (fun v' r => (length r <= length s)%nat /\ value_filled nm rp anc v v')
        (match lorem_header nm with
         | LYes lang minw maxw =>
             let common := match own_or rp anc with None => true | Some r => (rvalue r =? 0)%N end in
             let+ p from s1 := lorem_text lang minw maxw common s in
             LOk (Some [VStr p]) s1
         | LNo => LOk v s
         end).
Proof.
  intros nm v rp anc s. unfold value_filled. destruct (lorem_header nm) as [|lang minw maxw].
  - simpl. auto.
  - cbv zeta. eapply lsafe_bind; [apply lorem_text_spec|].
    intros t r [Hr [db [wc [H1 [H2 H3]]]]]. simpl. split; [lia|]. exists t, db, wc. auto.
Qed.

Theorem lorem_fill_node_safe : forall n anc s,
  lsafe (fun n' r => (length r <= length s)%nat /\ node_filled anc n n') (lorem_fill_node anc n s).
Proof.
  apply (anode_ind' (fun n => forall anc s,
           lsafe (fun n' r => (length r <= length s)%nat /\ node_filled anc n n') (lorem_fill_node anc n s))).
  intros nm v rp at_ ch sc IH anc s. rewrite lorem_fill_node_eq. cbv zeta.
  eapply lsafe_bind; [apply fill_value_safe|]. intros v1 s1 [Hs1 Hv1]. cbv beta.
  assert (HK : forall a s0, lsafe (fun ch' r => (length r <= length s0)%nat /\ length ch' = length ch) (fill_kids a ch s0)).
  { clear - IH. induction IH as [|c k Hc _ IHk]; intros a s0.
    - simpl. auto.
    - cbn [fill_kids]. eapply lsafe_bind; [apply Hc|]. intros c' s1 [Hs1 _]. cbv beta.
      eapply lsafe_bind; [apply IHk|]. intros k' s2 [Hs2 Hk]. simpl. split; [lia|]. rewrite Hk. reflexivity. }
  eapply lsafe_bind; [apply HK|]. intros ch' s2 [Hs2 Hch]. simpl.
  split; [lia|]. repeat split; auto.
Qed.

Theorem lorem_fill_list_safe : forall l s,
  lsafe (fun l' r => (length r <= length s)%nat /\ Forall2 (node_filled None) l l') (lorem_fill_list l s).
Proof.
  induction l as [|c k IH]; intros s.
  - simpl. split; [lia|constructor].
  - cbn [lorem_fill_list]. eapply lsafe_bind; [apply lorem_fill_node_safe|]. intros c' s1 [Hs1 Hc]. cbv beta.
    eapply lsafe_bind; [apply IH|]. intros k' s2 [Hs2 Hk]. simpl. split; [lia|]. constructor; assumption.
Qed.

(* the pass as a stage of the pipeline: a forest, or OutOfFuel (exactly when the stream ran out) -- never Internal,
   never a parse error *)
Theorem lorem_fill_safe : forall draws l,
  match lorem_fill draws l with
  | Ok l' => Forall2 (node_filled None) l l'
  | OutOfFuel => lorem_fill_list l draws = LExhausted
  | ParseErr _ _ => False
  | Internal _ => False
  end.
Proof.
  intros draws l. unfold lorem_fill. pose proof (lorem_fill_list_safe l draws) as H.
  destruct (lorem_fill_list l draws); simpl in *; tauto.
Qed.

(* ---------------------------------------------------------------- forests without a lorem header *)
Fixpoint lorem_free (n : anode) : bool :=
  match n with
  | ANode nm _ _ _ ch _ =>
      match lorem_header nm with LNo => true | LYes _ _ _ => false end
      && (fix go (l : list anode) : bool := match l with [] => true | c :: r => lorem_free c && go r end) ch
  end.

Lemma lorem_free_eq : forall nm v rp at_ ch sc,
  lorem_free (ANode nm v rp at_ ch sc) =
  match lorem_header nm with LNo => true | LYes _ _ _ => false end && forallb lorem_free ch.
Proof.
  intros. reflexivity.
Qed.

Theorem lorem_fill_node_free : forall n anc s, lorem_free n = true -> lorem_fill_node anc n s = LOk n s.
Proof.
  apply (anode_ind' (fun n => forall anc s, lorem_free n = true -> lorem_fill_node anc n s = LOk n s)).
  intros nm v rp at_ ch sc IH anc s Hf. rewrite lorem_free_eq in Hf. apply andb_prop in Hf. destruct Hf as [Hh Hk].
  rewrite lorem_fill_node_eq. destruct (lorem_header nm); [|discriminate]. cbn [lbind].
  assert (HK : forall a s0, fill_kids a ch s0 = LOk ch s0).
  { clear - IH Hk. induction IH as [|c k Hc _ IHk]; intros a s0; [reflexivity|].
    cbn [forallb] in Hk. apply andb_prop in Hk. destruct Hk as [H1 H2].
    cbn [fill_kids]. rewrite (Hc a s0 H1). cbn [lbind]. rewrite (IHk H2). reflexivity. }
  rewrite HK. reflexivity.
Qed.

Theorem lorem_fill_list_free : forall l s, forallb lorem_free l = true -> lorem_fill_list l s = LOk l s.
Proof.
  induction l as [|c k IH]; intros s H; [reflexivity|].
  cbn [forallb] in H. apply andb_prop in H. destruct H as [H1 H2].
  cbn [lorem_fill_list]. rewrite (lorem_fill_node_free c None s H1). cbn [lbind]. rewrite (IH s H2). reflexivity.
Qed.

(* a forest without lorem headers passes unchanged, whatever the stream: transform_list is the old pass *)
Theorem lorem_fill_free : forall draws l, forallb lorem_free l = true -> lorem_fill draws l = Ok l.
Proof. intros draws l H. unfold lorem_fill. rewrite (lorem_fill_list_free l draws H). reflexivity. Qed.

Theorem transform_list_free : forall cfg l, forallb lorem_free l = true -> transform_list cfg l = transform_forest cfg l.
Proof. intros cfg l H. unfold transform_list. rewrite (lorem_fill_free _ l H). reflexivity. Qed.


(* ---------------------------------------------------------------- the rest of lorem() inside the transform pass *)
(* the lorem test of the transform pass is made on the name AFTER implicit_tag(); implicit_tag only names a node
   whose name is empty, and the names it gives (the generated table of parents, span, div) are no lorem headers:
   complete sweep of the table *)
Lemma element_map_not_lorem :
  forallb (fun kv => match match_lorem (snd kv) with LNo => true | LYes _ _ _ => false end) GenImplicit.element_map = true.
Proof. vm_compute. reflexivity. Qed.

Lemma implicit_not_lorem : forall cfg pn, match_lorem (implicit_name_of cfg pn) = LNo.
Proof.
  intros cfg pn. unfold implicit_name_of.
  match goal with |- context [assoc_str ?k GenImplicit.element_map] => destruct (assoc_str k GenImplicit.element_map) as [n|] eqn:E end.
  - apply assoc_str_in' in E. destruct E as [k' Hin].
    pose proof element_map_not_lorem as H. rewrite forallb_forall in H. specialize (H _ Hin). cbn [snd] in H.
    destruct (match_lorem n); [reflexivity|discriminate].
  - match goal with |- context [if ?b then _ else _] => destruct b end; vm_compute; reflexivity.
Qed.

(* the name the transform pass tests *)
Definition name_after_implicit (cfg : mconfig) (pn : option (option str)) (nm : option str) (at_ : option (list aattr)) : option str :=
  match nm, nonempty at_ with
  | None, Some _ | Some [], Some _ => Some (implicit_name_of cfg pn)
  | _, _ => nm
  end.
Theorem lorem_test_agree : forall cfg pn nm at_,
  lorem_header (name_after_implicit cfg pn nm at_) = lorem_header nm.
Proof.
  intros cfg pn nm at_. unfold name_after_implicit.
  destruct nm as [[|c x]|]; destruct (nonempty at_); try reflexivity;
    unfold lorem_header; rewrite implicit_not_lorem; destruct (implicit_name_of cfg pn); reflexivity.
Qed.

(* a node under a lorem header becomes a TEXT node: name None -- or, repeated below the top level, the implicit tag of
   its parent --, attributes None, the value (the paragraph the lorem pass wrote) and the children kept *)
Theorem transform_pre_lorem : forall cfg pn top nm v rp at_ ch sc lang minw maxw,
  lorem_header nm = LYes lang minw maxw ->
  fst (transform_node_pre cfg pn top (ANode nm v rp at_ ch sc)) =
  ANode (match rp with
         | Some _ => if top then None else Some (implicit_name_of cfg pn)
         | None => None
         end) v rp None ch sc.
Proof.
  intros cfg pn top nm v rp at_ ch sc lang minw maxw H.
  destruct nm as [[|c x]|]; try discriminate. cbn [lorem_header] in H.
  unfold transform_node_pre. cbn [nonempty]. rewrite H. cbv zeta. cbn [nonempty fst].
  rewrite !andb_false_r. cbn [fst].
  match goal with |- context [opt_str_eqb ?a s_label && ?b] => destruct (opt_str_eqb a s_label && b) end; reflexivity.
Qed.

(* and a node that is not under a lorem header keeps its value in the lorem step of the transform pass: with
   lorem_test_agree, the two passes split lorem() without overlap *)
