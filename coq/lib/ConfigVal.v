(* C20 -- what a value of an option / snippet / variable IS, as far as the expand model looks
   inside it (model/Config.v never looks inside a value; proofs/ConfigExpand.v decodes the merged
   dictionaries into the configuration records of the pipeline models and has to).
   Definitions only; no floats here (a float option value is a non-negative decimal). *)
From Emmet Require Import lib.Base.

Inductive cval : Type :=
| CNone                                (* None *)
| CBool (b : bool)
| CNum (n : N)                         (* a non-negative int *)
| CDec (mant : N) (exp : nat)          (* a non-negative float written mant * 10^-exp, e.g. 0.3 *)
| CStr (s : str)
| CStrs (l : list str)                 (* a list of str *)
| CPairs (l : list (str * str))        (* a dict str -> str, in its iteration order *)
| CFieldDefault                        (* the object DEFAULT_OPTIONS['output.field'] (returns the placeholder) *)
| CTextDefault                         (* the object DEFAULT_OPTIONS['output.text'] (returns the text) *)
| COther (id : Z).                     (* anything else: identified, not looked into *)
