(* Helpers of the stylesheet models: exact decimals standing for the Python floats
   of CSS numbers and alpha values, '%.Nf' printing, hex digits, string order.
   Definitions only.

   DOMAIN of the decimal idealisation.  Python computes float(raw) and prints it
   with '%.4f' (numbers) or '%.8f' (alpha).  The model keeps the exact decimal
   (-1)^neg * mant * 10^-exp that [raw] denotes.  Both agree whenever the printed
   form has at most 15 significant digits, i.e.
     numbers: at most 11 integer digits and at most 4 fractional digits,
     alpha  : ".ddd" with at most 8 fractional digits
   (a double reproduces every decimal of <= 15 significant digits exactly when it
   is printed to that many digits).  Outside of this domain [frac] rounds the
   decimal half-to-even, which is an idealisation of CPython's correctly rounded
   binary->decimal conversion; theorems and generators of C05 stay inside. *)
From Coq Require Import Ascii String.
From Emmet Require Import lib.Base.
Local Open Scope N_scope.

(* string literals of the models: "rgba(" as a list of code points *)
Definition lit (s : string) : str := List.map N_of_ascii (list_ascii_of_string s).

(* ------------------------------------------------------------------ decimals *)
Record dec := mkDec { dneg : bool; dmant : N; dexp : nat }.

Definition dec_one : dec := mkDec false 1 0.
Definition dec_zero : dec := mkDec false 0 0.
Definition pow10 (k : nat) : N := 10 ^ N.of_nat k.

(* value == 0  (Python: -0.0 == 0 is True) *)
Definition dec_is_zero (d : dec) : bool := dmant d =? 0.
(* value == 1 *)
Definition dec_is_one (d : dec) : bool := negb (dneg d) && (dmant d =? pow10 (dexp d)).

(* all characters decimal digits (str.isdecimal() char by char); value of the digit string *)
Fixpoint digits_value (acc : N) (s : str) : option N :=
  match s with
  | [] => Some acc
  | c :: r => match digit_value c with
              | Some d => digits_value (acc * 10 + d) r
              | None => None
              end
  end.

Fixpoint split_at_dot (s : str) : str * option str :=
  match s with
  | [] => ([], None)
  | c :: r => if c =? c_dot then ([], Some r)
              else let '(a, b) := split_at_dot r in (c :: a, b)
  end.

(* float(raw) for raw of the shape  -? digits ( . digits )?  with at least one
   digit; None stands for ValueError (any other shape) *)
Definition dec_of_body (neg : bool) (body : str) : option dec :=
  let ip := fst (split_at_dot body) in
  let fp := match snd (split_at_dot body) with Some f => f | None => [] end in
  match ip, fp with
  | [], [] => None
  | _, _ =>
      match digits_value 0 (ip ++ fp) with
      | Some m => Some (mkDec neg m (length fp))
      | None => None
      end
  end.
Definition dec_of_raw (raw : str) : option dec :=
  match raw with
  | c :: r => if c =? c_dash then dec_of_body true r else dec_of_body false raw
  | [] => None
  end.

(* zero-padded decimal rendering of n on exactly [w] digits (n < 10^w) *)
Fixpoint pad_digits (w : nat) (n : N) (acc : str) : str :=
  match w with
  | O => acc
  | S k => pad_digits k (n / 10) ((c_0 + n mod 10) :: acc)
  end.

(* mantissa of d rescaled to exactly [digits] fractional digits, rounding
   half-to-even when d has more (outside the stated domain) *)
Definition dec_scaled (d : dec) (digits : nat) : N :=
  if Nat.leb (dexp d) digits then dmant d * pow10 (digits - dexp d)
  else
    let p := pow10 (dexp d - digits) in
    let q := dmant d / p in
    let r := dmant d mod p in
    if 2 * r <? p then q
    else if p <? 2 * r then q + 1
    else if N.even q then q else q + 1.

(* '%.<digits>f' % value *)
Definition fmt_fixed (d : dec) (digits : nat) : str :=
  let m := dec_scaled d digits in
  let ip := m / pow10 digits in
  let fp := m mod pow10 digits in
  (if dneg d then [c_dash] else []) ++ str_of_N ip ++
  match digits with O => [] | _ => c_dot :: pad_digits digits fp [] end.

(* re.sub(r'\.?0+$', '', s) *)
Definition strip_zeros (s : str) : str :=
  let r := rev s in
  let r1 := lstrip_by (N.eqb c_0) r in
  match Nat.eqb (length r1) (length r) with
  | true => s                                   (* no trailing zero: no match *)
  | false => match r1 with
             | c :: r2 => if c =? c_dot then rev r2 else rev r1
             | [] => []
             end
  end.

(* color.frac(num, digits) *)
Definition frac (d : dec) (digits : nat) : str := strip_zeros (fmt_fixed d digits).

(* ------------------------------------------------------------------ hex *)
Definition hex_digit_value (c : char) : option N :=
  match digit_value c with
  | Some d => Some d
  | None => if in_range c_a c_f c then Some (c - c_a + 10)
            else if in_range c_A c_F c then Some (c - c_A + 10)
            else None
  end.
(* int(s, 16) for a non-empty string of hex digits; None = ValueError *)
Fixpoint hex_value_acc (acc : N) (s : str) : option N :=
  match s with
  | [] => Some acc
  | c :: r => match hex_digit_value c with
              | Some d => hex_value_acc (acc * 16 + d) r
              | None => None
              end
  end.
Definition hex_value (s : str) : option N :=
  match s with [] => None | _ => hex_value_acc 0 s end.

Definition hex_char (n : N) : char := if n <? 10 then c_0 + n else c_a + (n - 10).
(* format(n, 'x') *)
Fixpoint hex_fuel (fuel : nat) (n : N) (acc : str) : str :=
  match fuel with
  | O => acc
  | S f => let acc' := hex_char (n mod 16) :: acc in
           if n <? 16 then acc' else hex_fuel f (n / 16) acc'
  end.
Definition hex_of_N (n : N) : str := hex_fuel (S (N.to_nat (N.log2 n))) n [].

(* s.rjust(w, '0') *)
Definition rjust0 (w : nat) (s : str) : str := repeat c_0 (w - length s) ++ s.

(* ------------------------------------------------------------------ order, search *)
(* Python's str < str : lexicographic by code point *)
Fixpoint str_ltb (a b : str) : bool :=
  match a, b with
  | [], [] => false
  | [], _ :: _ => true
  | _ :: _, [] => false
  | x :: a', y :: b' => if x <? y then true else if y <? x then false else str_ltb a' b'
  end.

(* stable insertion sort by key (list.sort(key=...)) *)
Fixpoint insert_by {A} (key : A -> str) (x : A) (l : list A) : list A :=
  match l with
  | [] => [x]
  | y :: l' => if str_ltb (key y) (key x) then y :: insert_by key x l' else x :: l
  end.
Definition sort_by {A} (key : A -> str) (l : list A) : list A :=
  fold_right (insert_by key) [] l.

(* text.find(ch, from): index of the first occurrence at or after [from] *)
Fixpoint find_char_from (ch : char) (text : str) (from idx : nat) : option nat :=
  match text with
  | [] => None
  | c :: r =>
      match from with
      | S f => find_char_from ch r f (S idx)
      | O => if c =? ch then Some idx else find_char_from ch r O (S idx)
      end
  end.

Fixpoint str_contains_char (ch : char) (s : str) : bool :=
  match s with [] => false | c :: r => (c =? ch) || str_contains_char ch r end.

(* dict[k] = v preserving insertion order (update in place, or append) *)
Fixpoint dict_set {A} (k : str) (v : A) (l : list (str * A)) : list (str * A) :=
  match l with
  | [] => [(k, v)]
  | (k', v') :: l' => if str_eqb k k' then (k', v) :: l' else (k', v') :: dict_set k v l'
  end.
