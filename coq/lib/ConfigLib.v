(* Shared vocabulary of the configuration component (C20, C08): the documented
   layers, the literal description of one `result.update(...)` statement as the
   generator reads it from the AST of emmet/config.py, and Python dict
   operations on insertion-ordered association lists.  Definitions only. *)
From Emmet Require Import lib.Base.

(* ------------------------------------------------------------------ layers *)
(* The six layers in the words of the property statement. *)
Inductive layer : Type :=
| Default          (* built-in defaults:                 DEFAULT_CONFIG                *)
| TypeDefaults     (* defaults of the abbreviation type: SYNTAX_CONFIG[<type name>]    *)
| SyntaxDefaults   (* defaults of the syntax:            SYNTAX_CONFIG[<syntax name>]  *)
| TypeOverride     (* global config for the type:        global_config[<type name>]    *)
| SyntaxOverride   (* global config for the syntax:      global_config[<syntax name>]  *)
| User.            (* the call's own config:             user_config                   *)

(* What the generator reads literally from the source: which dict a layer
   variable is fetched from and under which name (the `syntax_type` argument or
   the `syntax` argument of merged_data). *)
Inductive selector : Type := ByType | BySyntax.
Inductive source : Type :=
| SrcDefault                       (* DEFAULT_CONFIG                       *)
| SrcSyntaxConfig (s : selector)   (* SYNTAX_CONFIG.get(<s>, empty)        *)
| SrcGlobal (s : selector)         (* global_config.get(<s>, empty)        *)
| SrcUser.                         (* user_config                          *)
(* The two statement shapes the generator accepts:
     result.update(X.get(key, empty))            GetOrEmpty
     if key in X: result.update(X[key])          IfKeyIn
   On dict arguments both mean "the section `key` of X when present, else nothing". *)
Inductive guard : Type := GetOrEmpty | IfKeyIn.

(* meaning of a source in the vocabulary of the property *)
Definition layer_of_source (s : source) : layer :=
  match s with
  | SrcDefault => Default
  | SrcSyntaxConfig ByType => TypeDefaults
  | SrcSyntaxConfig BySyntax => SyntaxDefaults
  | SrcGlobal ByType => TypeOverride
  | SrcGlobal BySyntax => SyntaxOverride
  | SrcUser => User
  end.
Definition source_of_layer (l : layer) : source :=
  match l with
  | Default => SrcDefault
  | TypeDefaults => SrcSyntaxConfig ByType
  | SyntaxDefaults => SrcSyntaxConfig BySyntax
  | TypeOverride => SrcGlobal ByType
  | SyntaxOverride => SrcGlobal BySyntax
  | User => SrcUser
  end.

Definition layer_index (l : layer) : nat :=
  match l with
  | Default => 0 | TypeDefaults => 1 | SyntaxDefaults => 2
  | TypeOverride => 3 | SyntaxOverride => 4 | User => 5
  end.
Definition layer_eqb (a b : layer) : bool := Nat.eqb (layer_index a) (layer_index b).

(* does the layer depend on the syntax name? *)
Definition by_syntax (s : source) : bool :=
  match s with
  | SrcSyntaxConfig BySyntax | SrcGlobal BySyntax => true
  | _ => false
  end.

(* ------------------------------------------------------------------ dicts *)
(* A Python dict with str keys: association list in insertion order.  A real
   dict has unique keys ([NoDup (map fst d)], see proofs); lookups on arbitrary
   lists take the first binding, exactly what [dset] maintains. *)
Section Dict.
  Context {V : Type}.

  Definition dict := list (str * V).

  (* d.get(k) / k in d / d[k] *)
  Definition dget (k : str) (d : dict) : option V := assoc_str k d.

  (* d[k] = v : an existing key keeps its position, a new key goes last *)
  Fixpoint dset (k : str) (v : V) (d : dict) : dict :=
    match d with
    | [] => [(k, v)]
    | (k', v') :: d' => if str_eqb k k' then (k', v) :: d' else (k', v') :: dset k v d'
    end.

  (* d.update(src): assignments in the iteration order of src *)
  Definition dupdate (d src : dict) : dict :=
    fold_left (fun acc kv => dset (fst kv) (snd kv) acc) src d.

  (* the value the pairs [src] bind to [k] when read as a dict literal (last wins) *)
  Fixpoint dlast (k : str) (src : dict) : option V :=
    match src with
    | [] => None
    | (k', v) :: src' =>
        match dlast k src' with
        | Some v' => Some v'
        | None => if str_eqb k k' then Some v else None
        end
    end.

  (* dict built from a sequence of pairs, as `dict(pairs)` / a JSON object does *)
  Definition dict_of_pairs (l : list (str * V)) : dict := dupdate [] l.
End Dict.
Arguments dict V : clear implicits.

(* first defined answer in a list of candidates *)
Fixpoint first_some {A B} (f : A -> option B) (l : list A) : option B :=
  match l with
  | [] => None
  | a :: l' => match f a with Some b => Some b | None => first_some f l' end
  end.
