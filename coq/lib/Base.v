(* Shared base of every model: characters, strings, Python-style results.
   Definitions only (no proofs) so that models keep running when a proof breaks. *)
From Coq Require Export List NArith ZArith Bool Lia.
Export ListNotations.
From Emmet Require Export gen.GenChars.

Definition char := N.
Definition str := list char.

(* ------------------------------------------------------------------ results *)
(* Every Python operation that can raise is an explicit result. *)
Inductive res (A : Type) : Type :=
| Ok (a : A)
| ParseErr (kind : N) (pos : option Z)   (* the library's own parse errors *)
| Internal (kind : N)                    (* TypeError / IndexError / ValueError / bare Exception ... *)
| OutOfFuel.
Arguments Ok {A} a.
Arguments ParseErr {A} kind pos.
Arguments Internal {A} kind.
Arguments OutOfFuel {A}.

(* error kinds (small enum shared with the Python canonicaliser) *)
Definition EK_Scanner : N := 1%N.      (* ScannerException *)
Definition EK_Token : N := 2%N.        (* TokenScannerException *)
Definition EK_Math : N := 3%N.         (* MathExpressionException *)
Definition EK_ZeroDiv : N := 4%N.      (* ZeroDivisionError (documented for math) *)
Definition IK_Index : N := 10%N.
Definition IK_Type : N := 11%N.
Definition IK_Value : N := 12%N.
Definition IK_Exception : N := 13%N.
Definition IK_Attribute : N := 14%N.
Definition IK_Key : N := 15%N.

Definition bind {A B} (r : res A) (f : A -> res B) : res B :=
  match r with
  | Ok a => f a
  | ParseErr k p => ParseErr k p
  | Internal k => Internal k
  | OutOfFuel => OutOfFuel
  end.
Notation "'let*' x ':=' r 'in' k" := (bind r (fun x => k))
  (at level 200, x pattern, r at level 100, k at level 200).

(* ------------------------------------------------------------------ chars *)
Local Open Scope N_scope.
Definition c_tab : char := 9.      Definition c_nl : char := 10.   Definition c_cr : char := 13.
Definition c_space : char := 32.   Definition c_excl : char := 33. Definition c_dquote : char := 34.
Definition c_hash : char := 35.    Definition c_dollar : char := 36. Definition c_percent : char := 37.
Definition c_amp : char := 38.     Definition c_squote : char := 39. Definition c_lparen : char := 40.
Definition c_rparen : char := 41.  Definition c_star : char := 42.   Definition c_plus : char := 43.
Definition c_comma : char := 44.   Definition c_dash : char := 45.   Definition c_dot : char := 46.
Definition c_slash : char := 47.   Definition c_0 : char := 48.      Definition c_9 : char := 57.
Definition c_colon : char := 58.   Definition c_semi : char := 59.   Definition c_lt : char := 60.
Definition c_eq : char := 61.      Definition c_gt : char := 62.     Definition c_quest : char := 63.
Definition c_at : char := 64.      Definition c_A : char := 65.      Definition c_F : char := 70.
Definition c_Z : char := 90.       Definition c_lbrack : char := 91. Definition c_bslash : char := 92.
Definition c_rbrack : char := 93.  Definition c_caret : char := 94.  Definition c_under : char := 95.
Definition c_a : char := 97.       Definition c_f : char := 102.     Definition c_t : char := 116.
Definition c_z : char := 122.      Definition c_lbrace : char := 123. Definition c_pipe : char := 124.
Definition c_rbrace : char := 125. Definition c_nbsp : char := 160.

Definition in_range (lo hi c : N) : bool := (lo <=? c) && (c <=? hi).

(* str.isdecimal() for one character: Unicode Nd, runs of ten starting at a zero digit *)
Definition is_number (c : char) : bool :=
  existsb (fun z => (z <=? c) && (c <? z + 10)) decimal_zeros.
(* int(ch) for a decimal character *)
Definition digit_value (c : char) : option N :=
  match find (fun z => (z <=? c) && (c <? z + 10)) decimal_zeros with
  | Some z => Some (c - z)
  | None => None
  end.
(* str.isdigit() for one character *)
Definition is_digit_py (c : char) : bool :=
  existsb (fun r => in_range (fst r) (snd r) c) isdigit_ranges.

Definition is_alpha (c : char) : bool := in_range c_a c_z c || in_range c_A c_Z c.
Definition is_alpha_numeric (c : char) : bool := is_number c || is_alpha c.
Definition is_alpha_word (c : char) : bool := (c =? c_under) || is_alpha c.
Definition is_alpha_numeric_word (c : char) : bool := is_number c || is_alpha_word c.
Definition is_white_space (c : char) : bool := (c =? c_space) || (c =? c_tab) || (c =? c_nbsp).
Definition is_space (c : char) : bool := is_white_space c || (c =? c_nl) || (c =? c_cr).
Definition is_quote (c : char) : bool := (c =? c_dquote) || (c =? c_squote).
Definition is_py_space (c : char) : bool := existsb (N.eqb c) py_whitespace.
Definition is_linebreak (c : char) : bool := existsb (N.eqb c) py_linebreaks.

(* ------------------------------------------------------------------ strings *)
Fixpoint str_eqb (a b : str) : bool :=
  match a, b with
  | [], [] => true
  | x :: a', y :: b' => (x =? y) && str_eqb a' b'
  | _, _ => false
  end.

Definition slice {A} (l : list A) (a b : nat) : list A := firstn (b - a) (skipn a l).

(* int(s) for s made of decimal characters only; None = ValueError (empty or non-digit) *)
Fixpoint int_of_digits_acc (acc : N) (s : str) : option N :=
  match s with
  | [] => Some acc
  | c :: s' => match digit_value c with
               | Some d => int_of_digits_acc (acc * 10 + d) s'
               | None => None
               end
  end.
Definition int_of_str (s : str) : option N :=
  match s with [] => None | _ => int_of_digits_acc 0 s end.

(* str(n) for a natural number *)
Fixpoint digits_fuel (fuel : nat) (n : N) (acc : str) : str :=
  match fuel with
  | O => acc
  | S f => let acc' := (c_0 + n mod 10) :: acc in
           if n <? 10 then acc' else digits_fuel f (n / 10) acc'
  end.
Definition str_of_N (n : N) : str := digits_fuel (S (N.to_nat (N.log2 n))) n [].
Definition str_of_Z (z : Z) : str :=
  match z with
  | Z0 => [c_0]
  | Zpos p => str_of_N (Npos p)
  | Zneg p => c_dash :: str_of_N (Npos p)
  end.

Definition lower_c (c : char) : char := if in_range c_A c_Z c then c + 32 else c.
Definition upper_c (c : char) : char := if in_range c_a c_z c then c - 32 else c.
Definition lower (s : str) : str := map lower_c s.
Definition upper (s : str) : str := map upper_c s.

Fixpoint lstrip_by (p : char -> bool) (s : str) : str :=
  match s with
  | c :: s' => if p c then lstrip_by p s' else s
  | [] => []
  end.
Definition rstrip_by (p : char -> bool) (s : str) : str := rev (lstrip_by p (rev s)).
Definition strip (s : str) : str := rstrip_by is_py_space (lstrip_by is_py_space s).
Definition lstrip (s : str) : str := lstrip_by is_py_space s.

Fixpoint join (sep : str) (l : list str) : str :=
  match l with
  | [] => []
  | [x] => x
  | x :: l' => x ++ sep ++ join sep l'
  end.

(* str.splitlines(): split at Python's line boundaries; "\r\n" is one boundary;
   no trailing empty line *)
Fixpoint splitlines_aux (s : str) (cur : str) : list str :=
  match s with
  | [] => match cur with [] => [] | _ => [rev cur] end
  | c :: s' =>
      if is_linebreak c then
        match s' with
        | c2 :: s'' => if (c =? c_cr) && (c2 =? c_nl)
                       then rev cur :: splitlines_aux s'' []
                       else rev cur :: splitlines_aux s' []
        | [] => [rev cur]
        end
      else splitlines_aux s' (c :: cur)
  end.
Definition splitlines (s : str) : list str := splitlines_aux s [].

Fixpoint repeat_str (s : str) (n : nat) : str :=
  match n with O => [] | S k => s ++ repeat_str s k end.

Fixpoint starts_with (p s : str) : bool :=
  match p, s with
  | [], _ => true
  | x :: p', y :: s' => (x =? y) && starts_with p' s'
  | _ :: _, [] => false
  end.

Definition mem_str (x : str) (l : list str) : bool := existsb (str_eqb x) l.

Fixpoint assoc_str {A} (k : str) (l : list (str * A)) : option A :=
  match l with
  | [] => None
  | (k', v) :: l' => if str_eqb k k' then Some v else assoc_str k l'
  end.

Fixpoint assoc_N {A} (k : N) (l : list (N * A)) : option A :=
  match l with
  | [] => None
  | (k', v) :: l' => if k =? k' then Some v else assoc_N k l'
  end.

Definition opt_default {A} (d : A) (o : option A) : A := match o with Some a => a | None => d end.
