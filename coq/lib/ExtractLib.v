(* Specification vocabulary of C11 (extract_abbreviation): the stated
   abbreviation grammar, left/right contexts and complete HTML tags.
   Definitions only; nothing here mentions the scanner. Character classes are
   fixed here (not generated): the proofs show the code's tables include them. *)
From Emmet Require Import lib.Base.
Local Open Scope N_scope.

(* ------------------------------------------------------------------ characters *)
(* what an abbreviation may contain outside brackets: letters, digits and  # . * : $ - _ ! @ % ^ + > /  *)
Definition abbr_char (c : char) : bool :=
  is_alpha c || is_number c ||
  existsb (N.eqb c) [35; 46; 42; 58; 36; 45; 95; 33; 64; 37; 94; 43; 62; 47].

(* the four operators that may not be left dangling at the start *)
Definition dangling (c : char) : Prop := In c [c_gt; c_plus; c_caret; c_star].

(* a character that is neither a quote, nor '<', nor a backslash *)
Definition plain (c : char) : bool :=
  negb (is_quote c) && negb (c =? c_lt) && negb (c =? c_bslash).

(* whitespace that may precede an abbreviation: space, tab, nbsp, \n, \r *)
Definition ws_char (c : char) : bool := is_space c.

(* ------------------------------------------------------------------ quote structure *)
(* [items s]: quotes in [s] pair up ( "..." or '...' , the same quote character
   does not occur inside), and outside quoted strings there is no '<' and no
   backslash.  The definition reads the same from either end. *)
Inductive items : str -> Prop :=
| it_nil : items []
| it_char c r : plain c = true -> items r -> items (c :: r)
| it_quoted q mid r : is_quote q = true -> ~ In q mid -> items r -> items (q :: mid ++ q :: r).

(* [safe rl] for a REVERSED text rl (head = the character directly left of the
   abbreviation): walking left one meets a '>' or the start of the line before
   any '<', backslash or unpaired quote.  What lies left of that '>' is arbitrary. *)
Inductive safe : str -> Prop :=
| sf_nil : safe []
| sf_gt r : safe (c_gt :: r)
| sf_char c r : plain c = true -> safe r -> safe (c :: r)
| sf_quoted q mid r : is_quote q = true -> ~ In q mid -> safe r -> safe (q :: mid ++ q :: r).

(* ------------------------------------------------------------------ the abbreviation grammar *)
(* Written left-recursively ("everything so far, then one more item").
   [mk] = markup syntax: attribute sets [...] and text {...} exist only there. *)

(* contents of {...}: balanced with respect to curly braces, anything else is free *)
Inductive cu : str -> Prop :=
| cu_nil : cu []
| cu_char P c : cu P -> c <> c_lbrace -> c <> c_rbrace -> cu (P ++ [c])
| cu_nest P C : cu P -> cu C -> cu (P ++ c_lbrace :: C ++ [c_rbrace]).

Definition is_bracket (c : char) : bool :=
  (c =? c_lparen) || (c =? c_rparen) || (c =? c_lbrack) || (c =? c_rbrack) || (c =? c_lbrace) || (c =? c_rbrace).

(* contents of [...]: balanced with respect to ( ) [ ] { }; inside a nested {...} only curly braces count *)
Inductive sq : str -> Prop :=
| sq_nil : sq []
| sq_char P c : sq P -> is_bracket c = false -> sq (P ++ [c])
| sq_round P C : sq P -> sq C -> sq (P ++ c_lparen :: C ++ [c_rparen])
| sq_square P C : sq P -> sq C -> sq (P ++ c_lbrack :: C ++ [c_rbrack])
| sq_curly P C : sq P -> cu C -> sq (P ++ c_lbrace :: C ++ [c_rbrace]).

(* abbreviation: names, operators, numbering ... outside brackets; groups ( );
   attribute sets [ ] and text { } with balanced brackets and paired quotes inside *)
Inductive abbr (mk : bool) : str -> Prop :=
| ab_nil : abbr mk []
| ab_char P c : abbr mk P -> abbr_char c = true -> abbr mk (P ++ [c])
| ab_group P G : abbr mk P -> abbr mk G -> abbr mk (P ++ c_lparen :: G ++ [c_rparen])
| ab_attrs P C : mk = true -> abbr mk P -> sq C -> items C -> abbr mk (P ++ c_lbrack :: C ++ [c_rbrack])
| ab_text P C : mk = true -> abbr mk P -> cu C -> items C -> abbr mk (P ++ c_lbrace :: C ++ [c_rbrace]).

(* ------------------------------------------------------------------ complete HTML tags *)
Definition ident_char (c : char) : bool := (c =? c_colon) || (c =? c_dash) || is_alpha c || is_number c.
Definition tag_ws (c : char) : bool := (c =? c_space) || (c =? c_tab).
Definition all (p : char -> bool) (s : str) : Prop := forall c, In c s -> p c = true.
Definition name_ok (s : str) : Prop := s <> [] /\ all ident_char s.
Definition ws_ok (s : str) : Prop := s <> [] /\ all tag_ws s.

Inductive attr_value :=
| VNone                          (* boolean attribute *)
| VUnq (v : str)                 (* name=value, value made of identifier characters *)
| VQuo (q : char) (v : str).     (* name="value" or name='value' *)
Record tattr := mkAttr { ta_ws : str; ta_name : str; ta_val : attr_value }.

Definition value_ok (v : attr_value) : Prop :=
  match v with
  | VNone => True
  | VUnq s => name_ok s
  | VQuo q s => is_quote q = true /\ ~ In q s
  end.
Definition attr_ok (a : tattr) : Prop := ws_ok (ta_ws a) /\ name_ok (ta_name a) /\ value_ok (ta_val a).

Definition render_value (v : attr_value) : str :=
  match v with
  | VNone => []
  | VUnq s => c_eq :: s
  | VQuo q s => c_eq :: q :: s ++ [q]
  end.
Definition render_attr (a : tattr) : str := ta_ws a ++ ta_name a ++ render_value (ta_val a).

Inductive tag :=
| TOpen (name : str) (attrs : list tattr) (ws : str) (selfclose : bool)   (* <name attrs ws? /? > *)
| TClose (name : str) (ws : str).                                          (* </name ws? > *)

Definition tag_ok (t : tag) : Prop :=
  match t with
  | TOpen name attrs ws _ => name_ok name /\ Forall attr_ok attrs /\ all tag_ws ws
  | TClose name ws => name_ok name /\ all tag_ws ws
  end.

Definition render_tag (t : tag) : str :=
  match t with
  | TOpen name attrs ws sc =>
      c_lt :: name ++ concat (map render_attr attrs) ++ ws ++ (if sc then [c_slash] else []) ++ [c_gt]
  | TClose name ws => c_lt :: c_slash :: name ++ ws ++ [c_gt]
  end.

(* ------------------------------------------------------------------ contexts *)
(* left of the abbreviation: start of the line, whitespace, or a complete HTML tag *)
Inductive left_ctx : str -> Prop :=
| lc_sol : left_ctx []
| lc_ws L w : ws_char w = true -> safe (rev L) -> left_ctx (L ++ [w])
| lc_tag L t : tag_ok t -> left_ctx (L ++ render_tag t).

Definition closing (mk : bool) (c : char) : bool :=
  (c =? c_rparen) || (mk && ((c =? c_rbrack) || (c =? c_rbrace))).

(* [auto_tail mk C]: what an editor auto-inserts right of the caret: at most one
   quote followed by closing brackets *)
Definition auto_tail (mk : bool) (C : str) : Prop :=
  all (closing mk) C \/ exists q C', C = q :: C' /\ is_quote q = true /\ all (closing mk) C'.

(* right of the abbreviation, with look-ahead on: anything that does not itself
   start with a closing bracket (or, when nothing was auto-closed, with a quote) *)
Definition right_ctx (mk look : bool) (C R : str) : Prop :=
  if look then
    auto_tail mk C /\
    match R with
    | [] => True
    | r :: _ => closing mk r = false /\ (C = [] -> is_quote r = false)
    end
  else C = [].

(* every occurrence of the closing bracket [cl] in A has an opening bracket [op] somewhere to its left
   (used for the prefix search, which skips `[...]` and `{...}` pairs without nesting) *)
Definition opener_left (cl op : char) (A : str) : Prop :=
  forall P S, A = P ++ cl :: S -> In op P.
