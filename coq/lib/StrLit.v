(* Readable string literals for statements: [S "ul"] is the code-point list of an ASCII string. *)
From Coq Require Import String Ascii.
From Emmet Require Import lib.Base.
Definition S (x : string) : str := map (fun a => N.of_nat (nat_of_ascii a)) (list_ascii_of_string x).
