(* Wire format between the Python harness and the executable models: a case is
   a list of integers, a result is a list of integers.  Encoders/decoders only. *)
From Emmet Require Import lib.Base.
Local Open Scope Z_scope.

Definition wire := list Z.

Definition enc_Z (z : Z) : wire := [z].
Definition enc_N (n : N) : wire := [Z.of_N n].
Definition enc_nat (n : nat) : wire := [Z.of_nat n].
Definition enc_bool (b : bool) : wire := [if b then 1 else 0].
Definition enc_str (s : str) : wire := Z.of_nat (length s) :: map Z.of_N s.
Definition enc_opt {A} (f : A -> wire) (o : option A) : wire :=
  match o with None => [0] | Some a => 1 :: f a end.
Definition enc_list {A} (f : A -> wire) (l : list A) : wire :=
  Z.of_nat (length l) :: concat (map f l).
Definition enc_pair {A B} (f : A -> wire) (g : B -> wire) (p : A * B) : wire :=
  f (fst p) ++ g (snd p).

(* results: tag 0 = Ok payload, 1 = ParseErr kind has_pos pos, 2 = Internal kind, 3 = OutOfFuel *)
Definition enc_res {A} (f : A -> wire) (r : res A) : wire :=
  match r with
  | Ok a => 0 :: f a
  | ParseErr k p => 1 :: Z.of_N k :: enc_opt enc_Z p
  | Internal k => [2; Z.of_N k]
  | OutOfFuel => [3]
  end.

Definition dec (A : Type) := wire -> option (A * wire).

Definition dec_Z : dec Z := fun w => match w with z :: w' => Some (z, w') | [] => None end.
Definition dec_N : dec N := fun w =>
  match w with z :: w' => if z <? 0 then None else Some (Z.to_N z, w') | [] => None end.
Definition dec_nat : dec nat := fun w =>
  match w with z :: w' => if z <? 0 then None else Some (Z.to_nat z, w') | [] => None end.
Definition dec_bool : dec bool := fun w =>
  match w with z :: w' => Some (negb (z =? 0), w') | [] => None end.

Fixpoint dec_n {A} (d : dec A) (n : nat) (w : wire) : option (list A * wire) :=
  match n with
  | O => Some ([], w)
  | S k => match d w with
           | Some (a, w') => match dec_n d k w' with
                             | Some (l, w'') => Some (a :: l, w'')
                             | None => None
                             end
           | None => None
           end
  end.
Definition dec_list {A} (d : dec A) : dec (list A) := fun w =>
  match dec_nat w with
  | Some (n, w') => dec_n d n w'
  | None => None
  end.
Definition dec_str : dec str := dec_list dec_N.
Definition dec_opt {A} (d : dec A) : dec (option A) := fun w =>
  match w with
  | 0 :: w' => Some (None, w')
  | _ :: w' => match d w' with Some (a, w'') => Some (Some a, w'') | None => None end
  | [] => None
  end.

(* malformed case marker returned by run functions *)
Definition wire_bad : wire := [-99].
