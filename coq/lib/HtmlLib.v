(* List lemmas used by the HTML matcher proofs (no model content). *)
From Coq Require Import List NArith ZArith Bool Lia.
From Emmet Require Import lib.Base.
Import ListNotations.

Lemma skipn_skipn {A} : forall n k (l : list A), skipn n (skipn k l) = skipn (k + n) l.
Proof.
  intros n k; revert n. induction k as [|k IH]; intros n l; [reflexivity|].
  destruct l; [rewrite !skipn_nil; reflexivity|]. simpl. apply IH.
Qed.

Lemma nth_error_skipn {A} : forall k n (l : list A), nth_error (skipn k l) n = nth_error l (k + n).
Proof.
  induction k as [|k IH]; intros n l; [reflexivity|].
  destruct l; [destruct n; reflexivity|]. simpl. apply IH.
Qed.

Lemma hd_skipn_nth_error {A} : forall k (l : list A) x r, skipn k l = x :: r -> nth_error l k = Some x.
Proof.
  intros k l x r H. rewrite <- (Nat.add_0_r k), <- nth_error_skipn, H. reflexivity.
Qed.

Lemma nth_error_lt {A} : forall (l : list A) n x, nth_error l n = Some x -> n < length l.
Proof. intros l n x H. apply nth_error_Some. congruence. Qed.

Lemma skipn_length_le {A} : forall n (l : list A), length (skipn n l) = length l - n.
Proof. intros; apply skipn_length. Qed.

Lemma firstn_length_exact {A} : forall n (l : list A), n <= length l -> length (firstn n l) = n.
Proof. intros. rewrite firstn_length. lia. Qed.

Lemma starts_with_firstn : forall p s, starts_with p s = true -> firstn (length p) s = p.
Proof.
  induction p as [|x p IH]; intros s H; [reflexivity|].
  destruct s as [|y s]; [discriminate|]. simpl in H.
  apply andb_true_iff in H. destruct H as [H1 H2]. apply N.eqb_eq in H1. subst.
  simpl. f_equal. apply IH. exact H2.
Qed.

Lemma starts_with_length : forall p s, starts_with p s = true -> length p <= length s.
Proof.
  induction p as [|x p IH]; intros s H; simpl; [lia|].
  destruct s as [|y s]; [discriminate|]. simpl in H.
  apply andb_true_iff in H. destruct H as [_ H2]. apply IH in H2. simpl. lia.
Qed.

Lemma firstn_nth_error {A} : forall n (l : list A) k, k < n -> nth_error (firstn n l) k = nth_error l k.
Proof.
  induction n as [|n IH]; intros l k H; [lia|].
  destruct l; [destruct k; reflexivity|]. destruct k; [reflexivity|]. simpl. apply IH. lia.
Qed.

Lemma firstn_firstn_min {A} : forall n m (l : list A), firstn n (firstn m l) = firstn (min n m) l.
Proof. intros. apply firstn_firstn. Qed.

Lemma firstn_skipn_comm' {A} : forall m n (l : list A), firstn m (skipn n l) = skipn n (firstn (n + m) l).
Proof. intros. apply firstn_skipn_comm. Qed.

Lemma str_eqb_eq : forall a b, str_eqb a b = true <-> a = b.
Proof.
  induction a as [|x a IH]; intros [|y b]; simpl; split; intros H; try reflexivity; try discriminate.
  - apply andb_true_iff in H. destruct H as [H1 H2]. apply N.eqb_eq in H1. apply IH in H2. congruence.
  - inversion H; subst. rewrite N.eqb_refl. simpl. apply IH. reflexivity.
Qed.

Lemma str_eqb_refl : forall a, str_eqb a a = true.
Proof. intros. apply str_eqb_eq. reflexivity. Qed.
