(* Extraction of the C15 SPEC oracle.  ExtrOcamlBasic only; no directive of ours. *)
From Coq Require Import Extraction ExtrOcamlBasic.
From Emmet Require Import run.IndentRun.
Extraction Language OCaml.
Extraction "indent_model.ml" IndentRun.run.
