(* Extraction of the configuration model (C20).  ExtrOcamlBasic only; N, Z,
   positive and nat stay the Coq datatypes; no directive of ours. *)
From Coq Require Import Extraction ExtrOcamlBasic.
From Emmet Require Import run.ConfigRun.
Extraction Language OCaml.
Extraction "config_model.ml" ConfigRun.run.
