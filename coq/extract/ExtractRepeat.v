(* Extraction of the C02 spec runner.  ExtrOcamlBasic only; N, Z, positive and nat
   stay the Coq datatypes; no directive of ours. *)
From Coq Require Import Extraction ExtrOcamlBasic.
From Emmet Require Import run.RepeatRun.
Extraction Language OCaml.
Extraction "repeat_model.ml" RepeatRun.run.
