(* Extraction of the executable wrap SPEC (convert_w).  ExtrOcamlBasic only; N, Z, positive and nat stay the
   Coq datatypes; no directive of ours. *)
From Coq Require Import Extraction ExtrOcamlBasic.
From Emmet Require Import run.WrapRun.
Extraction Language OCaml.
Extraction "wrap_model.ml" WrapRun.run.
