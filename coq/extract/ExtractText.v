(* Extraction of the C04 front-end model.  ExtrOcamlBasic only; N, Z, positive and nat stay the Coq
   datatypes; no directive of ours. *)
From Coq Require Import Extraction ExtrOcamlBasic.
From Emmet Require Import run.TextRun.
Extraction Language OCaml.
Extraction "text_model.ml" TextRun.run.
