(* Extraction of the stylesheet grammar (spec side of C10 Level B).  ExtrOcamlBasic only. *)
From Coq Require Import Extraction ExtrOcamlBasic.
From Emmet Require Import run.SheetRun.
Extraction Language OCaml.
Extraction "sheet_model.ml" SheetRun.run.
