(* Extraction of the C03/C14 tree observer.  ExtrOcamlBasic only; no directive of ours. *)
From Coq Require Import Extraction ExtrOcamlBasic.
From Emmet Require Import run.AttrRun.
Extraction Language OCaml.
Extraction "attr_model.ml" AttrRun.run.
