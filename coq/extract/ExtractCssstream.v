(* Extraction of the float-free stylesheet format stage (model/CssFormatStream.v: the stream
   formatter with callback events).  ExtrOcamlBasic only; N, Z, positive and nat stay the Coq
   datatypes; no directive of ours. *)
From Coq Require Import Extraction ExtrOcamlBasic.
From Emmet Require Import run.CssstreamRun.
Extraction Language OCaml.
Extraction "cssstream_model.ml" CssstreamRun.run.
