(* Extraction of the domain check of the C12 depth theorems.  ExtrOcamlBasic only; N, Z, positive and nat
   stay the Coq datatypes; no directive of ours. *)
From Coq Require Import Extraction ExtrOcamlBasic.
From Emmet Require Import run.DepthRun.
Extraction Language OCaml.
Extraction "depth_model.ml" DepthRun.run.
