(* Extraction of the lorem model.  ExtrOcamlBasic only; N, Z, positive and nat
   stay the Coq datatypes; no directive of ours. *)
From Coq Require Import Extraction ExtrOcamlBasic.
From Emmet Require Import run.LoremRun.
Extraction Language OCaml.
Extraction "lorem_model.ml" LoremRun.run.
