(* Extraction of the HTML matcher model.  ExtrOcamlBasic only; N, Z, positive and
   nat stay the Coq datatypes; no directive of ours. *)
From Coq Require Import Extraction ExtrOcamlBasic.
From Emmet Require Import run.HtmlRun.
Extraction Language OCaml.
Extraction "html_model.ml" HtmlRun.run.
