(* Extraction of the history model (C08).  ExtrOcamlBasic only; Z, nat stay the Coq
   datatypes; no directive of ours. *)
From Coq Require Import Extraction ExtrOcamlBasic.
From Emmet Require Import run.HistoryRun.
Extraction Language OCaml.
Extraction "history_model.ml" HistoryRun.run.
