(* Extraction of the float-free stylesheet models (tokenizer, parser, colour,
   number formatting).  ExtrOcamlBasic only; N, Z, positive and nat stay the Coq
   datatypes; no directive of ours.  The scorer (PrimFloat) is NOT extracted: the
   full pipeline is evaluated inside Coq (harness/style_util.py). *)
From Coq Require Import Extraction ExtrOcamlBasic.
From Emmet Require Import run.StyleRun.
Extraction Language OCaml.
Extraction "style_model.ml" StyleRun.run.
