(* Extraction of the CSS matcher model.  ExtrOcamlBasic only; N, Z, positive and nat
   stay the Coq datatypes; no directive of ours. *)
From Coq Require Import Extraction ExtrOcamlBasic.
From Emmet Require Import run.CssRun.
Extraction Language OCaml.
Extraction "css_model.ml" CssRun.run.
