(* Extraction of the markup.href matcher model.  ExtrOcamlBasic only; N, Z, positive and nat
   stay the Coq datatypes; no directive of ours. *)
From Coq Require Import Extraction ExtrOcamlBasic.
From Emmet Require Import run.HrefRun.
Extraction Language OCaml.
Extraction "href_model.ml" HrefRun.run.
