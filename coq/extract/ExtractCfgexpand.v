(* Extraction of the expand model of C20, markup half (run/CfgexpandRun.v).  ExtrOcamlBasic only; N, Z,
   positive and nat stay the Coq datatypes; no directive of ours. *)
From Coq Require Import Extraction ExtrOcamlBasic.
From Emmet Require Import run.CfgexpandRun.
Extraction Language OCaml.
Extraction "cfgexpand_model.ml" CfgexpandRun.run.
