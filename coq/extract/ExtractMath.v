(* Extraction of the math-expression model.  ExtrOcamlBasic only; N, Z, positive,
   nat and Q stay the Coq datatypes; no directive of ours. *)
From Coq Require Import Extraction ExtrOcamlBasic.
From Emmet Require Import run.MathRun.
Extraction Language OCaml.
Extraction "math_model.ml" MathRun.run.
