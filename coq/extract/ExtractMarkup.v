(* Extraction of the markup model.  ExtrOcamlBasic only; N, Z, positive and nat
   stay the Coq datatypes; no directive of ours. *)
From Coq Require Import Extraction ExtrOcamlBasic.
From Emmet Require Import run.MarkupRun.
Extraction Language OCaml.
Extraction "markup_model.ml" MarkupRun.run.
