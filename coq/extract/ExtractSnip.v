(* Extraction of the C14 acyclicity predicates.  ExtrOcamlBasic only; no directive of ours. *)
From Coq Require Import Extraction ExtrOcamlBasic.
From Emmet Require Import run.SnipRun.
Extraction Language OCaml.
Extraction "snip_model.ml" SnipRun.run.
