(* Extraction of the extract_abbreviation model.  ExtrOcamlBasic only; N, Z,
   positive and nat stay the Coq datatypes; no directive of ours. *)
From Coq Require Import Extraction ExtrOcamlBasic.
From Emmet Require Import run.ExtractRun.
Extraction Language OCaml.
Extraction "extract_model.ml" ExtractRun.run.
