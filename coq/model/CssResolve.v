(* Model of emmet/stylesheet/__init__.py: parse / resolve_node and everything below
   it (resolve_gradient, resolve_as_property, resolve_value_keywords,
   resolve_as_snippet, find_best_match, get_unmatched_part, resolve_keyword,
   resolve_numeric_value, has_field, wrap_with_field, is_value_scope,
   get_snippets_for_scope).  Follows the Python function by function; models the
   repaired find_best_match (direct hit = equal names), wrap_with_field
   (numbers printed with frac; a function call stays a call) and resolve_gradient (property name under every
   non-value scope, not applied in @@section scope).  Definitions only.

   Mutation: every function returns the new node.  The Python code shares the
   tokens of a snippet's default value with the node and resolve_numeric_value
   updates them in place (a C08 matter); the model is the cache-free, copy
   semantics. *)
From Coq Require Import String PrimFloat.
From Emmet Require Import lib.Base lib.StyleLib model.CssTokenizer model.CssParser model.Score
     model.Color model.CssSnippets.
Local Open Scope N_scope.

(* how output.field renders a tabstop *)
Inductive field_style :=
| FieldPlaceholder        (* the library default: lambda index, placeholder: placeholder *)
| FieldTabstop.           (* "${" index? (":" placeholder)? "}"  -- the harness' own callback *)

(* the part of Config the stylesheet pipeline reads *)
Record sconfig := mkCfg {
  c_snippets : list (str * str);          (* config.snippets, raw *)
  c_context : option str;                 (* config.context['name']; None = no context *)
  c_keywords : list str;
  c_unitless : list str;
  c_short_hex : bool;
  c_between : str;
  c_after : str;
  c_int_unit : str;
  c_float_unit : str;
  c_aliases : list (str * str);
  c_json : bool;
  c_json_dq : bool;
  c_skip_unmatched : bool;
  c_min_score : float;
  c_format : bool;
  c_newline : str;
  c_base_indent : str;
  c_indent : str;
  c_field : field_style
}.

Definition scope_value : str := lit "@@value".
Definition scope_section : str := lit "@@section".
Definition scope_property : str := lit "@@property".
Definition gradient_name : str := lit "lg".

(* is_value_scope(config) *)
Definition is_value_scope (cfg : sconfig) : bool :=
  match c_context cfg with
  | Some name => str_eqb name scope_value || negb (starts_with (lit "@@") name)
  | None => false
  end.

(* get_snippets_for_scope(snippets, config) *)
Definition get_snippets_for_scope (snippets : list snippet) (cfg : sconfig) : list snippet :=
  match c_context cfg with
  | Some name =>
      if str_eqb name scope_section then filter (fun s => negb (sn_is_property s)) snippets
      else if str_eqb name scope_property then filter sn_is_property snippets
      else snippets
  | None => snippets
  end.

(* ---- find_best_match(abbr, items, min_score, partial_match) *)
Fixpoint fbm_loop {A} (key : A -> str) (abbr : str) (partial : bool) (items : list A)
         (max_score : float) (matched : option A) : option A * float * bool :=
  match items with
  | [] => (matched, max_score, false)
  | item :: rest =>
      let part := key item in
      let score := calculate_score abbr part partial in
      if f_eqb score f_one && str_eqb (lower abbr) (lower part)
      then (Some item, max_score, true)                         (* direct hit *)
      else if negb (f_is_zero score) && f_leb max_score score
      then fbm_loop key abbr partial rest score (Some item)
      else fbm_loop key abbr partial rest max_score matched
  end.
Definition find_best_match {A} (key : A -> str) (abbr : str) (items : list A)
           (min_score : float) (partial : bool) : option A :=
  let '(m, max_score, direct) := fbm_loop key abbr partial items f_zero None in
  if direct then m
  else if f_leb min_score max_score then m else None.

(* get_unmatched_part(abbr, text) *)
Fixpoint get_unmatched_part (abbr text : str) (last_pos : nat) : str :=
  match abbr with
  | [] => []
  | ch :: r =>
      match find_char_from ch text last_pos 0 with
      | Some p => get_unmatched_part r text (S p)
      | None => abbr
      end
  end.

(* resolve_keyword(kw, config, snippet, min_score); [sn] = keywords and
   dependencies' keywords of the property snippet, if one is given *)
Definition find_in_dict (kw : str) (d : kwdict) (min_score : float) : option cval :=
  match find_best_match (fun k => k) kw (map fst d) min_score false with
  | Some ref => match ref with
                | [] => None                                  (* `if ref:` *)
                | _ => assoc_str ref d
                end
  | None => None
  end.
Fixpoint find_in_deps (kw : str) (deps : list kwdict) (min_score : float) : option cval :=
  match deps with
  | [] => None
  | d :: r => match find_in_dict kw d min_score with
              | Some v => Some v
              | None => find_in_deps kw r min_score
              end
  end.
Definition resolve_keyword (kw : str) (cfg : sconfig) (sn : option (kwdict * list kwdict))
           (min_score : float) : option cval :=
  let from_snippet :=
    match sn with
    | Some (kws, deps) =>
        match find_in_dict kw kws min_score with
        | Some v => Some v
        | None => find_in_deps kw deps min_score
        end
    | None => None
    end in
  match from_snippet with
  | Some v => Some v
  | None =>
      match find_best_match (fun k => k) kw (c_keywords cfg) min_score false with
      | Some ref => match ref with [] => None | _ => Some (synth (CLiteral ref)) end
      | None => None
      end
  end.

(* resolve_value_keywords(node, config, snippet, minScore) *)
Definition resolve_value_token (cfg : sconfig) (sn : option (kwdict * list kwdict)) (min_score : float)
           (token : cval) : cval :=
  match token with
  | VTok (CLiteral v) _ _ =>
      match resolve_keyword v cfg sn min_score with Some k => k | None => token end
  | VFunc name args =>
      match resolve_keyword name cfg sn min_score with
      | Some (VFunc mname margs) => VFunc mname (args ++ skipn (length args) margs)
      | _ => token
      end
  | _ => token
  end.
Definition resolve_value_keywords (cfg : sconfig) (sn : option (kwdict * list kwdict)) (min_score : float)
           (value : list cssvalue) : list cssvalue :=
  map (map (resolve_value_token cfg sn min_score)) value.

(* has_field(value) *)
Fixpoint has_field_val (v : cval) : bool :=
  match v with
  | VTok (CField _ _) _ _ => true
  | VTok _ _ _ => false
  | VFunc _ args => existsb (fun a => existsb has_field_val a) args
  end.
Definition has_field (value : cssvalue) : bool := existsb has_field_val value.

(* wrap_with_field(node, config, state): threads state.index.  Repaired code: every token becomes ONE token -- a
   colour, literal, number or string becomes a Field (no position) holding its printed text; a FunctionCall stays a
   FunctionCall whose arguments are wrapped with the same counter (document order); anything else is kept. *)
Definition q_of (single : bool) : str := if single then [c_squote] else [c_dquote].
Fixpoint wrap_val (cfg : sconfig) (v : cval) (idx : N) {struct v} : cval * N :=
  match v with
  | VTok (CColor r g b a _) _ _ => (synth (CField (color r g b a (c_short_hex cfg)) (Some idx)), idx + 1)
  | VTok (CLiteral s) _ _ => (synth (CField s (Some idx)), idx + 1)
  | VTok (CNumber value _ u) _ _ => (synth (CField (frac value 4 ++ u) (Some idx)), idx + 1)
  | VTok (CString s single) _ _ => (synth (CField (q_of single ++ s ++ q_of single) (Some idx)), idx + 1)
  | VFunc name args =>
      let fix wrap_args (l : list (list cval)) (idx : N) : list (list cval) * N :=
        match l with
        | [] => ([], idx)
        | arg :: r =>
            let fix wrap_arg (vs : list cval) (idx : N) : list cval * N :=
              match vs with
              | [] => ([], idx)
              | x :: xs => let '(o1, i1) := wrap_val cfg x idx in
                           let '(o2, i2) := wrap_arg xs i1 in (o1 :: o2, i2)
              end in
            let '(o1, i1) := wrap_arg arg idx in
            let '(o2, i2) := wrap_args r i1 in
            (o1 :: o2, i2)
        end in
      let '(args', idx') := wrap_args args idx in
      (VFunc name args', idx')
  | _ => (v, idx)
  end.
Fixpoint wrap_list (cfg : sconfig) (vs : list cval) (idx : N) : list cval * N :=
  match vs with
  | [] => ([], idx)
  | x :: xs => let '(o1, i1) := wrap_val cfg x idx in
               let '(o2, i2) := wrap_list cfg xs i1 in (o1 :: o2, i2)
  end.
Fixpoint wrap_args (cfg : sconfig) (l : list (list cval)) (idx : N) : list (list cval) * N :=
  match l with
  | [] => ([], idx)
  | a :: r => let '(o1, i1) := wrap_list cfg a idx in
              let '(o2, i2) := wrap_args cfg r i1 in (o1 :: o2, i2)
  end.
Definition wrap_with_field (cfg : sconfig) (node : cssvalue) : cssvalue := fst (wrap_list cfg node 1).

(* ---- resolve_as_snippet: the fields of a raw snippet, by the hand-compiled
   regex  "${" DIGITS ( ":" run of characters other than "}" )? "}" *)
Inductive seg := SegLit (s : str) | SegField (idx : N) (ph : str).

(* a field at the head of [s]: (index text, placeholder, matched length) *)
Definition field_at (s : str) : option (str * str * nat) :=
  match s with
  | c1 :: c2 :: r =>
      if (c1 =? c_dollar) && (c2 =? c_lbrace) then
        match cspan is_number r with
        | O => None
        | nd =>
            let r1 := skipn nd r in
            match r1 with
            | c :: r2 =>
                if c =? c_rbrace then Some (firstn nd r, [], (2 + nd + 1)%nat)
                else if c =? c_colon then
                  match cspan (fun x => negb (x =? c_rbrace)) r2 with
                  | O => None
                  | g => if cpeek_is c_rbrace (skipn g r2)
                         then Some (firstn nd r, firstn g r2, (2 + nd + 1 + g + 1)%nat)
                         else None
                  end
                else None
            | [] => None
            end
        end
      else None
  | _ => None
  end.

Fixpoint split_fields (s : str) (skip : nat) (cur : str) : res (list seg) :=
  match s with
  | [] => Ok (match cur with [] => [] | _ => [SegLit (rev cur)] end)
  | c :: r =>
      match skip with
      | S k => split_fields r k cur
      | O =>
          match field_at s with
          | Some (digits, ph, len) =>
              match int_of_str digits with
              | None => Internal IK_Value                          (* int(m.group(1)) *)
              | Some idx =>
                  let* rest := split_fields r (pred len) [] in
                  Ok ((match cur with [] => [] | _ => [SegLit (rev cur)] end) ++ SegField idx ph :: rest)
              end
          | None => split_fields r O (c :: cur)
          end
      end
  end.

Fixpoint fill_fields (segs : list seg) (input : list cval) : list cval :=
  match segs with
  | [] => []
  | SegLit s :: r => synth (CLiteral s) :: fill_fields r input
  | SegField idx ph :: r =>
      match input with
      | v :: input' => v :: fill_fields r input'
      | [] => synth (CField ph (Some idx)) :: fill_fields r []
      end
  end.

Definition resolve_as_snippet (node : cssprop) (value : str) : res cssprop :=
  let* segs := split_fields value O [] in
  let input := match pvalue node with v :: _ => v | [] => [] end in
  Ok (mkProp None [fill_fields segs input] (pimportant node) (psnippet node)).

(* ---- resolve_as_property(node, snippet, config) *)
Definition resolve_as_property (cfg : sconfig) (node : cssprop) (abbr : str)
           (key prop : str) (value : list (list cssvalue)) (kws : kwdict) (deps : list kwdict) : cssprop :=
  let sn := Some (kws, deps) in
  let inline_value := get_unmatched_part abbr key O in
  let with_name v sn_flag := mkProp (Some prop) v (pimportant node) sn_flag in
  let finish (v : list cssvalue) : cssprop :=
    match v with
    | _ :: _ => with_name (resolve_value_keywords cfg sn f_zero v) true
    | [] =>
        match value with
        | default_value :: others =>
            match others with
            | [] => with_name default_value true
            | _ => if existsb has_field default_value then with_name default_value true
                   else with_name (map (wrap_with_field cfg) default_value) true
            end
        | [] => with_name [] true
        end
    end in
  match inline_value with
  | [] => finish (pvalue node)
  | _ =>
      match pvalue node with
      | _ :: _ => with_name (pvalue node) true            (* already have a value: keep it as is *)
      | [] =>
          match resolve_keyword inline_value cfg sn f_zero with
          | None => with_name [] (negb (c_skip_unmatched cfg))
          | Some kw => finish [[kw]]
          end
      end
  end.

(* ---- resolve_gradient(node, config) *)
Definition in_section_scope (cfg : sconfig) : bool :=
  match c_context cfg with Some name => str_eqb name scope_section | None => false end.

Definition resolve_gradient (cfg : sconfig) (node : cssprop) : option cssprop :=
  if in_section_scope cfg then None else         (* repaired: section scope permits raw snippets only *)
  let gradient_fn :=
    match pvalue node with
    | [[VFunc name args]] => if str_eqb name gradient_name then Some args else None
    | _ => None
    end in
  let name_is_lg := match pname node with Some n => str_eqb n gradient_name | None => false end in
  match gradient_fn, name_is_lg with
  | None, false => None
  | _, _ =>
      let gradient_value :=
        match gradient_fn with
        | Some args => args
        | None => [[synth (CField [] (Some 0))]]
        end in
      let name := if is_value_scope cfg then pname node         (* repaired: was `if not config.context` *)
                  else Some (lit "background-image") in
      Some (mkProp name [[VFunc (lit "linear-gradient") gradient_value]] (pimportant node) true)
  end.

(* ---- resolve_numeric_value(node, config) *)
Definition resolve_numeric_token (cfg : sconfig) (name : option str) (t : cval) : cval :=
  match t with
  | VTok (CNumber value raw u) st en =>
      match u with
      | _ :: _ => VTok (CNumber value raw (match assoc_str u (c_aliases cfg) with Some a => a | None => u end)) st en
      | [] =>
          let unitless := match name with Some n => mem_str n (c_unitless cfg) | None => false end in
          if negb (dec_is_zero value) && negb unitless
          then VTok (CNumber value raw (if str_contains_char c_dot raw then c_float_unit cfg else c_int_unit cfg)) st en
          else t
      end
  | _ => t
  end.
Definition resolve_numeric_value (cfg : sconfig) (node : cssprop) : cssprop :=
  mkProp (pname node) (map (map (resolve_numeric_token cfg (pname node))) (pvalue node))
         (pimportant node) (psnippet node).

(* ---- resolve_node(node, snippets, config) *)
Definition resolve_node (cfg : sconfig) (snippets : list snippet) (node : cssprop) : res cssprop :=
  let* resolved :=
    match resolve_gradient cfg node with
    | Some n => Ok n
    | None =>
        let score := c_min_score cfg in
        if is_value_scope cfg then
          let prop_name := match c_context cfg with Some n => n | None => [] end in
          let snippet := find (fun s => match s with
                                        | SnProp _ p _ _ _ => str_eqb p prop_name
                                        | SnRaw _ _ => false
                                        end) snippets in
          let sn := match snippet with Some (SnProp _ _ _ kws deps) => Some (kws, deps) | _ => None end in
          Ok (mkProp (pname node) (resolve_value_keywords cfg sn score (pvalue node)) (pimportant node)
                     (match snippet with Some _ => true | None => false end))
        else
          match pname node with
          | Some name =>
              match find_best_match sn_key name snippets score true with
              | Some (SnProp key prop value kws deps) =>
                  Ok (resolve_as_property cfg node name key prop value kws deps)
              | Some (SnRaw key value) =>
                  resolve_as_snippet (mkProp (pname node) (pvalue node) (pimportant node) true) value
              | None => Ok (mkProp (pname node) (pvalue node) (pimportant node) false)
              end
          | None => Ok node
          end
    end in
  match pname resolved, c_context cfg with
  | None, None => Ok resolved
  | _, _ => Ok (resolve_numeric_value cfg resolved)
  end.

(* stylesheet.parse(abbr, config) for a string abbreviation, given the converted snippets *)
Definition parse_with (cfg : sconfig) (snippets : list snippet) (abbr : str) : res (list cssprop) :=
  let* nodes := css_parse (is_value_scope cfg) abbr in
  map_res (resolve_node cfg (get_snippets_for_scope snippets cfg)) nodes.
