(* Model of emmet/config.py: merged_data, Config.__init__, Config.get.
   Definitions only.

   Domain (stated, not totalised): configs are dicts with str keys whose
   'variables' / 'snippets' / 'options' entries, when present, are dicts with str
   keys; 'type' and 'syntax', when present, are str.  On that domain no statement
   of merged_data / Config.__init__ can raise (`.get` with a default, `key in d`
   guarding `d[key]`, `update` of a dict), so the functions are total without an
   error result.  Ill-typed configs (a section that is None, an unhashable type
   name ...) are outside the property and outside the model.

   Values are an arbitrary type V: the model never looks inside a value.  Dicts
   are insertion-ordered association lists (lib/ConfigLib.v), so the model also
   fixes the iteration order of the result, exactly as CPython does.

   The ORDER of the update statements and the place each layer is fetched from
   are not written here: they come from gen/GenLayerOrder.v, which is regenerated
   from the AST of merged_data on every run. *)
From Emmet Require Import lib.Base lib.ConfigLib gen.GenLayerOrder.

Section Model.
  Context {V : Type}.

  (* one layer config: section name -> dict, e.g. {'options': {...}, 'snippets': {...}}
     (only the dict-valued entries are represented) *)
  Definition layer_cfg := dict (dict V).
  (* SYNTAX_CONFIG / global_config: type-or-syntax name -> layer config *)
  Definition cfg_table := dict layer_cfg.

  Record env : Type := {
    e_default : layer_cfg;         (* DEFAULT_CONFIG *)
    e_syntax_config : cfg_table;   (* SYNTAX_CONFIG  *)
    e_global : cfg_table;          (* global_config  *)
    e_user : layer_cfg             (* user_config    *)
  }.

  (* T.get(name, empty) *)
  Definition table_get (t : cfg_table) (name : str) : layer_cfg :=
    match dget name t with Some c => c | None => [] end.

  Definition sel_name (s : selector) (syntax_type syntax : str) : str :=
    match s with ByType => syntax_type | BySyntax => syntax end.

  (* the layer config a source denotes inside merged_data(syntax_type, syntax, ...) *)
  Definition source_cfg (e : env) (syntax_type syntax : str) (s : source) : layer_cfg :=
    match s with
    | SrcDefault => e_default e
    | SrcSyntaxConfig sl => table_get (e_syntax_config e) (sel_name sl syntax_type syntax)
    | SrcGlobal sl => table_get (e_global e) (sel_name sl syntax_type syntax)
    | SrcUser => e_user e
    end.

  (* `X.get(key, empty)`  and  `if key in X: ... X[key]`  : the section or nothing *)
  Definition section_of (c : layer_cfg) (key : str) : dict V :=
    match dget key c with Some d => d | None => [] end.

  (* result = {}; then one result.update(...) per statement, in source order *)
  Definition merged_over (stmts : list (source * guard)) (e : env)
             (syntax_type syntax key : str) : dict V :=
    fold_left (fun result st => dupdate result (section_of (source_cfg e syntax_type syntax (fst st)) key))
              stmts [].

  Definition merged_data (e : env) (syntax_type syntax key : str) : dict V :=
    merged_over layer_stmts e syntax_type syntax key.

  (* ---------------------------------------------------------------- Config *)
  Record builtin : Type := {
    b_default : layer_cfg;                   (* DEFAULT_CONFIG   *)
    b_syntax_config : cfg_table;             (* SYNTAX_CONFIG    *)
    b_default_syntaxes : list (str * str)    (* DEFAULT_SYNTAXES *)
  }.

  Record user_config : Type := {
    u_type : option str;       (* user_config.get('type')   *)
    u_syntax : option str;     (* user_config.get('syntax') *)
    u_cfg : layer_cfg;         (* its dict-valued sections  *)
    u_other : dict V           (* every other top-level entry (context, cache, text, ...) *)
  }.

  Record config : Type := {
    cf_type : str;
    cf_syntax : str;
    cf_sections : list (str * dict V);   (* slots assigned from merged_data, in assignment order *)
    cf_user : user_config
  }.

  Definition config_env (b : builtin) (u : user_config) (g : cfg_table) : env :=
    {| e_default := b_default b; e_syntax_config := b_syntax_config b; e_global := g; e_user := u_cfg u |}.

  (* Config.__init__(user_config, global_config) *)
  Definition config_init (b : builtin) (u : user_config) (g : cfg_table) : config :=
    let syntax_type := match u_type u with Some t => t | None => init_default_type end in
    let syntax := match u_syntax u with
                  | Some s => s
                  | None => match assoc_str syntax_type (b_default_syntaxes b) with
                            | Some s => s
                            | None => init_fallback_syntax
                            end
                  end in
    let e := config_env b u g in
    {| cf_type := syntax_type;
       cf_syntax := syntax;
       cf_sections := map (fun sec => (sec, merged_data e syntax_type syntax sec)) init_sections;
       cf_user := u |}.

  (* config.<section>; None = the slot was never assigned (AttributeError) *)
  Definition config_section (c : config) (sec : str) : option (dict V) := assoc_str sec (cf_sections c).
End Model.

Arguments layer_cfg V : clear implicits.
Arguments cfg_table V : clear implicits.
Arguments env V : clear implicits.
Arguments builtin V : clear implicits.
Arguments user_config V : clear implicits.
Arguments config V : clear implicits.
