(* expand() for markup: emmet/__init__.py expand_markup = stringify(parse(abbr, config), config). *)
From Emmet Require Import lib.Base model.MarkupTokenizer model.MarkupParser model.MarkupConvert
     model.MarkupResolve model.OutStream model.FormatHtml model.FormatIndent.

Record xconfig := mkX { xc_m : mconfig; xc_o : oconfig }.

Definition expand_markup (x : xconfig) (abbr : str) : res fstate :=
  let* tree := markup_parse (xc_m x) abbr in
  Ok (stringify_markup (mc_syntax (xc_m x)) (xc_o x) tree).

Definition expand_markup_str (x : xconfig) (abbr : str) : res str :=
  let* st := expand_markup x abbr in Ok (os_value (fs_out st)).
