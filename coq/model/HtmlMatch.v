(* Model of emmet/html_matcher/__init__.py: match, balanced_outward,
   balanced_inward as folds over the scanner events (the callbacks), with the
   early stop of `return False`.  Object pools (alloc_tag, release_tag, the
   InwardTag pool) are Python-only and modelled as plain values.
   Definitions only. *)
From Emmet Require Import lib.Base gen.GenHtml model.HtmlScan.
Local Open Scope Z_scope.

(* Tag(name, start, end) on the stack of match / balanced_outward *)
Record tag := mkTag { t_name : str; t_start : N; t_end : N }.

(* BalancedTag / MatchedTag without attributes *)
Record balanced := mkBal { b_name : str; b_open : N * N; b_close : option (N * N) }.
Record matched := mkMatched { m_name : str; m_attrs : list attr; m_open : N * N; m_close : option (N * N) }.

(* is_self_close(name, options) *)
Definition is_self_close (o : opts) (name : str) : bool := negb (o_xml o) && mem_str name (o_empty o).

(* start < pos < end *)
Definition strictly_in (a : N) (pos : Z) (b : N) : bool := (Z.of_N a <? pos) && (pos <? Z.of_N b).
(* start <= pos <= end *)
Definition weakly_in (a : N) (pos : Z) (b : N) : bool := (Z.of_N a <=? pos) && (pos <=? Z.of_N b).

(* ------------------------------------------------------------------ match *)
(* [None] = scan ran to its end without `return False` *)
Fixpoint match_go (o : opts) (pos : Z) (stack : list tag) (evs : list event) : option balanced :=
  match evs with
  | [] => None
  | e :: rest =>
      let ty := match ev_type e with
                | EOpen => if is_self_close o (ev_name e) then ESelfClose else EOpen
                | t => t
                end in
      match ty with
      | EOpen => match_go o pos (mkTag (ev_name e) (ev_start e) (ev_end e) :: stack) rest
      | ESelfClose =>
          if strictly_in (ev_start e) pos (ev_end e)
          then Some (mkBal (ev_name e) (ev_start e, ev_end e) None)
          else match_go o pos stack rest
      | EClose =>
          match stack with
          | t :: stack' =>
              if str_eqb (t_name t) (ev_name e) then
                if strictly_in (t_start t) pos (ev_end e)
                then Some (mkBal (ev_name e) (t_start t, t_end t) (Some (ev_start e, ev_end e)))
                else match_go o pos stack' rest
              else match_go o pos stack rest
          | [] => match_go o pos stack rest
          end
      end
  end.

(* ------------------------------------------------------------------ balanced_outward *)
Fixpoint outward_go (o : opts) (pos : Z) (stack : list tag) (evs : list event) : list balanced :=
  match evs with
  | [] => []
  | e :: rest =>
      match ev_type e with
      | EClose =>
          match stack with
          | t :: stack' =>
              if str_eqb (t_name t) (ev_name e) then
                (if strictly_in (t_start t) pos (ev_end e)
                 then [mkBal (ev_name e) (t_start t, t_end t) (Some (ev_start e, ev_end e))]
                 else []) ++ outward_go o pos stack' rest
              else outward_go o pos stack rest
          | [] => outward_go o pos stack rest
          end
      | ty =>
          if (match ty with ESelfClose => true | _ => false end) || is_self_close o (ev_name e) then
            (if strictly_in (ev_start e) pos (ev_end e)
             then [mkBal (ev_name e) (ev_start e, ev_end e) None]
             else []) ++ outward_go o pos stack rest
          else outward_go o pos (mkTag (ev_name e) (ev_start e) (ev_end e) :: stack) rest
      end
  end.

(* ------------------------------------------------------------------ balanced_inward *)
(* InwardTag(name, ranges, first_child): ranges = [open start, open end] and,
   once closed, [close start, close end] *)
Inductive itag := ITag (name : str) (ostart oend : N) (close : option (N * N)) (child : option itag).
Definition it_name (t : itag) := let 'ITag n _ _ _ _ := t in n.
Definition it_child (t : itag) := let 'ITag _ _ _ _ c := t in c.
Definition it_ostart (t : itag) := let 'ITag _ a _ _ _ := t in a.
Definition it_oend (t : itag) := let 'ITag _ _ b _ _ := t in b.
Definition it_close (t : itag) := let 'ITag _ _ _ c _ := t in c.
Definition set_child (t : itag) (c : itag) : itag := let 'ITag n a b cl _ := t in ITag n a b cl (Some c).
Definition set_close (t : itag) (cl : N * N) : itag := let 'ITag n a b _ c := t in ITag n a b (Some cl) c.

(* the `while tag.first_child` loop: the entry of [t] followed by the entries of
   its chain of first children *)
Fixpoint chain_of (t : itag) : list balanced :=
  match t with
  | ITag n a b cl ch =>
      mkBal n (a, b) cl :: match ch with Some c => chain_of c | None => [] end
  end.
Definition child_chain (t : itag) : list balanced :=
  match it_child t with Some c => chain_of c | None => [] end.

(* `parent = stack and stack[-1]; if parent and not parent.first_child: parent.first_child = t` *)
Definition attach_first_child (stack : list itag) (t : itag) : list itag :=
  match stack with
  | p :: rest => match it_child p with
                 | None => set_child p t :: rest
                 | Some _ => stack
                 end
  | [] => []
  end.

(* [None] = scan ran to its end without `return False` (result stays []) *)
Fixpoint inward_go (o : opts) (pos : Z) (stack : list itag) (evs : list event) : option (list balanced) :=
  match evs with
  | [] => None
  | e :: rest =>
      match ev_type e with
      | EClose =>
          match stack with
          | [] => inward_go o pos stack rest
          | t :: stack' =>
              if str_eqb (it_name t) (ev_name e) then
                if weakly_in (it_ostart t) pos (ev_end e) then
                  Some (mkBal (ev_name e) (it_ostart t, it_oend t) (Some (ev_start e, ev_end e))
                        :: child_chain t)
                else
                  inward_go o pos (attach_first_child stack' (set_close t (ev_start e, ev_end e))) rest
              else inward_go o pos stack rest
          end
      | ty =>
          if (match ty with ESelfClose => true | _ => false end) || is_self_close o (ev_name e) then
            if strictly_in (ev_start e) pos (ev_end e)
            then Some [mkBal (ev_name e) (ev_start e, ev_end e) None]
            else inward_go o pos
                   (attach_first_child stack (ITag (ev_name e) (ev_start e) (ev_end e) None None)) rest
          else inward_go o pos (ITag (ev_name e) (ev_start e) (ev_end e) None None :: stack) rest
      end
  end.

(* ------------------------------------------------------------------ public functions *)
Definition sliceN (s : str) (a b : N) : str := firstn (N.to_nat (b - a)) (skipn (N.to_nat a) s).

Definition shift_attr (d : N) (a : attr) : attr :=
  mkAttr (a_name a) (a_ns a + d) (a_ne a + d)
         (match a_value a with
          | Some (v, vs, ve) => Some (v, (vs + d)%N, (ve + d)%N)
          | None => None
          end).

(* get_attributes(source, start, end, name) *)
Definition get_attributes (src : str) (start stop : N) (name : str) : list attr :=
  map (shift_attr start) (attributes (sliceN src start stop) (Some name)).

(* a fold result, or the internal error raised when the scan reached the point
   where Python raises before any callback returned False *)
Definition after_scan {A B} (sc : list event * option N) (stopped : option A) (k : option A -> B) : res B :=
  match stopped with
  | Some _ => Ok (k stopped)
  | None => match snd sc with
            | Some err => Internal err
            | None => Ok (k None)
            end
  end.

(* the public functions, given the result [sc] of the scan *)
Definition html_match_of (src : str) (sc : list event * option N) (o : opts) (pos : Z) : res (option matched) :=
  after_scan sc (match_go o pos [] (fst sc))
    (fun r => match r with
              | Some b => Some (mkMatched (b_name b)
                                  (get_attributes src (fst (b_open b)) (snd (b_open b)) (b_name b))
                                  (b_open b) (b_close b))
              | None => None
              end).

Definition balanced_outward_of (sc : list event * option N) (o : opts) (pos : Z) : res (list balanced) :=
  match snd sc with
  | Some err => Internal err
  | None => Ok (outward_go o pos [] (fst sc))
  end.

Definition balanced_inward_of (sc : list event * option N) (o : opts) (pos : Z) : res (list balanced) :=
  after_scan sc (inward_go o pos [] (fst sc)) (fun r => opt_default [] r).

Definition html_match (o : opts) (src : str) (pos : Z) : res (option matched) :=
  html_match_of src (scan (o_special o) src) o pos.
Definition balanced_outward (o : opts) (src : str) (pos : Z) : res (list balanced) :=
  balanced_outward_of (scan (o_special o) src) o pos.
Definition balanced_inward (o : opts) (src : str) (pos : Z) : res (list balanced) :=
  balanced_inward_of (scan (o_special o) src) o pos.
