(* SPEC side of C10, Level B: a grammar of stylesheet TEXTS.

   A sheet is a list of items followed by a gap; an item is a declaration or a rule:

     declaration   gap name gap `:` gap value gap `;`
     rule          gap selector gap `{` item* gap `}`
     selector      [`:` gap] run (gap `:` gap run)*          (`a:hover`, `:root`, `a:b:c`)
     name, value   run
     run           token (token | gap)* token   |   token   (first and last lexeme are tokens)
     gap           (white-space character | comment)*
     comment       `/*` body `*/`              body free of `*/`, anything else allowed
     token         plain character             anything but white space, quotes and  { } ; : ( ) /
                 | string  q bits q            q a quote; a bit is a character other than q, LF, CR,
                                               backslash, or a backslash followed by ANY character
                                               (so the content may hold { } : ; and escaped quotes)
                 | `(`  |  `)`                 parentheses; every run is balanced as a whole
                 | `:`                         only where the parenthesis depth is not 0
                 | `::`..  then a plain char   two or more colons, only at depth 0 (`a::before`)
                 | `/`                         followed in its run by a lexeme not starting with `*`
   A delimiting `:` (the one of a declaration, those of a selector) stands at depth 0 and the run
   after it does not begin with `::` unless a gap separates them (`a:::b` is read differently).

   `render` writes the text, `tree` lays the sheet out as the offset tree of CssTree.v (the
   ranges a reader of the statement expects: a declaration's name and value are its runs,
   a rule's selector spans from its first character to the end of its last token), `events`
   are the callbacks that tree denotes.  [wf_sheet] collects the side conditions written next
   to the grammar above.

   What the grammar deliberately leaves out (the scanner treats it differently, see the listed
   finding for C10): `;`, `{`, `}` inside parentheses outside strings and comments -- these
   characters are no lexeme of a run, so a parenthesised expression of this grammar is free of
   them; a `/` at the end of a run or in front of `*`; a single `:` at depth 0 inside a name or
   value; a declaration whose `;` is missing; an empty name, value or selector; strings and
   comments that are not closed.

   Definitions only. *)
From Emmet Require Import lib.Base model.CssScan model.CssMatch model.CssTree.
Local Open Scope Z_scope.

Definition zlen {A} (l : list A) : Z := Z.of_nat (length l).

(* ------------------------------------------------------------------ characters *)
Definition plain (c : char) : bool :=
  negb (is_space c || is_quote c || (c =? c_lbrace)%N || (c =? c_rbrace)%N || (c =? c_semi)%N
        || (c =? c_colon)%N || (c =? c_lparen)%N || (c =? c_rparen)%N || (c =? c_slash)%N).

(* ------------------------------------------------------------------ gaps *)
Inductive glex :=
| GWs (c : char)          (* one white-space character *)
| GCom (body : str).      (* a comment *)
Definition gap := list glex.

(* no `*/` inside a comment body *)
Fixpoint com_ok (b : str) : bool :=
  match b with
  | [] => true
  | c :: r =>
      match r with
      | c2 :: _ => negb ((c =? c_star) && (c2 =? c_slash))%N
      | [] => true
      end && com_ok r
  end.
Definition glex_ok (g : glex) : bool :=
  match g with GWs c => is_space c | GCom b => com_ok b end.
Definition render_glex (g : glex) : str :=
  match g with GWs c => [c] | GCom b => c_slash :: c_star :: b ++ [c_star; c_slash] end.
Definition render_gap (g : gap) : str := flat_map render_glex g.
Definition gap_ok (g : gap) : bool := forallb glex_ok g.

(* ------------------------------------------------------------------ tokens *)
Inductive sbit :=
| SC (c : char)           (* an ordinary character of a string *)
| SE (c : char).          (* backslash followed by c *)
Definition sbit_ok (q : char) (b : sbit) : bool :=
  match b with
  | SC c => negb ((c =? q) || (c =? c_nl) || (c =? c_cr) || (c =? c_bslash))%N
  | SE _ => true
  end.
Definition render_sbit (b : sbit) : str := match b with SC c => [c] | SE c => [c_bslash; c] end.
Definition render_sbits (l : list sbit) : str := flat_map render_sbit l.

Inductive lex :=
| LCh (c : char)
| LStr (q : char) (body : list sbit)
| LOpen
| LClose
| LColon
| LPseudo (k : nat) (c : char)      (* k+2 colons, then the plain character c *)
| LSlash                            (* a `/` that does not open a comment *)
| LGap (g : glex).

Definition is_tok (l : lex) : bool := match l with LGap _ => false | _ => true end.

Definition render_lex (l : lex) : str :=
  match l with
  | LCh c => [c]
  | LStr q body => q :: render_sbits body ++ [q]
  | LOpen => [c_lparen]
  | LClose => [c_rparen]
  | LColon => [c_colon]
  | LPseudo k c => c_colon :: repeat c_colon (S k) ++ [c]
  | LSlash => [c_slash]
  | LGap g => render_glex g
  end.
Definition render_lexs (l : list lex) : str := flat_map render_lex l.

(* [d] = parenthesis depth in front of the lexeme *)
Definition lex_ok (d : Z) (l : lex) : bool :=
  match l with
  | LCh c => plain c
  | LStr q body => is_quote q && forallb (sbit_ok q) body
  | LOpen | LClose | LSlash => true
  | LColon => negb (d =? 0)
  | LPseudo _ c => (d =? 0) && plain c
  | LGap g => glex_ok g
  end.
Definition lex_d (d : Z) (l : lex) : Z :=
  match l with LOpen => d + 1 | LClose => d - 1 | _ => d end.

(* a `/` token is followed, inside its run, by a lexeme that does not begin with `*` *)
Definition next_ok (x : lex) (r : list lex) : bool :=
  match x with
  | LSlash => match r with
              | [] => false
              | LCh c :: _ => negb (c =? c_star)%N
              | _ :: _ => true
              end
  | _ => true
  end.
Fixpoint lexs_ok (d : Z) (l : list lex) : bool :=
  match l with
  | [] => true
  | x :: r => lex_ok d x && next_ok x r && lexs_ok (lex_d d x) r
  end.
Fixpoint lexs_d (d : Z) (l : list lex) : Z :=
  match l with
  | [] => d
  | x :: r => lexs_d (lex_d d x) r
  end.

Definition starts_tok (l : list lex) : bool := match l with x :: _ => is_tok x | [] => false end.
Fixpoint ends_tok (l : list lex) : bool :=
  match l with
  | [] => false
  | x :: r => match r with [] => is_tok x | _ => ends_tok r end
  end.

(* a run: well-formed lexemes, balanced parentheses, a token at both ends *)
Definition trun := list lex.   (* a token run *)
Definition run_ok (r : trun) : bool :=
  lexs_ok 0 r && (lexs_d 0 r =? 0) && starts_tok r && ends_tok r.

(* what follows a delimiting `:` must not begin with a colon *)
Definition colon_sep (g : gap) (r : trun) : bool :=
  match g with
  | _ :: _ => true
  | [] => match r with LPseudo _ _ :: _ => false | _ => true end
  end.

(* ------------------------------------------------------------------ selectors *)
Record selector := mkSel {
  sl_lead : option gap;                    (* Some g: a leading `:` followed by the gap g *)
  sl_first : trun;
  sl_more : list (gap * gap * trun)         (* gap `:` gap trun *)
}.
Definition render_more (m : gap * gap * trun) : str :=
  let '(g1, g2, r) := m in render_gap g1 ++ c_colon :: render_gap g2 ++ render_lexs r.
Definition render_sel (s : selector) : str :=
  match sl_lead s with Some g => c_colon :: render_gap g | None => [] end
  ++ render_lexs (sl_first s) ++ flat_map render_more (sl_more s).
Definition more_ok (m : gap * gap * trun) : bool :=
  let '(g1, g2, r) := m in gap_ok g1 && gap_ok g2 && run_ok r && colon_sep g2 r.
Definition sel_ok (s : selector) : bool :=
  match sl_lead s with Some g => gap_ok g && colon_sep g (sl_first s) | None => true end
  && run_ok (sl_first s) && forallb more_ok (sl_more s).

(* ------------------------------------------------------------------ items and sheets *)
Inductive item :=
| SDecl (g1 : gap) (name : trun) (g2 g3 : gap) (value : trun) (g4 : gap)
| SRule (g1 : gap) (sel : selector) (g2 : gap) (body : list item) (g3 : gap).

Fixpoint render_item (it : item) : str :=
  match it with
  | SDecl g1 name g2 g3 value g4 =>
      render_gap g1 ++ render_lexs name ++ render_gap g2 ++ c_colon ::
      render_gap g3 ++ render_lexs value ++ render_gap g4 ++ [c_semi]
  | SRule g1 sel g2 body g3 =>
      render_gap g1 ++ render_sel sel ++ render_gap g2 ++ c_lbrace ::
      flat_map render_item body ++ render_gap g3 ++ [c_rbrace]
  end.
Definition render_items (l : list item) : str := flat_map render_item l.

Fixpoint wf_item (it : item) : bool :=
  match it with
  | SDecl g1 name g2 g3 value g4 =>
      gap_ok g1 && run_ok name && gap_ok g2 && gap_ok g3 && run_ok value && gap_ok g4
      && colon_sep g3 value
  | SRule g1 sel g2 body g3 =>
      gap_ok g1 && sel_ok sel && gap_ok g2 && forallb wf_item body && gap_ok g3
  end.

Record sheet := mkSheet { sh_items : list item; sh_tail : gap }.
Definition render (sh : sheet) : str := render_items (sh_items sh) ++ render_gap (sh_tail sh).
Definition wf_sheet (sh : sheet) : bool := forallb wf_item (sh_items sh) && gap_ok (sh_tail sh).

(* ------------------------------------------------------------------ layout: the offset tree *)
Definition ilen (it : item) : Z := zlen (render_item it).

Fixpoint lay_item (pos : Z) (it : item) {struct it} : node :=
  match it with
  | SDecl g1 name g2 g3 value g4 =>
      let ns := pos + zlen (render_gap g1) in
      let ne := ns + zlen (render_lexs name) in
      let colon := ne + zlen (render_gap g2) in
      let vs := colon + 1 + zlen (render_gap g3) in
      let ve := vs + zlen (render_lexs value) in
      let semi := ve + zlen (render_gap g4) in
      Decl ns ne colon vs ve semi
  | SRule g1 sel g2 body g3 =>
      let ss := pos + zlen (render_gap g1) in
      let se := ss + zlen (render_sel sel) in
      let brace := se + zlen (render_gap g2) in
      let kids :=
        (fix go (p : Z) (l : list item) {struct l} : list node :=
           match l with
           | [] => []
           | x :: r => lay_item p x :: go (p + ilen x) r
           end) (brace + 1) body in
      let close := brace + 1 + zlen (render_items body) + zlen (render_gap g3) in
      Rule ss se brace kids close
  end.
Fixpoint lay_items (pos : Z) (l : list item) : list node :=
  match l with
  | [] => []
  | x :: r => lay_item pos x :: lay_items (pos + ilen x) r
  end.

Definition tree (sh : sheet) : list node := lay_items 0 (sh_items sh).
(* the callbacks of the sheet: selector / propertyName / propertyValue / blockEnd with start,
   end and delimiter offsets *)
Definition events (sh : sheet) : list event := events_forest (tree sh).
