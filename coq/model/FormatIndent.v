(* Model of emmet/markup/format/indent_format.py and the haml/pug/slim profiles of
   emmet/markup/format/__init__.py.  Definitions only. *)
From Emmet Require Import lib.Base model.MarkupTokenizer model.MarkupParser model.MarkupConvert
     model.OutStream model.FormatHtml.

Record iopts := mkIopts {
  io_before_name : str; io_after_name : str;
  io_before_attr : str; io_after_attr : str; io_glue_attr : str;
  io_before_text : str; io_after_text : str;
  io_boolean_value : str; io_self_close : str }.

Definition s_haml : str := [104;97;109;108]%N.
Definition s_pug : str := [112;117;103]%N.
Definition s_slim : str := [115;108;105;109]%N.
Definition s_true : str := [116;114;117;101]%N.
Definition s_div : str := [100;105;118]%N.

Definition haml_opts : iopts :=
  mkIopts [c_percent] [] [c_lparen] [c_rparen] [c_space] [] [c_space; c_pipe] s_true [c_slash].
Definition pug_opts (c : oconfig) : iopts :=
  mkIopts [] [] [c_lparen] [c_rparen] [c_comma; c_space] [c_pipe; c_space] [] []
          (if str_eqb (oc_self_closing_style c) s_xml then [c_slash] else []).
Definition slim_opts : iopts :=
  mkIopts [] [] [c_space] [] [c_space] [c_pipe; c_space] [] [] [c_slash].

Definition name_is (a : aattr) (n : str) : bool :=
  match aa_name a with Some x => str_eqb x n | None => false end.
Definition is_primary (a : aattr) : bool := name_is a s_class || name_is a s_id.

(* re.sub(r'\s+', '.', t): every run of whitespace becomes one dot *)
Fixpoint ws_to_dot (in_ws : bool) (s : str) : str :=
  match s with
  | [] => []
  | ch :: r => if is_py_space ch
               then (if in_ws then ws_to_dot true r else c_dot :: ws_to_dot true r)
               else ch :: ws_to_dot false r
  end.

Definition push_primary_attributes (c : oconfig) (attrs : list aattr) (st : fstate) : fstate :=
  fold_left (fun st a =>
               match aa_value a with
               | None => st
               | Some v =>
                   if name_is a s_class then
                     push_tokens c (map (fun t => match t with VStr s => VStr (ws_to_dot false s) | _ => t end) v)
                                 (push_str c [c_dot] st)
                   else push_tokens c v (push_str c [c_hash] st)
               end) attrs st.

Definition push_secondary_attributes (c : oconfig) (o : iopts) (attrs : list aattr) (st : fstate) : fstate :=
  match attrs with
  | [] => st
  | _ =>
      let st := push_str c (io_before_attr o) st in
      let n := length attrs in
      let st :=
        (fix go (i : nat) (l : list aattr) (st : fstate) : fstate :=
           match l with
           | [] => st
           | a :: r =>
               let st := push_str c (attr_name c (match aa_name a with Some x => x | None => [] end)) st in
               let st :=
                 if is_boolean_attribute c a && negb (truthy_l (aa_value a)) then
                   if negb (oc_compact_boolean c) && negb (match io_boolean_value o with [] => true | _ => false end)
                   then push_str c (c_eq :: io_boolean_value o) st
                   else st
                 else
                   let st := push_str c (c_eq :: attr_quote c a true) st in
                   let st := push_tokens c (match aa_value a with Some ((_ :: _) as v) => v | _ => caret end) st in
                   push_str c (attr_quote c a false) st in
               let st := if negb (Nat.eqb i (n - 1)) then push_str c (io_glue_attr o) st else st in
               go (S i) r st
           end) O attrs st in
      push_str c (io_after_attr o) st
  end.

(* split_by_lines(tokens) *)
Definition split_by_lines (tokens : list vtok) : list (list vtok) :=
  let '(result, line) :=
    fold_left (fun '(result, line) t =>
                 match t with
                 | VStr s =>
                     match split_crlf s with   (* repaired: was str.splitlines() *)
                     | [] => (result, line ++ [VStr []])
                     | l0 :: ls =>
                         fold_left (fun '(res, ln) l => (res ++ [ln], [VStr l])) ls (result, line ++ [VStr l0])
                     end
                 | VField _ _ => (result, line ++ [t])
                 end) tokens ([], []) in
  match line with [] => result | _ => result ++ [line] end.

Definition value_length (tokens : list vtok) : nat :=
  fold_left (fun acc t => acc + match t with VStr s => length s | VField _ nm => length nm end) tokens O.

Definition push_raw (s : str) (st : fstate) : fstate := mkFs (os_push (fs_out st) s) (fs_field st).

(* one line of a multi-line value: line break, the syntax's text marks, the tokens numbered from [field] *)
Definition pv_line (c : oconfig) (o : iopts) (maxl : nat) (field : N) (acc : fstate * N) (line : list vtok) : fstate * N :=
  let '(st, nf) := acc in
  let st := map_out (fun os => os_push_newline (oc_fmt c) os (Some None)) st in
  let st := match io_before_text o with [] => st | b => push_raw b st end in
  let st := push_tokens c line (mkFs (fs_out st) field) in
  let nf := N.max nf (fs_field st) in
  (match io_after_text o with
   | [] => st
   | a => push_raw a (push_raw (repeat_str [c_space] (maxl - value_length line)) st)
   end, nf).

Definition push_value (c : oconfig) (o : iopts) (node : anode) (st : fstate) : fstate :=
  if negb (truthy_l (an_value node)) && match an_children node with [] => false | _ => true end then st
  else
    let value := match an_value node with Some ((_ :: _) as v) => v | _ => caret end in
    let lines := split_by_lines value in
    match lines with
    | [_] =>
        let st := if truthy_s (an_name node) || truthy_l (an_attrs node) then push_raw [c_space] st else st in
        push_tokens c value st
    | _ =>
        let lens := map value_length lines in
        let maxl := fold_left Nat.max lens O in
        let st := map_out (fun os => os_add_level os 1) st in
        (* all lines of one value are numbered from the same base [field]; the counter advances once, past
           the largest index (repaired: every line used to advance it) *)
        let field := fs_field st in
        let '(st, next_field) := fold_left (pv_line c o maxl field) lines (st, field) in
        map_out (fun os => os_add_level os (-1)) (mkFs (fs_out st) next_field)
    end.

Fixpoint indent_element (c : oconfig) (o : iopts) (parent : option anode) (node : anode) (index : nat)
         (st : fstate) {struct node} : fstate :=
  let attrs := match an_attrs node with Some l => l | None => [] end in
  let primary := filter is_primary attrs in
  let secondary := filter (fun a => negb (is_primary a)) attrs in
  let level := match parent with Some _ => 1 | None => 0 end%Z in
  let st := map_out (fun os => os_add_level os level) st in
  let fmt := negb (match parent with None => Nat.eqb index 0 | Some _ => false end) && negb (is_snippet node) in
  let st := if fmt then map_out (fun os => os_push_newline (oc_fmt c) os (Some None)) st else st in
  let st :=
    match an_name node with
    | Some ((_ :: _) as nm) =>
        (* has_primary = any(attr.value is not None for attr in primary)   (repaired: fix fb9d494) *)
        if negb (str_eqb nm s_div)
           || negb (existsb (fun a => match aa_value a with Some _ => true | None => false end) primary)
        then push_str c (io_before_name o ++ nm ++ io_after_name o) st
        else st
    | _ => st
    end in
  let st := push_primary_attributes c primary st in
  let st := push_secondary_attributes c o (filter should_output_attribute secondary) st in
  let st :=
    if an_self node && negb (truthy_l (an_value node)) && match an_children node with [] => true | _ => false end
    then match io_self_close o with [] => st | sc => push_str c sc st end
    else
      let st := push_value c o node st in
      (fix go (i : nat) (l : list anode) (st : fstate) : fstate :=
         match l with
         | [] => st
         | ch :: r => go (S i) r (indent_element c o (Some node) ch i st)
         end) O (an_children node) st in
  map_out (fun os => os_add_level os (- level)%Z) st.

Definition indent_format (c : oconfig) (o : iopts) (children : list anode) : fstate :=
  (fix go (i : nat) (l : list anode) (st : fstate) : fstate :=
     match l with
     | [] => st
     | ch :: r => go (S i) r (indent_element c o None ch i st)
     end) O children (mkFs os_empty 1).

(* markup.stringify(abbr, config): FORMATTERS.get(config.syntax, html) *)
Definition stringify_markup (syntax : str) (c : oconfig) (children : list anode) : fstate :=
  if str_eqb syntax s_haml then indent_format c haml_opts children
  else if str_eqb syntax s_slim then indent_format c slim_opts children
  else if str_eqb syntax s_pug then indent_format c (pug_opts c) children
  else html_format c children.
