(* Model of emmet/abbreviation/tokenizer/__init__.py (tokenize and its consumers).
   Follows the Python function by function.  Definitions only.

   Shape: every consumer looks at the remaining input [s] (what Python sees from
   scanner.pos on), and reports how many characters it consumed.  The main loop
   is structural recursion on the input with a skip counter, so no fuel is needed
   and the tiling invariant (C18) falls out of the recursion scheme. *)
From Emmet Require Import lib.Base.

Inductive bctx := BGroup | BAttr | BExpr.
Inductive optype := OpChild | OpSibling | OpClimb | OpClass | OpId | OpClose | OpEqual | OpUnknown.

Inductive tkind :=
| TLiteral (v : str)
| TWhiteSpace (v : str)
| TQuote (single : bool)
| TBracket (open : bool) (c : bctx)
| TOperator (o : optype)
| TRepeater (count : N) (value : N) (implicit : bool)
| TRepeaterNumber (size : N) (reverse : bool) (base : N) (parent : N)
| TRepeaterPlaceholder
| TField (name : str) (index : option N).

Record token := mkTok { tk : tkind; tstart : nat; tend : nat }.

(* ctx of tokenize(): counters may go negative (unbalanced closers), Python
   truthiness of a counter is "non-zero" *)
Record tctx := mkCtx { cgroup : Z; cattr : Z; cexpr : Z; cquote : option char }.
Definition ctx0 : tctx := mkCtx 0 0 0 None.
Definition truthy (z : Z) : bool := negb (z =? 0)%Z.

Local Open Scope N_scope.

(* -------- character classes of this tokenizer *)
Definition optype_of_name (n : str) : optype :=
  if str_eqb n [99;104;105;108;100] then OpChild            (* child *)
  else if str_eqb n [115;105;98;108;105;110;103] then OpSibling  (* sibling *)
  else if str_eqb n [99;108;105;109;98] then OpClimb        (* climb *)
  else if str_eqb n [99;108;97;115;115] then OpClass        (* class *)
  else if str_eqb n [105;100] then OpId                     (* id *)
  else if str_eqb n [99;108;111;115;101] then OpClose       (* close *)
  else if str_eqb n [101;113;117;97;108] then OpEqual       (* equal *)
  else OpUnknown.

(* OPERATOR_TYPES.get(ch), over the table regenerated from the source *)
Definition operator_type (c : char) : option optype :=
  match assoc_N c markup_operator_types with
  | Some name => Some (optype_of_name name)
  | None => None
  end.

Definition bracket_type (c : char) : option bctx :=
  if (c =? c_lparen) || (c =? c_rparen) then Some BGroup
  else if (c =? c_lbrack) || (c =? c_rbrack) then Some BAttr
  else if (c =? c_lbrace) || (c =? c_rbrace) then Some BExpr
  else None.
Definition is_open_bracket (c : char) : bool :=
  (c =? c_lbrace) || (c =? c_lbrack) || (c =? c_lparen).
Definition is_element_name (c : char) : bool :=
  is_alpha_numeric_word c || (c =? c_dash) || (c =? c_colon) || (c =? c_excl).

Definition is_allowed_operator (c : char) (ctx : tctx) : bool :=
  match operator_type c with
  | None => false
  | Some op =>
      match cquote ctx with
      | Some _ => false
      | None =>
          if truthy (cexpr ctx) then false
          else negb (truthy (cattr ctx)) || match op with OpEqual => true | _ => false end
      end
  end.
Definition is_allowed_space (c : char) (ctx : tctx) : bool := is_space c && negb (truthy (cexpr ctx)).
Definition is_allowed_repeater (c : char) (ctx : tctx) : bool :=
  (c =? c_star) && negb (truthy (cattr ctx)) && negb (truthy (cexpr ctx)).

(* -------- scanning helpers *)
Fixpoint span (p : char -> bool) (s : str) : nat :=
  match s with
  | c :: r => if p c then S (span p r) else O
  | [] => O
  end.
Definition peek (s : str) : option char := match s with c :: _ => Some c | [] => None end.
Definition peek_is (c : char) (s : str) : bool := match s with x :: _ => x =? c | [] => false end.
Definition peek_p (p : char -> bool) (s : str) : bool := match s with x :: _ => p x | [] => false end.

(* consume_placeholder: [off] = characters consumed so far, [stack] = offsets just
   after each unmatched '{'.  Returns (consumed, remaining stack). *)
Fixpoint placeholder (s : str) (stack : list nat) (off : nat) : nat * list nat :=
  match s with
  | [] => (off, stack)
  | c :: r =>
      if c =? c_lbrace then placeholder r (S off :: stack) (S off)
      else if c =? c_rbrace then
        match stack with
        | [] => (off, [])
        | _ :: st => placeholder r st (S off)
        end
      else placeholder r stack (S off)
  end.

(* result of one consumer: None = "no token here" (Python falls through to the
   next alternative); an error carries the offset relative to the token start *)
Inductive cres :=
| CNone
| CTok (k : tkind) (n : nat)          (* token kind and number of characters consumed *)
| CErr (off : nat).                   (* ScannerException at start + off *)

(* field(scanner, ctx) *)
Definition field (ctx : tctx) (s : str) : cres :=
  if truthy (cexpr ctx) || truthy (cattr ctx) then
    match s with
    | c1 :: c2 :: r =>
        if (c1 =? c_dollar) && (c2 =? c_lbrace) then
          let nd := span is_number r in
          (* (index, name, consumed-after-"${") or error offset *)
          let body : option (option N * str * nat) + nat :=
            match nd with
            | S _ =>
                let r1 := skipn nd r in
                if peek_is c_colon r1 then
                  let '(n, st) := placeholder (tl r1) [] O in
                  match st with
                  | [] => inl (Some (int_of_str (firstn nd r), firstn n (tl r1), nd + 1 + n)%nat)
                  | o :: _ => inr (2 + nd + 1 + o)%nat
                  end
                else inl (Some (int_of_str (firstn nd r), [], nd))
            | O =>
                if peek_p is_alpha r then
                  let '(n, st) := placeholder r [] O in
                  match st with
                  | [] => inl (Some (None, firstn n r, n))
                  | o :: _ => inr (2 + o)%nat
                  end
                else inl (Some (None, [], O))
            end in
          match body with
          | inr off => CErr off
          | inl None => CNone
          | inl (Some (idx, name, used)) =>
              if peek_is c_rbrace (skipn used r)
              then CTok (TField name idx) (2 + used + 1)
              else CErr (2 + used)
          end
        else CNone
    | _ => CNone
    end
  else CNone.

(* repeater_placeholder: "$#" *)
Definition repeater_placeholder (s : str) : cres :=
  match s with
  | c1 :: c2 :: _ => if (c1 =? c_dollar) && (c2 =? c_hash) then CTok TRepeaterPlaceholder 2 else CNone
  | _ => CNone
  end.

(* repeater_number: "$"+ ("@" "^"* "-"? digits?)? *)
Definition repeater_number (s : str) : cres :=
  let size := span (N.eqb c_dollar) s in
  match size with
  | O => CNone
  | S _ =>
      let r := skipn size s in
      if peek_is c_at r then
        let r1 := tl r in
        let parent := span (N.eqb c_caret) r1 in
        let r2 := skipn parent r1 in
        let reverse := peek_is c_dash r2 in
        let r3 := if reverse then tl r2 else r2 in
        let nd := span is_number r3 in
        let base := match nd with
                    | O => 1
                    | S _ => opt_default 1 (int_of_str (firstn nd r3))
                    end in
        CTok (TRepeaterNumber (N.of_nat size) reverse base (N.of_nat parent))
             (size + 1 + parent + (if reverse then 1 else 0) + nd)
      else CTok (TRepeaterNumber (N.of_nat size) false 1 0) size
  end.

(* repeater(scanner, ctx): "*" digits?  -- only where '*' is not literal text *)
Definition repeater (ctx : tctx) (s : str) : cres :=
  match s with
  | c :: r =>
      if is_allowed_repeater c ctx && match cquote ctx with None => true | Some _ => false end then
        let nd := span is_number r in
        match nd with
        | O => CTok (TRepeater 1 0 true) 1
        | S _ => CTok (TRepeater (opt_default 1 (int_of_str (firstn nd r))) 0 false) (S nd)
        end
      else CNone
  | [] => CNone
  end.

Definition white_space (s : str) : cres :=
  match span is_space s with
  | O => CNone
  | n => CTok (TWhiteSpace (firstn n s)) n
  end.

(* literal(scanner, ctx).  [esc] = the previous character was an unconsumed
   escape backslash; [prev] = source character before the current one;
   [quote],[attr] are constant during the loop, [expr] is ctx['expression'] which
   the loop mutates, [expr_start] its value on entry.
   Returns (value, consumed, final expr). *)
Fixpoint lit (quote : option char) (attr expr_start : Z) (expr : Z) (prev : option char)
         (esc : bool) (s : str) : str * nat * Z :=
  match s with
  | [] => ([], O, expr)
  | c :: r =>
      let take e := let '(v, n, e') := lit quote attr expr_start e (Some c) false r in (c :: v, S n, e') in
      if esc then take expr
      else if c =? c_bslash then
        let '(v, n, e') := lit quote attr expr_start expr (Some c) true r in (v, S n, e')
      else
        let ctx := mkCtx 0 attr expr quote in
        let slash_special :=
          (c =? c_slash) && match quote with None => true | Some _ => false end
          && negb (truthy expr) && negb (truthy attr)
          && match prev with Some p => is_digit_py p | None => false end
          && peek_p is_digit_py r in
        if slash_special then take expr
        else if match quote with Some q => c =? q | None => false end
                || (c =? c_dollar) || is_allowed_operator c ctx then ([], O, expr)
        else if truthy expr_start then
          if c =? c_lbrace then take (expr + 1)%Z
          else if c =? c_rbrace then
            if (expr_start <? expr)%Z then take (expr - 1)%Z else ([], O, expr)
          else take expr
        else
          match quote with
          | None =>
              if negb (truthy attr) && negb (is_element_name c) then ([], O, expr)
              else if is_allowed_space c ctx || is_allowed_repeater c ctx || is_quote c
                      || match bracket_type c with Some _ => true | None => false end
              then ([], O, expr)
              else take expr
          | Some _ => take expr
          end
  end.

Definition operator (s : str) : cres :=
  match s with
  | c :: _ => match operator_type c with Some op => CTok (TOperator op) 1 | None => CNone end
  | [] => CNone
  end.
Definition quote (s : str) : cres :=
  match s with
  | c :: _ => if is_quote c then CTok (TQuote (c =? c_squote)) 1 else CNone
  | [] => CNone
  end.
Definition bracket (s : str) : cres :=
  match s with
  | c :: _ => match bracket_type c with
              | Some b => CTok (TBracket (is_open_bracket c) b) 1
              | None => CNone
              end
  | [] => CNone
  end.

Definition orelse (a : cres) (b : unit -> cres) : cres :=
  match a with CNone => b tt | _ => a end.

(* one round of the while loop: the token (with consumed length) and the new ctx *)
Definition consume (ctx : tctx) (prev : option char) (s : str) : cres * tctx :=
  let first :=
    orelse (field ctx s) (fun _ =>
    orelse (repeater_placeholder s) (fun _ =>
    orelse (repeater_number s) (fun _ =>
    orelse (repeater ctx s) (fun _ =>
    white_space s)))) in
  match first with
  | CNone =>
      (* expression_start = min(ctx['expression'], 1): text starts at depth 1, so a literal resumed inside nested
         braces (after `$`, a field ...) takes the inner `}` as text (repaired) *)
      let '(v, n, e) := lit (cquote ctx) (cattr ctx) (Z.min (cexpr ctx) 1) (cexpr ctx) prev false s in
      match n with
      | S _ => (CTok (TLiteral v) n, mkCtx (cgroup ctx) (cattr ctx) e (cquote ctx))
      | O =>
          (* e = cexpr ctx here: the loop mutates expression only when it consumes *)
          let t := orelse (operator s) (fun _ => orelse (quote s) (fun _ => bracket s)) in
          let ctx' :=
            match t, s with
            | CTok (TQuote _) _, ch :: _ =>
                mkCtx (cgroup ctx) (cattr ctx) (cexpr ctx)
                      (match cquote ctx with
                       | Some q => if ch =? q then None else Some ch
                       | None => Some ch
                       end)
            | CTok (TBracket op b) _, _ =>
                let d := (if op then 1 else -1)%Z in
                match b with
                | BGroup => mkCtx (cgroup ctx + d) (cattr ctx) (cexpr ctx) (cquote ctx)
                | BAttr => mkCtx (cgroup ctx) (cattr ctx + d) (cexpr ctx) (cquote ctx)
                | BExpr => mkCtx (cgroup ctx) (cattr ctx) (cexpr ctx + d) (cquote ctx)
                end
            | _, _ => ctx
            end in
          (t, ctx')
      end
  | _ => (first, ctx)
  end.

Inductive tres := TOk (l : list token) | TErr (pos : nat).

Fixpoint toks (skip : nat) (ctx : tctx) (prev : option char) (pos : nat) (s : str) : tres :=
  match s with
  | [] => TOk []
  | c :: r =>
      match skip with
      | S k => toks k ctx (Some c) (S pos) r
      | O =>
          match consume ctx prev s with
          | (CNone, _) => TErr pos
          | (CErr off, _) => TErr (pos + off)
          | (CTok k n, ctx') =>
              match toks (pred n) ctx' (Some c) (S pos) r with
              | TOk l => TOk (mkTok k pos (pos + n) :: l)
              | TErr p => TErr p
              end
          end
      end
  end.

Definition tokenize (s : str) : tres := toks 0 ctx0 None 0 s.
