(* Model of emmet/stylesheet/color.py: color, as_hex, as_rgb, to_hex, to_short_hex
   (frac lives in lib/StyleLib.v).  Models the repaired to_hex (rjust).
   Definitions only. *)
From Coq Require Import String.
From Emmet Require Import lib.Base lib.StyleLib.
Local Open Scope N_scope.

Definition is_short_hex (n : N) : bool := n mod 17 =? 0.
Definition to_short_hex (n : N) : str := hex_of_N (N.shiftr n 4).
Definition to_hex (n : N) : str := rjust0 2 (hex_of_N n).

Definition as_hex (r g b : N) (short : bool) : str :=
  let fn := if short && is_short_hex r && is_short_hex g && is_short_hex b then to_short_hex else to_hex in
  c_hash :: fn r ++ fn g ++ fn b.

Definition as_rgb (r g b : N) (a : dec) : str :=
  let values := [str_of_N r; str_of_N g; str_of_N b] in
  let '(prefix, values) :=
    if negb (dec_is_one a) then (lit "rgba", values ++ [frac a 8]) else (lit "rgb", values) in
  prefix ++ [c_lparen] ++ join (lit ", ") values ++ [c_rparen].

Definition color (r g b : N) (a : dec) (short_hex : bool) : str :=
  if (r =? 0) && (g =? 0) && (b =? 0) && dec_is_zero a then lit "transparent"
  else if dec_is_one a then as_hex r g b short_hex
  else as_rgb r g b a.
