(* Model of the regular expressions of insert_href (emmet/abbreviation/convert.py) and of the value it
   computes for the href attribute.  Definitions only.

     re_url   = re.compile(r'(https?:|ftp:|file:)?\/\/|(www|ftp)\.')                  .match(text)
     re_email = re.compile(r'[a-z0-9._%+-]+@[a-z0-9.-]+\.[a-z]{2,5}$', re.I)          .match(text)
     re.match(r'\w+:', href)

   The three SHAPES are hand-compiled here as complete searches (every way to split the text between the
   parts of the pattern is tried, as a backtracking engine does, so nothing is assumed about the classes
   being disjoint); everything else -- the words of re_url, the code points of every class (re.I folding of
   U+0130 U+0131 U+017F U+212A, the Unicode word class), the literals, the bounds of the last repeat and
   what `$` tolerates after the match -- is generated from the compiled regex objects of the running
   interpreter into gen/GenHref.v by harness/gen_href.py, which aborts when a regex has another shape. *)
From Emmet Require Import lib.Base gen.GenHref.

Definition mem_N (c : N) (l : list N) : bool := existsb (N.eqb c) l.
Definition in_ranges (c : N) (l : list (N * N)) : bool := existsb (fun p => in_range (fst p) (snd p) c) l.

(* re_url.match(text): a finite language, matched at the start of the text (nothing is required after it) *)
Definition url_match (text : str) : bool := existsb (fun w => starts_with w text) href_url_words.

(* `$` without re.MULTILINE: the end of the text, or just before a line feed that ends the text *)
Definition email_at_end (r : str) : bool :=
  match r with
  | [] => true
  | [c] => mem_N c href_email_end
  | _ => false
  end.

(* [a-z]{lo,hi}$ with k characters of the repeat consumed so far *)
Fixpoint email_tld (k : nat) (r : str) : bool :=
  (Nat.leb href_email_tld_min k && email_at_end r) ||
  match r with
  | c :: r' => Nat.ltb k href_email_tld_max && mem_N c href_email_tld && email_tld (S k) r'
  | [] => false
  end.

(* C+ l K: at least one character of the class C, then the literal l, then K.  Every split is tried (the
   engine's backtracking).  [seen]: at least one character of the repeat has been consumed *)
Fixpoint plus_lit (cls : char -> bool) (lit : char) (k : str -> bool) (seen : bool) (s : str) : bool :=
  match s with
  | [] => false
  | c :: s' => (seen && (c =? lit)%N && k s') || (cls c && plus_lit cls lit k true s')
  end.

(* re_email.match(text):  [a-z0-9._%+-]+ @ [a-z0-9.-]+ \. [a-z]{2,5} $ *)
Definition email_match (text : str) : bool :=
  plus_lit (fun c => mem_N c href_email_local) href_email_at
           (plus_lit (fun c => mem_N c href_email_domain) href_email_dot (email_tld 0) false)
           false text.

(* re.match(r'\w+:', href): nothing is required after the colon *)
Definition proto_match (s : str) : bool :=
  plus_lit (fun c => in_ranges c href_proto_word) href_proto_colon (fun _ => true) false s.

Definition s_dslash : str := [47; 47]%N.                                 (* '//' *)
Definition s_http : str := [104; 116; 116; 112; 58; 47; 47]%N.           (* 'http://' *)
Definition s_mailto : str := [109; 97; 105; 108; 116; 111; 58]%N.        (* 'mailto:' *)

(* the local `href` of insert_href after its first `if/elif`: None, or a str *)
Definition href_value (text : str) : option str :=
  if url_match text then
    Some (if negb (proto_match text) && negb (starts_with s_dslash text) then s_http ++ text else text)
  else if email_match text then Some (s_mailto ++ text)
  else None.
