(* Model of emmet/abbreviation/parser/__init__.py and emmet/token_scanner.py.
   Definitions only.

   The TokenScanner is modelled by the list of tokens still to be read; every
   consumer reports how many tokens it consumed.  Loops are structural recursion
   on the token list with a skip counter (no fuel): a nested group is parsed by a
   recursive call on the tail, and the enclosing loop then skips what the group
   consumed.  The mutable `ctx`/`stack` of statements() is the open right spine. *)
From Emmet Require Import lib.Base model.MarkupTokenizer.

(* Repeater token payload *)
Record rep := mkRep { rcount : N; rvalue : N; rimplicit : bool }.

Record tattr := mkTAttr {
  ta_name : option (list token);
  ta_value : option (list token);
  ta_expression : bool;
  ta_multiple : bool }.

Inductive tnode :=
| TElem (name : option (list token)) (attrs : option (list tattr)) (value : option (list token))
        (repeat : option rep) (self_close : bool) (elements : list tnode)
| TGroup (elements : list tnode) (repeat : option rep).

(* parse result: the library's TokenScannerException carries the start of the
   offending token, or None when there is no token (end of input) *)
Inductive pres (A : Type) := POk (a : A) | PErr (pos : option nat).
Arguments POk {A} a.
Arguments PErr {A} pos.

(* -------- token predicates *)
Definition bctx_eqb (a b : bctx) : bool :=
  match a, b with BGroup, BGroup | BAttr, BAttr | BExpr, BExpr => true | _, _ => false end.
Definition optype_eqb (a b : optype) : bool :=
  match a, b with
  | OpChild, OpChild | OpSibling, OpSibling | OpClimb, OpClimb | OpClass, OpClass
  | OpId, OpId | OpClose, OpClose | OpEqual, OpEqual | OpUnknown, OpUnknown => true
  | _, _ => false
  end.

Definition is_bracket (t : token) (c : option bctx) (o : option bool) : bool :=
  match tk t with
  | TBracket op bc =>
      match c with Some c' => bctx_eqb bc c' | None => true end
      && match o with Some o' => Bool.eqb op o' | None => true end
  | _ => false
  end.
Definition is_operator (t : token) (op : option optype) : bool :=
  match tk t with
  | TOperator o => match op with Some o' => optype_eqb o o' | None => true end
  | _ => false
  end.
Definition is_quote_tok (t : token) (single : option bool) : bool :=
  match tk t with
  | TQuote s => match single with Some s' => Bool.eqb s s' | None => true end
  | _ => false
  end.
Definition is_white_space_tok (t : token) : bool := match tk t with TWhiteSpace _ => true | _ => false end.
Definition is_repeater_tok (t : token) : bool := match tk t with TRepeater _ _ _ => true | _ => false end.
Definition is_literal_tok (t : token) : bool := match tk t with TLiteral _ => true | _ => false end.
Definition rep_of (t : token) : option rep :=
  match tk t with TRepeater c v i => Some (mkRep c v i) | _ => None end.
(* 'A' <= token.value[:1] <= 'Z' *)
Definition is_capitalized_literal (t : token) : bool :=
  match tk t with
  | TLiteral (c :: _) => in_range c_A c_Z c
  | _ => false
  end.
Definition is_element_name_tok (t : token) : bool :=
  match tk t with
  | TLiteral _ | TRepeaterNumber _ _ _ _ | TRepeaterPlaceholder => true
  | _ => false
  end.

Definition hd_is (p : token -> bool) (toks : list token) : bool :=
  match toks with t :: _ => p t | [] => false end.

(* -------- quoted(scanner): QNone | QOk n (tokens consumed, quotes included) | QErr pos *)
Inductive qres := QNone | QOk (n : nat) | QErr (pos : nat).

Fixpoint find_quote (single : bool) (toks : list token) : option nat :=
  match toks with
  | [] => None
  | t :: r => if is_quote_tok t (Some single) then Some O
              else match find_quote single r with Some k => Some (S k) | None => None end
  end.

Definition quoted (toks : list token) : qres :=
  match toks with
  | q :: r =>
      match tk q with
      | TQuote single =>
          match find_quote single r with
          | Some k => QOk (2 + k)
          | None => QErr (tstart q)
          end
      | _ => QNone
      end
  | [] => QNone
  end.

(* -------- literal(scanner, allow_brackets): number of tokens consumed *)
Definition bump (b : bctx) (d : Z) (ba be bg : Z) : Z * Z * Z :=
  match b with
  | BAttr => ((ba + d)%Z, be, bg)
  | BExpr => (ba, (be + d)%Z, bg)
  | BGroup => (ba, be, (bg + d)%Z)
  end.
Definition counter (b : bctx) (ba be bg : Z) : Z :=
  match b with BAttr => ba | BExpr => be | BGroup => bg end.

Fixpoint literal_n (allow : bool) (ba be bg : Z) (toks : list token) : nat :=
  match toks with
  | [] => O
  | t :: r =>
      if truthy be then
        match tk t with
        | TBracket op BExpr => S (literal_n allow ba (be + (if op then 1 else -1))%Z bg r)
        | _ => S (literal_n allow ba be bg r)
        end
      else if is_quote_tok t None || is_operator t None || is_white_space_tok t || is_repeater_tok t then O
      else
        match tk t with
        | TBracket op b =>
            if negb allow then O
            else if op then
              let '(ba', be', bg') := bump b 1 ba be bg in S (literal_n allow ba' be' bg' r)
            else if negb (truthy (counter b ba be bg)) then O
            else let '(ba', be', bg') := bump b (-1) ba be bg in S (literal_n allow ba' be' bg' r)
        | _ => S (literal_n allow ba be bg r)
        end
  end.
Definition literal (allow : bool) (toks : list token) : nat := literal_n allow 0 0 0 toks.

(* -------- text(scanner): number of tokens consumed (0 = no text here) *)
Fixpoint text_loop (brackets : nat) (toks : list token) : nat :=
  match toks with
  | [] => O
  | t :: r =>
      match tk t with
      | TBracket op BExpr =>
          if op then S (text_loop (S brackets) r)
          else match brackets with
               | O => 1%nat
               | S b => S (text_loop b r)
               end
      | _ => S (text_loop brackets r)
      end
  end.
Definition text (toks : list token) : nat :=
  match toks with
  | t :: r => if is_bracket t (Some BExpr) (Some true) then S (text_loop O r) else O
  | [] => O
  end.

(* get_text(scanner) on the consumed run (non-empty, starts with '{') *)
Definition get_text (run : list token) : list token :=
  let body := tl run in                        (* tokens[start] is '{': start += 1 *)
  match rev run with
  | last :: _ =>
      if is_bracket last (Some BExpr) (Some false)
      then firstn (length body - 1) body       (* end -= 1 *)
      else body
  | [] => body
  end.

(* -------- attribute(scanner) *)
Inductive ares := ANone | AOk (a : tattr) (n : nat) | AErr (pos : option nat).

Definition attribute (toks : list token) : ares :=
  match quoted toks with
  | QErr p => AErr (Some p)
  | QOk n => AOk (mkTAttr None (Some (firstn n toks)) false false) n
  | QNone =>
      match literal true toks with
      | O => ANone
      | (S _) as n =>
          let name := firstn n toks in
          let r := skipn n toks in
          if hd_is (fun t => is_operator t (Some OpEqual)) r then
            let r1 := tl r in
            match quoted r1 with
            | QErr p => AErr (Some p)
            | QOk m => AOk (mkTAttr (Some name) (Some (firstn m r1)) false false) (n + 1 + m)
            | QNone =>
                match literal true r1 with
                | O => AOk (mkTAttr (Some name) None false false) (n + 1)
                | (S _) as m => AOk (mkTAttr (Some name) (Some (firstn m r1)) false false) (n + 1 + m)
                end
            end
          else AOk (mkTAttr (Some name) None false false) n
      end
  end.

(* -------- attribute_set(scanner): after the '[' *)
Inductive asres := ASNone | ASOk (l : list tattr) (n : nat) | ASErr (pos : option nat).

(* returns attributes and tokens consumed from [toks] *)
Fixpoint attr_set_loop (skip : nat) (acc : list tattr) (toks : list token) : pres (list tattr * nat) :=
  match toks with
  | [] => POk (acc, O)
  | t :: r =>
      match skip with
      | S k => match attr_set_loop k acc r with
               | POk (l, c) => POk (l, S c)
               | PErr p => PErr p
               end
      | O =>
          match attribute toks with
          | AErr p => PErr p
          | AOk a n =>
              match attr_set_loop (pred n) (acc ++ [a]) r with
              | POk (l, c) => POk (l, S c)
              | PErr p => PErr p
              end
          | ANone =>
              if is_bracket t (Some BAttr) (Some false) then POk (acc, 1%nat)
              else if is_white_space_tok t then
                match attr_set_loop O acc r with
                | POk (l, c) => POk (l, S c)
                | PErr p => PErr p
                end
              else PErr (Some (tstart t))
          end
      end
  end.

Definition attribute_set (toks : list token) : asres :=
  match toks with
  | t :: r =>
      if is_bracket t (Some BAttr) (Some true) then
        match attr_set_loop O [] r with
        | POk (l, c) => ASOk l (S c)
        | PErr p => ASErr p
        end
      else ASNone
  | [] => ASNone
  end.

(* -------- short_attribute(scanner, type, options) *)
Definition literal_tok (v : str) : token := mkTok (TLiteral v) 0 0.   (* create_literal: no position *)
Definition s_id : str := [105; 100]%N.
Definition s_class : str := [99; 108; 97; 115; 115]%N.

Fixpoint span_tok (p : token -> bool) (toks : list token) : nat :=
  match toks with t :: r => if p t then S (span_tok p r) else O | [] => O end.

Definition short_attribute (jsx : bool) (ty : optype) (toks : list token) : option (tattr * nat) :=
  let count := span_tok (fun t => is_operator t (Some ty)) toks in
  match count with
  | O => None
  | S _ =>
      let r := skipn count toks in
      let name := [literal_tok (match ty with OpId => s_id | _ => s_class end)] in
      let multiple := Nat.ltb 1 count in
      let tx := if jsx then text r else O in
      match tx with
      | S _ => Some (mkTAttr (Some name) (Some (get_text (firstn tx r))) true multiple, count + tx)
      | O =>
          match literal false r with
          | O => Some (mkTAttr (Some name) None false multiple, count)
          | (S _) as m => Some (mkTAttr (Some name) (Some (firstn m r)) false multiple, count + m)
          end
      end
  end.

(* -------- element_name(scanner, options): tokens consumed *)
(* jsx: Capitalized (.Capitalized)*  *)
Fixpoint jsx_chain (toks : list token) : nat :=
  match toks with
  | d :: r =>
      if is_operator d (Some OpClass) then
        match r with
        | c :: r' => if is_capitalized_literal c then S (S (jsx_chain r')) else O
        | [] => O
        end
      else O
  | [] => O
  end.
Definition element_name (jsx : bool) (toks : list token) : nat :=
  let n1 := if jsx && hd_is is_capitalized_literal toks then S (jsx_chain (tl toks)) else O in
  n1 + span_tok is_element_name_tok (skipn n1 toks).

(* -------- element(scanner, options) *)
Record est := mkEst {
  e_name : option (list token);
  e_attrs : option (list tattr);
  e_value : option (list token);
  e_repeat : option rep;
  e_self : bool }.
Definition est_empty (s : est) : bool :=
  match e_name s, e_value s, e_attrs s with None, None, None => true | _, _, _ => false end.
Definition est_add_attrs (s : est) (l : list tattr) : est :=
  mkEst (e_name s) (Some (match e_attrs s with None => l | Some old => old ++ l end))
        (e_value s) (e_repeat s) (e_self s).

Inductive estep := EBreak (s : est) (n : nat) | ECont (s : est) (n : nat) | EErr (p : option nat).

(* one round of the while loop of element(); [toks] is non-empty *)
Definition elem_body (jsx : bool) (s : est) (toks : list token) : estep :=
  match toks with
  | [] => EBreak s O
  | t :: r =>
      match e_repeat s, negb (est_empty s), rep_of t with
      | None, true, Some rp => ECont (mkEst (e_name s) (e_attrs s) (e_value s) (Some rp) (e_self s)) 1
      | _, _, _ =>
          let tx := match e_value s with None => text toks | Some _ => O end in
          match tx with
          | S _ => ECont (mkEst (e_name s) (e_attrs s) (Some (get_text (firstn tx toks))) (e_repeat s) (e_self s)) tx
          | O =>
              match short_attribute jsx OpId toks with
              | Some (a, n) => ECont (est_add_attrs s [a]) n
              | None =>
                  match short_attribute jsx OpClass toks with
                  | Some (a, n) => ECont (est_add_attrs s [a]) n
                  | None =>
                      match attribute_set toks with
                      | ASErr p => EErr p
                      | ASOk l n => ECont (est_add_attrs s l) n
                      | ASNone =>
                          if negb (est_empty s) && is_operator t (Some OpClose) then
                            let s' := mkEst (e_name s) (e_attrs s) (e_value s) (e_repeat s) true in
                            match e_repeat s', r with
                            | None, t2 :: _ =>
                                match rep_of t2 with
                                | Some rp => EBreak (mkEst (e_name s) (e_attrs s) (e_value s) (Some rp) true) 2
                                | None => EBreak s' 1
                                end
                            | _, _ => EBreak s' 1
                            end
                          else EBreak s O
                      end
                  end
              end
          end
      end
  end.

Fixpoint elem_loop (jsx : bool) (skip : nat) (s : est) (toks : list token) : pres (est * nat) :=
  match toks with
  | [] => POk (s, O)
  | t :: r =>
      match skip with
      | S k => match elem_loop jsx k s r with
               | POk (s', c) => POk (s', S c)
               | PErr p => PErr p
               end
      | O =>
          match elem_body jsx s toks with
          | EErr p => PErr p
          | EBreak s' n => POk (s', n)
          | ECont s' n =>
              match elem_loop jsx (pred n) s' r with
              | POk (s'', c) => POk (s'', S c)
              | PErr p => PErr p
              end
          end
      end
  end.

(* element(): Some (node, consumed) | None (nothing consumed) *)
Definition element (jsx : bool) (toks : list token) : pres (option (tnode * nat)) :=
  let nn := element_name jsx toks in
  let s0 := mkEst (match nn with O => None | S _ => Some (firstn nn toks) end) None None None false in
  match elem_loop jsx nn s0 toks with
  | PErr p => PErr p
  | POk (s, c) =>
      if est_empty s then POk None
      else POk (Some (TElem (e_name s) (e_attrs s) (e_value s) (e_repeat s) (e_self s) [], c))
  end.

(* -------- statements(scanner, options) with the open spine *)
Definition add_child (c n : tnode) : tnode :=
  match c with
  | TElem a b v rp sc els => TElem a b v rp sc (els ++ [n])
  | TGroup els rp => TGroup (els ++ [n]) rp
  end.
Definition elements_of (n : tnode) : list tnode :=
  match n with TElem _ _ _ _ _ els => els | TGroup els _ => els end.

(* close the open containers: cur goes into its parent, and so on down to the root *)
Fixpoint close_all (cur : tnode) (stack : list tnode) : tnode :=
  match stack with
  | [] => cur
  | p :: st => close_all (add_child p cur) st
  end.

(* `while scanner.consume(is_climb_operator): if len(stack): ctx = stack.pop()` *)
Fixpoint climb (k : nat) (cur : tnode) (stack : list tnode) : tnode * list tnode :=
  match k with
  | O => (cur, stack)
  | S k' => match stack with
            | [] => (cur, [])
            | p :: st => climb k' (add_child p cur) st
            end
  end.

Definition is_child_op (t : token) := is_operator t (Some OpChild).
Definition is_sibling_op (t : token) := is_operator t (Some OpSibling).
Definition is_climb_op (t : token) := is_operator t (Some OpClimb).

(* returns the elements of the root group and the number of tokens consumed *)
Fixpoint stmts (jsx : bool) (skip : nat) (cur : tnode) (stack : list tnode) (toks : list token)
  : pres (list tnode * nat) :=
  match toks with
  | [] => POk (elements_of (close_all cur stack), O)
  | t :: r =>
      match skip with
      | S k => match stmts jsx k cur stack r with
               | POk (els, c) => POk (els, S c)
               | PErr p => PErr p
               end
      | O =>
          (* node = element(...) or group(...) ; n = tokens it consumed (>= 1) *)
          let parsed : pres (option (tnode * nat)) :=
            match element jsx toks with
            | PErr p => PErr p
            | POk (Some x) => POk (Some x)
            | POk None =>
                if is_bracket t (Some BGroup) (Some true) then
                  match stmts jsx O (TGroup [] None) [] r with
                  | PErr p => PErr p
                  | POk (els, m) =>
                      (* token = scanner.next() *)
                      match skipn m r with
                      | [] => POk (Some (TGroup els None, 1 + m))
                      | c :: rest =>
                          if is_bracket c (Some BGroup) (Some false) then
                            match rest with
                            | t2 :: _ =>
                                match rep_of t2 with
                                | Some rp => POk (Some (TGroup els (Some rp), 1 + m + 2))
                                | None => POk (Some (TGroup els None, 1 + m + 1))
                                end
                            | [] => POk (Some (TGroup els None, 1 + m + 1))
                            end
                          else POk (Some (TGroup els None, 1 + m + 1))
                      end
                  end
                else POk None
            end in
          match parsed with
          | PErr p => PErr p
          | POk None => POk (elements_of (close_all cur stack), O)
          | POk (Some (node, n)) =>
              let after := skipn (pred n) r in
              let '(cur', stack', n') :=
                if hd_is is_child_op after then (node, cur :: stack, S n)
                else if hd_is is_sibling_op after then (add_child cur node, stack, S n)
                else
                  let k := span_tok is_climb_op after in
                  let '(c', s') := climb k (add_child cur node) stack in (c', s', n + k) in
              match stmts jsx (pred n') cur' stack' r with
              | POk (els, c) => POk (els, S c)
              | PErr p => PErr p
              end
          end
      end
  end.

(* parse(abbr, options): the root TokenGroup's elements *)
Definition parse (jsx : bool) (toks : list token) : pres (list tnode) :=
  match stmts jsx O (TGroup [] None) [] toks with
  | PErr p => PErr p
  | POk (els, c) =>
      match skipn c toks with
      | [] => POk els
      | t :: _ => PErr (Some (tstart t))
      end
  end.
