(* Model of emmet/markup/addon/bem.py, function by function.  Definitions only.

   State the addon reads and writes:
   * the `class` attribute of the node being transformed (rewritten twice: expand_class_names,
     expand_short_notation);
   * the `class` attribute of its ancestors (read only; ancestors were transformed before: walk is preorder);
   * the per-call dict `lookup` of bem(): only ever holds the node itself -> modelled as the [bemdata] value
     handed from expand_class_names to expand_short_notation;
   * the MODULE-LIFETIME cache of get_block_name (`lookup=WeakKeyDictionary()` default argument), keyed by node
     identity and different from the per-call dict: an entry is created by the first query of a node and never
     refreshed.  Every node of one expansion is a fresh object and is only ever queried while it is on the path
     (itself or one of its descendants is being transformed), so the cache is modelled as one optional entry per
     PATH NODE ([pn_cache]), threaded functionally through the walk (model/MarkupResolve.v transform_tree).
     A node that queries its own block (prefix depth 1: path index len-1 is the node itself) creates its entry
     from the class it has after expand_class_names and before expand_short_notation's update; its descendants
     then see that entry instead of its final class.

   Operations that can raise are explicit [Internal] results: update_class iterates node.attributes (TypeError
   when None), cl[0] (IndexError on an empty class name).  stringify_value joins `t.name` of Field tokens: in the
   model's value type a Field always carries a string name (tokenizer invariant), so the join cannot fail.
   get_item returns None out of range (no raise) and is modelled as such. *)
From Emmet Require Import lib.Base model.MarkupTokenizer model.MarkupParser model.MarkupConvert.
From Emmet Require Import gen.GenBem.

(* class BEMData *)
Record bemdata := mkBem { bd_class_names : list str; bd_block : option str }.

(* a node on the path: its attributes (current state) and its entry in the module cache *)
Record pnode := mkP { pn_attrs : option (list aattr); pn_cache : option bemdata }.

(* the options the addon reads; context = Some (context['attributes']['class'] or '') when config.context
   is not None *)
Record bemcfg := mkBemCfg { bc_element : str; bc_modifier : str; bc_context : option str }.

Definition in_tbl (t : list N) (c : char) : bool := existsb (N.eqb c) t.

(* ---------------------------------------------------------------- the four regular expressions *)
(* The shape ^(P+)(F+R<star>) with P, F disjoint and F inside R (asserted by harness/gen_bem.py on the compiled regex):
   greedy = the whole run of P, one or more F, the whole run of R.
   Result: (len(group 1), group 2, len(group 0)). *)
Definition re_match3 (P F R : list N) (s : str) : option (nat * str * nat) :=
  let np := span (in_tbl P) s in
  match np with
  | O => None
  | _ =>
      let s1 := skipn np s in
      let nf := span (in_tbl F) s1 in
      match nf with
      | O => None
      | _ =>
          let nr := span (in_tbl R) (skipn nf s1) in
          Some (np, firstn (nf + nr) s1, np + (nf + nr))
      end
  end.
(* re_element = ^(-+)([a-z0-9]+[a-z0-9-]<star>), re.I *)
Definition re_element (s : str) := re_match3 bem_elem_prefix bem_elem_first bem_elem_rest s.
(* re_modifier = ^(_+)([a-z0-9]+[a-z0-9-_]<star>), re.I *)
Definition re_modifier (s : str) := re_match3 bem_mod_prefix bem_mod_first bem_mod_rest s.
(* ^[a-z]- , re.I *)
Definition block_candidates1 (s : str) : bool :=
  match s with
  | a :: b :: _ => in_tbl bem_block1_first a && in_tbl bem_block1_second b
  | _ => false
  end.
(* ^[a-z] , re.I *)
Definition block_candidates2 (s : str) : bool :=
  match s with
  | a :: _ => in_tbl bem_block2_first a
  | _ => false
  end.

Definition is_some {A} (o : option A) : bool := match o with Some _ => true | None => false end.

(* ---------------------------------------------------------------- small Python helpers *)
(* str.split() without arguments: maximal runs of non-whitespace *)
Fixpoint split_ws_aux (s : str) (cur : str) : list str :=
  match s with
  | [] => match cur with [] => [] | _ => [rev cur] end
  | c :: r =>
      if is_py_space c
      then match cur with [] => split_ws_aux r [] | _ => rev cur :: split_ws_aux r [] end
      else split_ws_aux r (c :: cur)
  end.
Definition split_ws (s : str) : list str := split_ws_aux s [].

(* str.find(ch): index of the first occurrence, None = -1 *)
Fixpoint find_char (ch : char) (s : str) : option nat :=
  match s with
  | [] => None
  | c :: r => if (c =? ch)%N then Some O else match find_char ch r with Some k => Some (S k) | None => None end
  end.

(* unique(items): first occurrences, in order *)
Fixpoint unique_acc (seen : list str) (l : list str) : list str :=
  match l with
  | [] => []
  | x :: r => if mem_str x seen then unique_acc seen r else x :: unique_acc (x :: seen) r
  end.
Definition unique (l : list str) : list str := unique_acc [] l.

(* get_item(items, index): None when out of range *)
Definition get_item {A} (l : list A) (ix : nat) : option A := nth_error l ix.

Fixpoint set_nth {A} (ix : nat) (x : A) (l : list A) : list A :=
  match l, ix with
  | [], _ => []
  | _ :: r, O => x :: r
  | a :: r, S k => a :: set_nth k x r
  end.

(* stringify_value(value): ''.join(t if isinstance(t, str) else t.name) *)
Fixpoint stringify_value_bem (v : list vtok) : str :=
  match v with
  | [] => []
  | VStr s :: r => s ++ stringify_value_bem r
  | VField _ name :: r => name ++ stringify_value_bem r
  end.

Definition name_is_class (a : aattr) : bool :=
  match aa_name a with Some x => str_eqb x s_class | None => false end.

(* ---------------------------------------------------------------- find / find_block_name / parse_bem *)
(* find(class_names, fn) *)
Fixpoint find_cl (fn : str -> bool) (l : list str) : option str :=
  match l with
  | [] => None
  | cl :: r =>
      if is_some (re_element cl) || is_some (re_modifier cl) then None      (* break *)
      else if fn cl then Some cl else find_cl fn r
  end.

(* `x or y`: x when it is a non-empty string *)
Definition truthy_str (o : option str) : option str :=
  match o with Some (_ :: _) => o | _ => None end.

(* find_block_name: find(.., block_candidates1) or find(.., block_candidates2) or None *)
Definition find_block_name (class_names : list str) : option str :=
  match truthy_str (find_cl block_candidates1 class_names) with
  | Some x => Some x
  | None => truthy_str (find_cl block_candidates2 class_names)
  end.

(* parse_bem(class_value) *)
Definition parse_bem (class_value : str) : bemdata :=
  let class_names := match class_value with [] => [] | _ => split_ws class_value end in
  mkBem class_names (find_block_name class_names).

(* the loop of get_bem_data: value of the first attribute named `class` with a truthy value *)
Fixpoint class_value_loop (l : list aattr) : str :=
  match l with
  | [] => []
  | a :: r =>
      if name_is_class a then
        match aa_value a with
        | Some ((_ :: _) as v) => stringify_value_bem v      (* break *)
        | _ => class_value_loop r
        end
      else class_value_loop r
  end.
Definition class_value_of (attrs : option (list aattr)) : str :=
  match attrs with
  | Some ((_ :: _) as l) => class_value_loop l      (* if node.attributes: *)
  | _ => []
  end.

(* get_bem_data(node, lookup): [entry] = lookup.get(node); the caller stores the result back *)
Definition get_bem_data (attrs : option (list aattr)) (entry : option bemdata) : bemdata :=
  match entry with
  | Some d => d
  | None => parse_bem (class_value_of attrs)
  end.

(* ---------------------------------------------------------------- update_class *)
Fixpoint set_class_value (value : str) (l : list aattr) : list aattr :=
  match l with
  | [] => []
  | a :: r =>
      if name_is_class a
      then mkAAttr (aa_name a) (Some [VStr value]) (aa_vtype a) (aa_boolean a) (aa_implied a) (aa_multiple a) :: r
      else a :: set_class_value value r
  end.
(* update_class(node, value): `for attr in node.attributes` raises TypeError when attributes is None *)
Definition update_class (n : anode) (value : str) : res anode :=
  match n with
  | ANode nm v rp at_ ch sc =>
      match at_ with
      | None => Internal IK_Type
      | Some l => Ok (ANode nm v rp (Some (set_class_value value l)) ch sc)
      end
  end.

(* ---------------------------------------------------------------- expand_class_names *)
(* the loop body: b__el_mod -> b, __el_mod *)
Fixpoint ecn_loop (l : list str) : res (list str) :=
  match l with
  | [] => Ok []
  | cl :: r =>
      let* here :=
        match find_char c_under cl with
        | Some (S k) =>                                   (* ix > 0 and ... *)
            match cl with
            | [] => Internal IK_Index                     (* cl[0] *)
            | c0 :: _ =>
                if negb (c0 =? c_dash)%N then Ok [firstn (S k) cl; skipn (S k) cl] else Ok [cl]
            end
        | _ => Ok [cl]
        end in
      let* rest := ecn_loop r in
      Ok (here ++ rest)
  end.

(* expand_class_names(node, lookup) with an empty lookup; returns the node and lookup[node] *)
Definition expand_class_names (n : anode) : res (anode * bemdata) :=
  let data := get_bem_data (an_attrs n) None in
  let* class_names := ecn_loop (bd_class_names data) in
  match class_names with
  | [] => Ok (n, data)
  | _ =>
      let names := unique class_names in
      let data' := mkBem names (find_block_name names) in
      let* n' := update_class n (join [c_space] names) in
      Ok (n', data')
  end.

(* ---------------------------------------------------------------- get_block_name *)
(* the while loop: parent_ix = ix, ix-1, .., 0; returns the block found (if any) and the path with the
   cache entries created on the way *)
Fixpoint gbn_loop (path : list pnode) (ix : nat) : option str * list pnode :=
  let '(found, path1) :=
    match get_item path ix with
    | Some p =>                                           (* if parent: *)
        let d := get_bem_data (pn_attrs p) (pn_cache p) in
        (truthy_str (bd_block d), set_nth ix (mkP (pn_attrs p) (Some d)) path)
    | None => (None, path)
    end in
  match found with
  | Some b => (Some b, path1)
  | None =>
      match ix with
      | O => (None, path1)
      | S k => gbn_loop path1 k
      end
  end.

(* get_block_name(ancestors, depth, context): [context] = None when the argument is None *)
Definition get_block_name (path : list pnode) (depth : nat) (context : option str) : str * list pnode :=
  let '(found, path1) := gbn_loop path (length path - depth) in      (* max(len - depth, 0) *)
  match found with
  | Some b => (b, path1)
  | None =>
      match context with
      | Some cls =>                                       (* get_bem_data_from_context *)
          match truthy_str (bd_block (parse_bem cls)) with
          | Some b => (b, path1)
          | None => ([], path1)
          end
      | None => ([], path1)
      end
  end.

(* ---------------------------------------------------------------- expand_short_notation *)
(* the loop body for one class name: the names appended to class_names, and the path *)
Definition esn_class (cfg : bemcfg) (path : list pnode) (original_class : str) : list str * list pnode :=
  (* parse element definition *)
  let '(prefix, names1, cl1, path1) :=
    match re_element original_class with
    | Some (d, g2, n0) =>
        let '(b, p') := get_block_name path d (bc_context cfg) in
        let prefix := b ++ bc_element cfg ++ g2 in
        (prefix, [prefix], skipn n0 original_class, p')
    | None => ([], [], original_class, path)
    end in
  (* parse modifiers definitions *)
  let '(names2, cl2, path2) :=
    match re_modifier cl1 with
    | Some (d, g2, n0) =>
        let '(prefix', pre_names, p') :=
          match prefix with
          | [] => let '(b, p') := get_block_name path1 d None in (b, [b], p')      (* if not prefix: *)
          | _ => (prefix, [], path1)
          end in
        (pre_names ++ [prefix' ++ bc_modifier cfg ++ g2], skipn n0 cl1, p')
    | None => ([], cl1, path1)
    end in
  (names1 ++ names2 ++ (if str_eqb cl2 original_class then [original_class] else []), path2).

Fixpoint esn_loop (cfg : bemcfg) (path : list pnode) (l : list str) : list str * list pnode :=
  match l with
  | [] => ([], path)
  | cl :: r =>
      let '(a, p1) := esn_class cfg path cl in
      let '(b, p2) := esn_loop cfg p1 r in
      (a ++ b, p2)
  end.

(* expand_short_notation(node, ancestors, config, lookup): [anc] = ancestors[1:], [data] = lookup[node].
   Returns the node and the path ancestors[1:] + [node] with the cache entries as they are afterwards. *)
Definition expand_short_notation (cfg : bemcfg) (anc : list pnode) (n : anode) (data : bemdata)
  : res (anode * list pnode) :=
  let path := anc ++ [mkP (an_attrs n) None] in
  let '(class_names, path1) := esn_loop cfg path (bd_class_names data) in
  let arr := unique class_names in
  let* n' := match arr with
             | [] => Ok n
             | _ => update_class n (join [c_space] arr)
             end in
  (* the node's own path entry now shows its final attributes; its cache entry is unchanged *)
  let self_cache := match get_item path1 (length anc) with Some p => pn_cache p | None => None end in
  Ok (n', firstn (length anc) path1 ++ [mkP (an_attrs n') self_cache]).

(* bem(node, ancestors, config) *)
Definition bem (cfg : bemcfg) (anc : list pnode) (n : anode) : res (anode * list pnode) :=
  let* (n1, data) := expand_class_names n in
  expand_short_notation cfg anc n1 data.
