(* Model of emmet/markup/format/html.py, comment.py, template.py, utils.py, walk.py and
   the helper functions of output_stream.py.  Definitions only. *)
From Emmet Require Import lib.Base gen.GenHtmlTag model.MarkupTokenizer model.MarkupParser model.MarkupConvert model.OutStream.

Record oconfig := mkOconfig {
  oc_fmt : ofmt;
  oc_tag_case : str;
  oc_attr_case : str;
  oc_attr_quotes : str;
  oc_format : bool;
  oc_format_leaf : bool;
  oc_format_skip : list str;
  oc_format_force : list str;
  oc_inline_break : N;
  oc_compact_boolean : bool;
  oc_boolean_attrs : list str;
  oc_self_closing_style : str;
  oc_inline : list str;
  oc_comment_enabled : bool;
  oc_comment_trigger : list str;
  oc_comment_before : str;
  oc_comment_after : str;
  oc_jsx : bool;
  oc_markup_attributes : option (list (str * str));
  oc_value_prefix : option (list (str * str)) }.

Record fstate := mkFs { fs_out : ostream; fs_field : N }.

Definition s_upper : str := [117;112;112;101;114]%N.
Definition s_single : str := [115;105;110;103;108;101]%N.
Definition s_xhtml : str := [120;104;116;109;108]%N.
Definition s_xml : str := [120;109;108]%N.
Definition s_html : str := [104;116;109;108]%N.

Definition str_case (text case_type : str) : str :=
  match case_type with
  | [] => text
  | _ => if str_eqb case_type s_upper then upper text else lower text
  end.
Definition tag_name (c : oconfig) (n : str) := str_case n (oc_tag_case c).
Definition attr_name (c : oconfig) (n : str) := str_case n (oc_attr_case c).
Definition attr_quote (c : oconfig) (a : aattr) (is_open : bool) : str :=
  match aa_vtype a with
  | VExpr => [if is_open then c_lbrace else c_rbrace]
  | _ => [if str_eqb (oc_attr_quotes c) s_single then c_squote else c_dquote]
  end.
Definition is_boolean_attribute (c : oconfig) (a : aattr) : bool :=
  aa_boolean a || mem_str (lower (match aa_name a with Some n => n | None => [] end)) (oc_boolean_attrs c).
Definition self_close (c : oconfig) : str :=
  if str_eqb (oc_self_closing_style c) s_xhtml then [c_space; c_slash]
  else if str_eqb (oc_self_closing_style c) s_xml then [c_slash] else [].

Definition truthy_l {A} (o : option (list A)) : bool := match o with Some (_ :: _) => true | _ => false end.
Definition truthy_s (o : option str) : bool := match o with Some (_ :: _) => true | _ => false end.

Definition is_inline_str (c : oconfig) (n : str) : bool := mem_str (lower n) (oc_inline c).
Definition is_inline (c : oconfig) (n : anode) : bool :=
  match an_name n with
  | Some ((_ :: _) as nm) => is_inline_str c nm
  | _ => truthy_l (an_value n) && negb (truthy_l (an_attrs n))
  end.
Definition is_snippet (n : anode) : bool := negb (truthy_s (an_name n)) && negb (truthy_l (an_attrs n)).
Definition is_snippet_opt (n : option anode) : bool := match n with Some x => is_snippet x | None => false end.

Definition has_newline (v : vtok) : bool :=
  match v with VStr s => existsb (fun c => (c =? c_cr)%N || (c =? c_nl)%N) s | VField _ _ => false end.

(* push_tokens(tokens, state) *)
Definition push_tokens (c : oconfig) (tokens : list vtok) (st : fstate) : fstate :=
  let '(out, largest) :=
    fold_left (fun '(o, lg) t =>
                 match t with
                 | VStr s => (os_push_string (oc_fmt c) o s, lg)
                 | VField i nm => (os_push_field o (fs_field st + i)%N nm,
                                   match lg with
                                   | Some l => Some (N.max l i)
                                   | None => Some i
                                   end)
                 end) tokens (fs_out st, None) in
  mkFs out (match largest with Some l => (fs_field st + l + 1)%N | None => fs_field st end).
Definition caret : list vtok := [VField 0 []].
Definition push_str (c : oconfig) (s : str) (st : fstate) : fstate :=
  mkFs (os_push_string (oc_fmt c) (fs_out st) s) (fs_field st).
Definition map_out (f : ostream -> ostream) (st : fstate) : fstate := mkFs (f (fs_out st)) (fs_field st).

Definition vtype_is_raw (v : vtype) : bool := match v with VRaw => true | _ => false end.
Definition should_output_attribute (a : aattr) : bool :=
  negb (aa_implied a) || negb (vtype_is_raw (aa_vtype a)) || truthy_l (aa_value a).

(* get_multi_value(key, data, multiple) *)
Definition get_multi_value (key : str) (data : list (str * str)) (multiple : bool) : option str :=
  let star := if multiple then assoc_str (key ++ [c_star]) data else None in
  match star with
  | Some ((_ :: _) as v) => Some v
  | _ => assoc_str key data
  end.

(* is_prop_key: not a reserved word and matches [a-zA-Z_$][\w_$]* (ASCII \w; one trailing newline allowed by `$`) *)
Definition reserved_keywords : list str :=
  [[102;111;114]; [119;104;105;108;101]; [111;102]; [97;115;121;110;99]; [97;119;97;105;116]; [99;111;110;115;116];
   [108;101;116]; [118;97;114]; [99;111;110;116;105;110;117;101]; [98;114;101;97;107];
   [100;101;98;117;103;103;101;114]; [100;111]; [101;120;112;111;114;116]; [105;109;112;111;114;116]; [105;110];
   [105;110;115;116;97;110;99;101;111;102]; [110;101;119]; [114;101;116;117;114;110]; [115;119;105;116;99;104];
   [116;104;105;115]; [116;104;114;111;119]; [116;114;121]; [99;97;116;99;104]; [116;121;112;101;111;102];
   [118;111;105;100]; [119;105;116;104]; [121;105;101;108;100]]%N.
Definition is_word_char (c : char) : bool := is_alpha_numeric_word c.
Definition is_prop_key (name : str) : bool :=
  negb (mem_str name reserved_keywords) &&
  match name with
  | c :: r =>
      (is_alpha c || (c =? c_under)%N || (c =? c_dollar)%N) &&
      let body := match rev r with
                  | l :: rr => if (l =? c_nl)%N then rev rr else r
                  | [] => r
                  end in
      forallb (fun x => is_word_char x || (x =? c_dollar)%N) body
  | [] => false
  end.

(* push_attribute(attr, state) *)
Definition push_attribute (c : oconfig) (a : aattr) (st : fstate) : fstate :=
  match aa_name a with
  | Some ((_ :: _) as nm0) =>
      let name1 := match oc_markup_attributes c with
                   | Some ((_ :: _) as tbl) =>
                       match get_multi_value nm0 tbl (aa_multiple a) with
                       | Some ((_ :: _) as m) => m
                       | _ => nm0
                       end
                   | _ => nm0
                   end in
      let name := attr_name c name1 in
      let prefix := match oc_value_prefix c with
                    | Some ((_ :: _) as tbl) => get_multi_value nm0 tbl (aa_multiple a)
                    | _ => None
                    end in
      let '(value1, lq, rq) :=
        match prefix, aa_value a with
        | Some ((_ :: _) as pf), Some [VStr val] =>
            let v := if is_prop_key val then pf ++ [c_dot] ++ val
                     else pf ++ [c_lbrack; c_squote] ++ val ++ [c_squote; c_rbrack] in
            (Some [VStr v],
             if oc_jsx c then [c_lbrace] else attr_quote c a true,
             if oc_jsx c then [c_rbrace] else attr_quote c a false)
        | _, _ => (aa_value a, attr_quote c a true, attr_quote c a false)
        end in
      let value2 : option (list vtok) :=
        if is_boolean_attribute c a && negb (truthy_l value1) then
          if negb (oc_compact_boolean c) then Some [VStr name] else value1
        else if negb (truthy_l value1) then Some caret
        else value1 in
      let st1 := push_str c (c_space :: name) st in
      match value2 with
      | Some ((_ :: _) as v) =>
          let st2 := push_str c (c_eq :: lq) st1 in
          let st3 := push_tokens c v st2 in
          push_str c rq st3
      | _ =>
          if negb (str_eqb (oc_self_closing_style c) s_html)
          then push_str c (c_eq :: lq ++ rq) st1
          else st1
      end
  | _ => st
  end.

(* ---------------------------------------------------------------- comments: template() *)
Inductive tpl := TStr (s : str) | TPh (before after name : str).

Definition is_token_start (c : char) : bool := in_range c_A c_Z c.
Definition is_token (c : char) : bool :=
  is_token_start c || (c =? c_under)%N || (c =? c_dash)%N || in_range c_0 c_9 c.

(* consume_placeholder after the '[': scan [s] (offset [off] from the placeholder start);
   returns (before, after, name, characters consumed after the '[') *)
Fixpoint ph_scan (skip : nat) (stack : nat) (off name_pos after_pos : nat) (body s : str)
  : option (str * str * str * nat) :=
  match s with
  | [] => None
  | ch :: r =>
      match skip with
      | S k => ph_scan k stack (S off) name_pos after_pos body r
      | O =>
          if is_token_start ch then
            let n := span is_token s in
            ph_scan (pred n) stack (S off) off (off + n) body r
          else if (ch =? c_lbrack)%N then ph_scan O (S stack) (S off) name_pos after_pos body r
          else if (ch =? c_rbrack)%N then
            match stack with
            | S (S st') => ph_scan O (S st') (S off) name_pos after_pos body r
            | _ => Some (slice body 0 name_pos, slice body after_pos off, slice body name_pos after_pos, S off)
            end
          else ph_scan O stack (S off) name_pos after_pos body r
      end
  end.

(* template(text): [cur] = plain text since the last placeholder (reversed) *)
Fixpoint template_loop (skip : nat) (cur : str) (s : str) : list tpl :=
  match s with
  | [] => match cur with [] => [] | _ => [TStr (rev cur)] end
  | ch :: r =>
      match skip with
      | S k => template_loop k cur r
      | O =>
          if (ch =? c_lbrack)%N then
            match ph_scan O 1 O O O r r with
            | Some (before, after, name, n) =>
                TStr (rev cur) :: TPh before after name :: template_loop n [] r
            | None => [TStr (rev cur ++ s)]       (* unclosed '[': the rest is plain text *)
            end
          else template_loop O (ch :: cur) r
      end
  end.
Definition template (text : str) : list tpl := template_loop O [] text.

(* should_comment(node, state) *)
Definition should_comment (c : oconfig) (n : anode) : bool :=
  oc_comment_enabled c
  && (match oc_comment_trigger c with [] => false | _ => true end)
  && truthy_s (an_name n)
  && match an_attrs n with
     | Some ((_ :: _) as l) =>
         existsb (fun a => match aa_name a with
                           | Some ((_ :: _) as nm) => mem_str nm (oc_comment_trigger c)
                           | _ => false
                           end) l
     | _ => false
     end.

(* output(node, tokens, state) *)
Definition comment_output (c : oconfig) (n : anode) (tokens : list tpl) (st : fstate) : fstate :=
  let attrs : list (str * list vtok) :=
    (* later attributes overwrite earlier ones in the dict: look up from the end *)
    rev (flat_map (fun a => match aa_name a, aa_value a with
                            | Some ((_ :: _) as nm), Some ((_ :: _) as v) => [(upper nm, v)]
                            | _, _ => []
                            end)
                  (match an_attrs n with Some l => l | None => [] end)) in
  fold_left (fun st' t =>
               match t with
               | TStr s => push_str c s st'
               | TPh before after name =>
                   match assoc_str name attrs with
                   | Some v => push_str c after (push_tokens c v (push_str c before st'))
                   | None => st'
                   end
               end) tokens st.

Definition comment_node (c : oconfig) (text : str) (n : anode) (st : fstate) : fstate :=
  match text with
  | [] => st                                  (* template(before) if before else None *)
  | _ => if should_comment c n then comment_output c n (template text) st else st
  end.

(* ---------------------------------------------------------------- should_format *)
Definition nth_node (items : list anode) (i : Z) : option anode :=
  if (i <? 0)%Z then None else nth_error items (Z.to_nat i).

(* number of consecutive inline elements starting at the head *)
Fixpoint count_inline (c : oconfig) (l : list anode) : nat :=
  match l with
  | x :: r => if is_inline c x then S (count_inline c r) else O
  | [] => O
  end.

Fixpoint should_format (c : oconfig) (parent : option anode) (node : anode) (index : nat) (items : list anode)
         {struct node} : bool :=
  if negb (oc_format c) then false
  else if Nat.eqb index 0 && match parent with None => true | Some _ => false end then false
  else if is_snippet_opt parent && Nat.eqb (length items) 1 then false
  else
    let snippet_fmt :=
      is_snippet node &&
      (is_snippet_opt (nth_node items (Z.of_nat index - 1)) || is_snippet_opt (nth_node items (Z.of_nat index + 1))
       || existsb has_newline (match an_value node with Some v => v | None => [] end)
       || (existsb is_vfield (match an_value node with Some v => v | None => [] end)
           && match an_children node with [] => false | _ => true end)) in
    if snippet_fmt then true
    else if is_inline c node then
      let first_rule :=
        if Nat.eqb index 0 then existsb (fun it => negb (is_inline c it)) items
        else match nth_error items (index - 1) with
             | Some prev => negb (is_inline c prev)
             | None => false
             end in
      if first_rule then true
      else
        let break_rule :=
          if (0 <? oc_inline_break c)%N then
            let before := count_inline c (rev (firstn index items)) in
            let after := count_inline c (skipn (S index) items) in
            (oc_inline_break c <=? N.of_nat (1 + before + after))%N
          else false in
        if break_rule then true
        else
          (fix go (i : nat) (l : list anode) : bool :=
             match l with
             | [] => false
             | ch :: r => should_format c parent ch i (an_children node) || go (S i) r
             end) O (an_children node)
    else true.

(* get_indent(state) *)
Definition get_indent (c : oconfig) (parent : option anode) : Z :=
  match parent with
  | None => 0
  | Some p =>
      if is_snippet p then 0
      else match an_name p with
           | Some ((_ :: _) as nm) => if mem_str nm (oc_format_skip c) then 0 else 1
           | _ => 1
           end
  end%Z.

(* starts_with_block_tag: value[0] is a str matching re_html_tag = '<' [\w\-:]+ [\s>] whose name is not inline.
   In Python both \w and \s are the Unicode classes: the two classes are generated tables, probed from the compiled
   regex with every code point (gen/GenHtmlTag.v by harness/gen_htmltag.py, which also checks the shape of the pattern
   and that the classes are disjoint) *)
Definition in_ranges (ch : char) (rs : list (N * N)) : bool := existsb (fun r => in_range (fst r) (snd r) ch) rs.
Definition is_tagname_char (ch : char) : bool := in_ranges ch html_tag_name_ranges.
Definition is_tag_end_char (ch : char) : bool := in_ranges ch html_tag_end_ranges.
Definition starts_with_block_tag (c : oconfig) (value : list vtok) : bool :=
  match value with
  | VStr (lt :: r) :: _ =>
      if (lt =? c_lt)%N then
        let n := span is_tagname_char r in
        match n, skipn n r with
        | S _, e :: _ =>
            (* greedy run then one terminator; the run cannot give a char back since terminators are not in the class *)
            if is_tag_end_char e then negb (is_inline_str c (firstn n r)) else false
        | _, _ => false
        end
      else false
  | _ => false
  end.

Definition find_field_ix (value : list vtok) : option nat :=
  (fix go (i : nat) (l : list vtok) : option nat :=
     match l with
     | [] => None
     | VField _ _ :: _ => Some i
     | _ :: r => go (S i) r
     end) O value.

(* element(node, index, items, state, next) *)
Fixpoint html_element (c : oconfig) (parent : option anode) (node : anode) (index : nat) (items : list anode)
         (st : fstate) {struct node} : fstate :=
  let f := oc_fmt c in
  let fmt := should_format c parent node index items in
  let level := get_indent c parent in
  let st := map_out (fun o => os_add_level o level) st in
  let st := if fmt then map_out (fun o => os_push_newline f o (Some None)) st else st in
  let next (st : fstate) : fstate :=
    (fix go (i : nat) (l : list anode) (st : fstate) : fstate :=
       match l with
       | [] => st
       | ch :: r => go (S i) r (html_element c (Some node) ch i (an_children node) st)
       end) O (an_children node) st in
  (* push_snippet(node, state, next): Some st' when it handled the node *)
  let push_snippet (st : fstate) : option fstate :=
    match an_value node, an_children node with
    | Some ((_ :: _) as value), _ :: _ =>
        match find_field_ix value with
        | Some ix =>
            let st1 := push_tokens c (firstn ix value) st in
            let line := os_line (fs_out st1) in
            let st2 := next st1 in
            let '(st3, pos) :=
              match nth_error value (S ix) with
              | Some (VStr s) =>
                  if negb (Nat.eqb (os_line (fs_out st2)) line)
                  then (push_str c (lstrip s) st2, S (S ix))
                  else (st2, S ix)
              | _ => (st2, S ix)
              end in
            Some (push_tokens c (skipn pos value) st3)
        | None => None
        end
    | _, _ => None
    end in
  let st :=
    match an_name node with
    | Some ((_ :: _) as nm) =>
        let name := tag_name c nm in
        let st := comment_node c (oc_comment_before c) node st in
        let st := push_str c (c_lt :: name) st in
        let st := match an_attrs node with
                  | Some ((_ :: _) as l) =>
                      fold_left (fun s a => if should_output_attribute a then push_attribute c a s else s) l st
                  | _ => st
                  end in
        if an_self node && match an_children node with [] => true | _ => false end
           && negb (truthy_l (an_value node))
        then push_str c (self_close c ++ [c_gt]) st
        else
          let st := push_str c [c_gt] st in
          let st :=
            match push_snippet st with
            | Some st' => st'
            | None =>
                let st :=
                  match an_value node with
                  | Some ((_ :: _) as value) =>
                      let inner := existsb has_newline value || starts_with_block_tag c value in
                      let st := if inner
                                then map_out (fun o => let o' := os_add_level o 1 in os_push_newline_int f o' (os_level o')) st
                                else st in
                      let st := push_tokens c value st in
                      if inner
                      then match an_children node with
                           | [] => map_out (fun o => let o' := os_add_level o (-1) in os_push_newline_int f o' (os_level o')) st
                           | _ => map_out (fun o => os_add_level o (-1)) st
                           end
                      else st
                  | _ => st
                  end in
                let st := next st in
                if negb (truthy_l (an_value node)) && match an_children node with [] => true | _ => false end then
                  let inner := oc_format_leaf c || mem_str nm (oc_format_force c) in
                  let st := if inner
                            then map_out (fun o => let o' := os_add_level o 1 in os_push_newline_int f o' (os_level o')) st
                            else st in
                  let st := push_tokens c caret st in
                  if inner
                  then map_out (fun o => let o' := os_add_level o (-1) in os_push_newline_int f o' (os_level o')) st
                  else st
                else st
            end in
          let st := push_str c ([c_lt; c_slash] ++ name ++ [c_gt]) st in
          comment_node c (oc_comment_after c) node st
    | _ =>
        match push_snippet st with
        | Some st' => st'
        | None =>
            (* a text-only node; its text may be empty (`{}`): the children are written either way (repaired) *)
            next (match an_value node with
                  | Some ((_ :: _) as value) => push_tokens c value st
                  | _ => st
                  end)
        end
    end in
  let st :=
    if fmt && Nat.eqb index (length items - 1) && match parent with Some _ => true | None => false end
       && negb (Nat.eqb (length items) 0)
    then map_out (fun o => os_push_newline_int f o (os_level o - (if is_snippet_opt parent then 0 else 1))%Z) st
    else st in
  map_out (fun o => os_add_level o (- level)%Z) st.

(* html(abbr, config) *)
Definition html_format (c : oconfig) (children : list anode) : fstate :=
  (fix go (i : nat) (l : list anode) (st : fstate) : fstate :=
     match l with
     | [] => st
     | ch :: r => go (S i) r (html_element c None ch i children st)
     end) O children (mkFs os_empty 1).
