(* Model of emmet/stylesheet/snippets.py: create_snippet (with the hand-compiled
   re_property), parse_value, collect_keywords, nest; and convert_snippets of
   emmet/stylesheet/__init__.py.  Definitions only. *)
From Emmet Require Import lib.Base lib.StyleLib model.CssTokenizer model.CssParser.
Local Open Scope N_scope.

(* keywords: an OrderedDict name -> token (Literal / FunctionCall) *)
Definition kwdict := list (str * cval).

Inductive snippet :=
| SnRaw (key : str) (value : str)
| SnProp (key : str) (property : str)
         (value : list (list cssvalue))          (* one parsed value list per '|' alternative *)
         (keywords : kwdict)
         (deps : list kwdict).                   (* keywords of snippet.dependencies, in order *)

Definition sn_key (s : snippet) : str := match s with SnRaw k _ => k | SnProp k _ _ _ _ => k end.
Definition sn_is_property (s : snippet) : bool := match s with SnProp _ _ _ _ _ => true | _ => false end.

(* ---- re_property, hand-compiled:  ^ NAME ( WS ':' WS GROUP2 SEMIS )? $
   NAME = [a-z-]+, WS = \s* , GROUP2 = lazy run of characters other than \n \r ';',
   SEMIS = ';' any number of times.
   `$` matches at the end or just before a final "\n"; \s is str.isspace(). *)
Definition is_az_dash (c : char) : bool := in_range c_a c_z c || (c =? c_dash).
Definition at_dollar_end (s : str) : bool :=
  match s with [] => true | [c] => c =? c_nl | _ => false end.
Definition is_gchar (c : char) : bool := negb ((c =? c_nl) || (c =? c_cr) || (c =? c_semi)).

(* group 2 starting exactly at [s]: the lazy [^\n\r;]+? can only stop at the end of
   the run (a shorter stop would leave a run character in front of SEMIS $ ) *)
Definition try_group (s : str) : option str :=
  match cspan is_gchar s with
  | O => None
  | n =>
      let rest := skipn n s in
      let rest' := skipn (cspan (N.eqb c_semi) rest) rest in
      if at_dollar_end rest' then Some (firstn n s) else None
  end.

(* the greedy \s* after ':' gives back characters one at a time *)
Fixpoint try_group_back (s : str) (k : nat) : option str :=
  match try_group (skipn k s) with
  | Some g => Some g
  | None => match k with O => None | S k' => try_group_back s k' end
  end.

(* Some (property, group 2) when the regex matches *)
Definition re_property_match (value : str) : option (str * option str) :=
  match cspan is_az_dash value with
  | O => None
  | n =>
      let name := firstn n value in
      let rest := skipn n value in
      let after_ws := skipn (cspan is_py_space rest) rest in
      let with_group :=
        match after_ws with
        | c :: r => if c =? c_colon
                    then try_group_back r (cspan is_py_space r)
                    else None
        | [] => None
        end in
      match with_group with
      | Some g => Some (name, Some g)
      | None => if at_dollar_end rest then Some (name, None) else None
      end
  end.

(* str.split('|') *)
Fixpoint split_on (sep : char) (s : str) (cur : str) : list str :=
  match s with
  | [] => [rev cur]
  | c :: r => if c =? sep then rev cur :: split_on sep r [] else split_on sep r (c :: cur)
  end.

(* parse_value(value): props = parse(value.strip(), {'value': True});
   props[0].value if props else []   (repaired: an empty alternative used to raise IndexError) *)
Definition parse_value (value : str) : res (list cssvalue) :=
  let* props := css_parse true (strip value) in
  match props with
  | p :: _ => Ok (pvalue p)
  | [] => Ok []
  end.

Fixpoint map_res {A B} (f : A -> res B) (l : list A) : res (list B) :=
  match l with
  | [] => Ok []
  | x :: r => let* y := f x in let* ys := map_res f r in Ok (y :: ys)
  end.

(* collect_keywords(css_val, dest) *)
Definition collect_keyword (dest : kwdict) (v : cval) : kwdict :=
  match v with
  | VTok (CLiteral name) _ _ => dict_set name v dest
  | VFunc name _ => dict_set name v dest
  | VTok (CField name _) _ _ =>
      match strip name with
      | [] => dest
      | value => dict_set value (synth (CLiteral value)) dest
      end
  | _ => dest
  end.
Definition collect_keywords (dest : kwdict) (css_val : cssvalue) : kwdict :=
  fold_left collect_keyword css_val dest.

Definition create_snippet (key value : str) : res snippet :=
  match re_property_match value with
  | Some (prop, g2) =>
      let* parsed :=
        match g2 with
        | Some g => map_res parse_value (split_on c_pipe g [])      (* group 2 is never empty *)
        | None => Ok []
        end in
      let keywords := fold_left (fun d item => fold_left collect_keywords item d) parsed [] in
      Ok (SnProp key prop parsed keywords [])
  | None => Ok (SnRaw key value)
  end.

(* ---- nest: dependency graph over the snippets sorted by key *)
Definition is_sub_property (cur prev : str) : bool :=
  starts_with prev cur && Nat.ltb (length prev) (length cur) &&
  match skipn (length prev) cur with c :: _ => c =? c_dash | [] => false end.

(* stack entries: (key, property), top first.  Pops until a parent of [prop] is on top. *)
Fixpoint pop_to_parent (prop : str) (stack : list (str * str)) : list (str * str) :=
  match stack with
  | [] => []
  | (k, p) :: rest => if is_sub_property prop p then stack else pop_to_parent prop rest
  end.

(* (parent key, child key) in the order of prev.dependencies.append(cur) *)
Fixpoint nest_pairs (l : list snippet) (stack : list (str * str)) : list (str * str) :=
  match l with
  | [] => []
  | SnRaw _ _ :: r => nest_pairs r stack
  | SnProp key prop _ _ _ :: r =>
      match pop_to_parent prop stack with
      | (pk, pp) :: rest => (pk, key) :: nest_pairs r ((key, prop) :: (pk, pp) :: rest)
      | [] => nest_pairs r [(key, prop)]
      end
  end.

Definition keywords_of_key (l : list snippet) (key : str) : kwdict :=
  match find (fun s => str_eqb (sn_key s) key) l with
  | Some (SnProp _ _ _ kw _) => kw
  | _ => []
  end.

Definition nest (snippets : list snippet) : list snippet :=
  let sorted := sort_by sn_key snippets in
  let pairs := nest_pairs sorted [] in
  map (fun s =>
         match s with
         | SnProp key prop value kw _ =>
             SnProp key prop value kw
                    (map (fun pc => keywords_of_key sorted (snd pc))
                         (filter (fun pc => str_eqb (fst pc) key) pairs))
         | SnRaw _ _ => s
         end) sorted.

(* convert_snippets(config.snippets) *)
Definition convert_snippets (raw : list (str * str)) : res (list snippet) :=
  let* created := map_res (fun kv => create_snippet (fst kv) (snd kv)) raw in
  Ok (nest created).
