(* Model of emmet/stylesheet/score.py: calculate_score, bit-exact.
   Python's float arithmetic is IEEE-754 binary64, the same as Coq's primitive
   floats; int/int true division of small integers equals the float division of
   their conversions.  Imports PrimFloat and Uint63 only.  Definitions only.

   str.lower() is exact on ASCII and the identity elsewhere (lib/Base.v). *)
From Coq Require Import PrimFloat Uint63.
From Emmet Require Import lib.Base.

Definition f_of_nat (n : nat) : float := PrimFloat.of_uint63 (Uint63.of_Z (Z.of_nat n)).
Definition f_zero : float := f_of_nat 0.
Definition f_one : float := f_of_nat 1.
Definition f_two : float := f_of_nat 2.

(* n_sum(n) = n * (n + 1) / 2   (true division: a float) *)
Definition n_sum (n : nat) : float := PrimFloat.div (f_of_nat (n * (n + 1))) f_two.

(* inner while loop: scan str2 from index j for ch1.
   Returns None (not found: j ran to the end) or Some (j, acronym, rest of str2
   from j on) -- j is NOT advanced past the match, exactly as in the source *)
Fixpoint score_scan (ch1 : char) (acronym : bool) (j : nat) (s2 : str) : option (nat * bool * str) :=
  match s2 with
  | [] => None
  | ch2 :: r =>
      if (ch1 =? ch2)%N then Some (j, acronym, s2)
      else score_scan ch1 (ch2 =? c_dash)%N (S j) r
  end.

(* outer while loop over str1[i:]; returns (score, i, completed) where completed =
   false when a character was not found *)
Fixpoint score_loop (max_length : nat) (s1 : str) (i j : nat) (s2 : str) (score : nat) : nat * nat * bool :=
  match s1 with
  | [] => (score, i, true)
  | ch1 :: r1 =>
      match score_scan ch1 false j s2 with
      | Some (j', acronym, s2') =>
          score_loop max_length r1 (S i) j' s2' (score + (max_length - (if acronym then i else j')))
      | None => (score, i, false)
      end
  end.

Definition calculate_score (str1 str2 : str) (partial_match : bool) : float :=
  let s1 := lower str1 in
  let s2 := lower str2 in
  if str_eqb s1 s2 then f_one
  else
    match s1, s2 with
    | c1 :: r1, c2 :: r2 =>
        if negb (c1 =? c2)%N then f_zero
        else
          let l1 := length s1 in
          let l2 := length s2 in
          if negb partial_match && Nat.ltb l2 l1 then f_zero
          else
            let min_length := Nat.min l1 l2 in
            let max_length := Nat.max l1 l2 in
            let '(score, i, completed) := score_loop max_length r1 1 1 r2 max_length in
            if negb completed && negb partial_match then f_zero
            else
              let match_ratio := PrimFloat.div (f_of_nat i) (f_of_nat max_length) in
              let delta := (max_length - min_length)%nat in
              let max_score := PrimFloat.sub (n_sum max_length) (n_sum delta) in
              PrimFloat.div (PrimFloat.mul (f_of_nat score) match_ratio) max_score
    | _, _ => f_zero
    end.

(* float comparisons used by find_best_match *)
Definition f_eqb (a b : float) : bool := PrimFloat.eqb a b.
Definition f_leb (a b : float) : bool := PrimFloat.leb a b.
Definition f_is_zero (a : float) : bool := PrimFloat.eqb a f_zero.
