(* Model of emmet/html_matcher/scan.py, utils.py, attributes.py and the parts of
   emmet/scanner_utils.py they use (eat_quoted, eat_pair).  Definitions only.

   Shape.  Every consumer looks at the remaining input [s] (what the Python
   Scanner sees between scanner.pos and scanner.end) and returns how many
   characters it consumed ([None] = returned False with the position restored).
   Loops are structural recursion on the input with a skip counter.  The scanner
   is an *event producer*: the callbacks of match/balanced_* only decide when to
   stop, so [scan] returns the events in order together with the internal error
   (if any) that Python would raise when the scan got that far. *)
From Emmet Require Import lib.Base gen.GenHtml.
Local Open Scope N_scope.

Inductive etype := EOpen | EClose | ESelfClose.
Record event := mkEv { ev_name : str; ev_type : etype; ev_start : N; ev_end : N }.

(* ScannerOptions *)
Record opts := mkOpts {
  o_xml : bool;
  o_special : list (str * option (list str));   (* dict; None = value is not a list *)
  o_empty : list str }.
Definition default_opts : opts := mkOpts false default_special default_empty.

(* ------------------------------------------------------------------ small helpers *)
Fixpoint span (p : char -> bool) (s : str) : nat :=
  match s with
  | c :: r => if p c then S (span p r) else O
  | [] => O
  end.
Definition peek_is (c : char) (s : str) : bool := match s with x :: _ => x =? c | [] => false end.
Definition orelse (a : option nat) (b : unit -> option nat) : option nat :=
  match a with Some _ => a | None => b tt end.

(* ------------------------------------------------------------------ scanner_utils.py *)
(* eat_quoted: the loop after the opening quote [q]; [esc] = previous character
   was the escape character (Python: scanner.eat(escape); scanner.pos += 1 steps
   over the escaped character, possibly past the end, which then fails) *)
Fixpoint quoted_body (q : char) (esc : bool) (s : str) (off : nat) : option nat :=
  match s with
  | [] => None
  | c :: r =>
      if esc then quoted_body q false r (S off)
      else if c =? q then Some (S off)
      else if c =? html_escape_char then quoted_body q true r (S off)
      else quoted_body q false r (S off)
  end.
Definition eat_quoted (s : str) : option nat :=
  match s with
  | c :: r => if is_quote c then quoted_body c false r 1 else None
  | [] => None
  end.

(* eat_pair: the loop after the opening character; [depth] = stack - 1 *)
Fixpoint pair_body (o c : char) (skip : nat) (depth : nat) (s : str) (off : nat) : option nat :=
  match s with
  | [] => None
  | x :: r =>
      match skip with
      | S k => pair_body o c k depth r (S off)
      | O =>
          match eat_quoted s with
          | Some n => pair_body o c (pred n) depth r (S off)
          | None =>
              if x =? o then pair_body o c 0 (S depth) r (S off)
              else if x =? c then
                match depth with
                | O => Some (S off)
                | S d => pair_body o c 0 d r (S off)
                end
              else if x =? html_escape_char then pair_body o c 1 depth r (S off)
              else pair_body o c 0 depth r (S off)
          end
      end
  end.
Definition eat_pair (o c : char) (s : str) : option nat :=
  match s with
  | x :: r => if x =? o then pair_body o c 0 0 r 1 else None
  | [] => None
  end.

(* ------------------------------------------------------------------ utils.py *)
(* name_start_char / name_char: the complete productions [4] NameStartChar and [4a] NameChar of XML 1.0
   (5th edition) section 2.3, alternative by alternative in the order of the code (Python strings are
   sequences of code points, so the astral range is an ordinary range).  `is_number` is str.isdecimal:
   wider than [0-9], but every other decimal digit is a NameStartChar already (proofs/XmlNames.v). *)
Definition name_start_char (c : char) : bool :=
  is_alpha c || (c =? c_colon) || (c =? c_under)
  || in_range 192 214 c          (* 0xC0 .. 0xD6 *)
  || in_range 216 246 c          (* 0xD8 .. 0xF6 *)
  || in_range 248 767 c          (* 0xF8 .. 0x2FF *)
  || in_range 880 893 c          (* 0x370 .. 0x37D *)
  || in_range 895 8191 c         (* 0x37F .. 0x1FFF *)
  || in_range 8204 8205 c        (* 0x200C .. 0x200D *)
  || in_range 8304 8591 c        (* 0x2070 .. 0x218F *)
  || in_range 11264 12271 c      (* 0x2C00 .. 0x2FEF *)
  || in_range 12289 55295 c      (* 0x3001 .. 0xD7FF *)
  || in_range 63744 64975 c      (* 0xF900 .. 0xFDCF *)
  || in_range 65008 65533 c      (* 0xFDF0 .. 0xFFFD *)
  || in_range 65536 983039 c.    (* 0x10000 .. 0xEFFFF *)
Definition name_char (c : char) : bool :=
  name_start_char c || (c =? c_dash) || (c =? c_dot) || is_number c
  || (c =? 183)                  (* 0xB7 *)
  || in_range 768 879 c          (* 0x300 .. 0x36F *)
  || in_range 8255 8256 c.       (* 0x203F .. 0x2040 *)

Definition ident (s : str) : option nat :=
  match s with
  | c :: r => if name_start_char c then Some (S (span name_char r)) else None
  | [] => None
  end.

Definition is_terminator (c : char) : bool := (c =? c_gt) || (c =? c_slash).
Definition is_unquoted (c : char) : bool := negb (is_quote c) && negb (is_space c) && negb (is_terminator c).

Definition consume_paired (s : str) : option nat :=
  orelse (eat_pair c_lt c_gt s) (fun _ =>
  orelse (eat_pair c_lparen c_rparen s) (fun _ =>
  orelse (eat_pair c_lbrack c_rbrack s) (fun _ =>
  eat_pair c_lbrace c_rbrace s))).

(* consume_array(scanner, codes) *)
Definition consume_array (codes : str) (s : str) : option nat :=
  if starts_with codes s then Some (length codes) else None.

(* the loop of consume_section after the prefix: offset just after the first
   occurrence of [suffix], or the end of input (allow_unclosed=True) *)
Fixpoint section_body (suffix : str) (s : str) (off : nat) : nat :=
  match s with
  | [] => off
  | _ :: r => if starts_with suffix s then (off + length suffix)%nat else section_body suffix r (S off)
  end.
Definition consume_section (prefix suffix : str) (s : str) : option nat :=
  if starts_with prefix s
  then Some (section_body suffix (skipn (length prefix) s) (length prefix))
  else None.

(* get_unquoted_value(value): value[-1] raises IndexError on '' *)
Definition get_unquoted_value (v : str) : res str :=
  let v1 := match v with c :: r => if is_quote c then r else v | [] => v end in
  match rev v1 with
  | [] => Internal IK_Index
  | l :: _ => Ok (if is_quote l then removelast v1 else v1)
  end.

(* ------------------------------------------------------------------ attributes.py *)
Definition attribute_name (s : str) : option nat :=
  match s with
  | c :: r =>
      if (c =? c_star) || (c =? c_hash)
      then Some (S (match ident r with Some n => n | None => O end))
      else orelse (consume_paired s) (fun _ => ident s)
  | [] => None
  end.

Definition unquoted (s : str) : option nat :=
  match span is_unquoted s with O => None | n => Some n end.

Definition attribute_value (s : str) : option nat :=
  orelse (eat_quoted s) (fun _ => orelse (consume_paired s) (fun _ => unquoted s)).

(* one attribute starting at [s] (after leading white space has been skipped):
   name length, and for `=value` the value length; [used] = characters consumed *)
Record araw := mkARaw { ar_name : nat; ar_value : option nat; ar_used : nat }.
Definition attribute_at (s : str) : option araw :=
  match attribute_name s with
  | None => None
  | Some n =>
      let s2 := skipn n s in
      if peek_is c_eq s2 then
        match attribute_value (tl s2) with
        | Some v => Some (mkARaw n (Some v) (n + 1 + v))
        | None => Some (mkARaw n None (n + 1))
        end
      else Some (mkARaw n None n)
  end.

(* AttributeToken; ranges are offsets into the string given to attributes() *)
Record attr := mkAttr {
  a_name : str; a_ns : N; a_ne : N;
  a_value : option (str * N * N) }.

(* the while loop of attributes(): [pos] = offset of the head of [s] *)
Fixpoint attrs_go (skip : nat) (pos : N) (s : str) : list attr :=
  match s with
  | [] => []
  | _ :: r =>
      match skip with
      | S k => attrs_go k (pos + 1) r
      | O =>
          let sp := span is_space s in
          let s1 := skipn sp s in
          match attribute_at s1 with
          | Some a =>
              let ns := pos + N.of_nat sp in
              let ne := ns + N.of_nat (ar_name a) in
              let v := match ar_value a with
                       | Some vl => Some (firstn vl (skipn (ar_name a + 1) s1), ne + 1, ne + 1 + N.of_nat vl)
                       | None => None
                       end in
              mkAttr (firstn (ar_name a) s1) ns ne v :: attrs_go (pred (sp + ar_used a)) (pos + 1) r
          | None => attrs_go sp (pos + 1) r          (* scanner.pos += 1 after the spaces *)
          end
      end
  end.

Definition ends_with_slash_gt (s : str) : bool :=
  match rev s with
  | a :: b :: _ => (a =? c_gt) && (b =? c_slash)
  | _ => false
  end.

(* attributes(src, name): Scanner(src, start, end) *)
Definition attributes (src : str) (name : option str) : list attr :=
  let len := length src in
  let '(start, stop) :=
    match name with
    | Some nm =>
        match nm with
        | [] => (O, len)                                   (* `if name:` -- '' is falsy *)
        | _ :: _ => (S (length nm), (len - (if ends_with_slash_gt src then 2 else 1))%nat)
        end
    | None => (O, len)
    end in
  attrs_go 0 (N.of_nat start) (firstn (stop - start) (skipn start src)).

(* get_attribute_value(attrs, name): first attribute called [name] decides *)
Fixpoint get_attribute_value (attrs : list attr) (name : str) : res (option str) :=
  match attrs with
  | [] => Ok None
  | a :: rest =>
      if str_eqb (a_name a) name then
        match a_value a with
        | None => Ok None
        | Some ([], _, _) => Ok (Some [])             (* attr.value and ... : '' is falsy *)
        | Some (v, _, _) => let* u := get_unquoted_value v in Ok (Some u)
        end
      else get_attribute_value rest name
  end.

(* ------------------------------------------------------------------ scan.py *)
(* skip_attributes: returns the offset at which the loop leaves the scanner;
   it can be one past the end (scanner.pos += 1 at end of input) *)
Fixpoint skip_attributes (skip : nat) (off : nat) (s : str) : nat :=
  match s with
  | [] => (off + skip)%nat
  | _ :: r =>
      match skip with
      | S k => skip_attributes k (S off) r
      | O =>
          let sp := span is_space s in
          let s1 := skipn sp s in
          match attribute_at s1 with
          | Some a => skip_attributes (pred (sp + ar_used a)) (S off) r
          | None =>
              match s1 with
              | c :: _ => if is_terminator c then (off + sp)%nat else skip_attributes sp (S off) r
              | [] => skip_attributes sp (S off) r
              end
          end
      end
  end.

Definition type_name : str := [116; 121; 112; 101].   (* 'type' *)

(* is_special(special, name, source, start, end); [frag] = source[start+len(name)+1 : end-1] *)
Definition is_special (special : list (str * option (list str))) (name : str) (frag : str) : res bool :=
  match assoc_str name special with
  | None => Ok false
  | Some None => Ok true
  | Some (Some type_values) =>
      let* v := get_attribute_value (attributes frag None) type_name in
      Ok (mem_str (opt_default [] v) type_values)
  end.

(* the skip loop after a special open tag: offset of the first `</name>` *)
Fixpoint find_closing (pat : str) (s : str) (off : nat) : option nat :=
  match s with
  | [] => None
  | _ :: r => if starts_with pat s then Some off else find_closing pat r (S off)
  end.

(* events of one round, with offsets relative to the current position *)
Record rev_ := mkRev { r_name : str; r_type : etype; r_start : nat; r_end : nat }.

Inductive step_res :=
| Step (consumed : nat) (evs : list rev_)
| StepErr (evs : list rev_) (k : N).          (* events reported before Python raises *)

(* `if scanner.eat('<'): ...` with [s] = '<' :: _ *)
Definition tag_step (special : list (str * option (list str))) (s : str) : step_res :=
  let close := peek_is c_slash (skipn 1 s) in
  let o1 := if close then 2%nat else 1%nat in
  match ident (skipn o1 s) with
  | None => Step o1 []
  | Some nl =>
      let name := firstn nl (skipn o1 s) in
      let o2 := (o1 + nl)%nat in
      let '(ty, o3) :=
        if close then (EClose, o2)
        else
          let o_attr := (o2 + skip_attributes 0 0 (skipn o2 s))%nat in
          let o_sp := (o_attr + span is_space (skipn o_attr s))%nat in
          if peek_is c_slash (skipn o_sp s) then (ESelfClose, S o_sp) else (EOpen, o_sp) in
      if peek_is c_gt (skipn o3 s) then
        let en := S o3 in
        let ev := mkRev name ty 0 en in
        match ty, special with
        | EOpen, _ :: _ =>
            match is_special special name (firstn (en - 1 - (nl + 1)) (skipn (nl + 1) s)) with
            | Ok true =>
                let pat := c_lt :: c_slash :: name ++ [c_gt] in
                match find_closing pat (skipn en s) en with
                | Some cs => let ce := (cs + length pat)%nat in Step ce [ev; mkRev name EClose cs ce]
                | None => Step (length s) [ev]
                end
            | Ok false => Step en [ev]
            | ParseErr _ _ => StepErr [ev] IK_Exception
            | Internal k => StepErr [ev] k
            | OutOfFuel => StepErr [ev] IK_Exception
            end
        | _, _ => Step en [ev]
        end
      else Step o3 []
  end.

(* processing_instruction: the loop after `<?` *)
Fixpoint pi_body (skip : nat) (s : str) (off : nat) : nat :=
  match s with
  | [] => (off + skip)%nat
  | _ :: r =>
      match skip with
      | S k => pi_body k r (S off)
      | O =>
          if starts_with pi_end s then (off + length pi_end)%nat
          else match eat_quoted s with
               | Some n => pi_body (pred n) r (S off)
               | None => pi_body 0 r (S off)
               end
      end
  end.
Definition processing_instruction (s : str) : option nat :=
  if starts_with pi_start s
  then Some (pi_body 0 (skipn (length pi_start) s) (length pi_start))
  else None.

Definition cdata (s : str) : option nat := consume_section cdata_open cdata_close s.
Definition comment (s : str) : option nat := consume_section comment_open comment_close s.

(* one round of the main loop; [s] is not empty *)
Definition step (special : list (str * option (list str))) (s : str) : step_res :=
  match orelse (cdata s) (fun _ => orelse (comment s) (fun _ => processing_instruction s)) with
  | Some n => Step n []
  | None =>
      if peek_is c_lt s then tag_step special s else Step 1 []
  end.

Definition abs_ev (pos : N) (e : rev_) : event :=
  mkEv (r_name e) (r_type e) (pos + N.of_nat (r_start e)) (pos + N.of_nat (r_end e)).

(* scan: events in order, and the internal error raised after them (if any) *)
Fixpoint scan_go (special : list (str * option (list str))) (skip : nat) (pos : N) (s : str)
  : list event * option N :=
  match s with
  | [] => ([], None)
  | _ :: r =>
      match skip with
      | S k => scan_go special k (pos + 1) r
      | O =>
          match step special s with
          | Step n evs =>
              let '(l, err) := scan_go special (pred n) (pos + 1) r in
              (map (abs_ev pos) evs ++ l, err)
          | StepErr evs k => (map (abs_ev pos) evs, Some k)
          end
      end
  end.

Definition scan (special : list (str * option (list str))) (s : str) : list event * option N :=
  scan_go special 0 0 s.
