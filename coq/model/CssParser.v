(* Model of emmet/css_abbreviation/parser.py (+ css_abbreviation.parse).
   Follows the Python function by function; the TokenScanner is the list of
   remaining tokens.  Definitions only.

   Loops over tokens with nesting use explicit fuel ([OutOfFuel] is excluded by
   the safety theorems of C07: [parser_fuel] always suffices). *)
From Emmet Require Import lib.Base lib.StyleLib model.CssTokenizer.

(* A value inside a CSSValue: a token (with its start/end, None for tokens the
   resolver creates itself) or a FunctionCall.  CSSValue = list cval;
   FunctionCall.arguments = list of CSSValue. *)
Inductive cval :=
| VTok (k : ckind) (st en : option nat)
| VFunc (name : str) (args : list (list cval)).

Definition cssvalue := list cval.

Record cssprop := mkProp {
  pname : option str;             (* None or a non-empty name *)
  pvalue : list cssvalue;
  pimportant : bool;
  psnippet : bool                 (* node.snippet is not None *)
}.

Definition tokv (t : ctoken) : cval := VTok (ck t) (Some (cstart t)) (Some (cend t)).
(* a token made by the resolver: tokens.Literal(x), tokens.Field(..) -- no positions *)
Definition synth (k : ckind) : cval := VTok k None None.

(* -------- token tests *)
Definition k_is_literal (k : ckind) : bool := match k with CLiteral _ => true | _ => false end.
Definition k_is_bracket (k : ckind) : bool := match k with CBracket _ => true | _ => false end.
Definition k_is_open_bracket (k : ckind) : bool := match k with CBracket true => true | _ => false end.
Definition k_is_close_bracket (k : ckind) : bool := match k with CBracket false => true | _ => false end.
Definition k_is_white_space (k : ckind) : bool := match k with CWhiteSpace => true | _ => false end.
Definition k_is_operator (op : char) (k : ckind) : bool :=
  match k with COperator o => (o =? op)%N | _ => false end.
Definition k_is_sibling := k_is_operator c_plus.
Definition k_is_argument_delimiter := k_is_operator c_comma.
Definition k_is_fragment_delimiter := k_is_argument_delimiter.
Definition k_is_important := k_is_operator c_excl.
Definition k_is_value_delimiter (k : ckind) : bool := k_is_operator c_colon k || k_is_operator c_dash k.
Definition k_is_value (k : ckind) : bool :=
  match k with
  | CString _ _ | CColor _ _ _ _ _ | CNumber _ _ _ | CLiteral _ | CField _ _ | CCustomProperty _ => true
  | _ => false
  end.

(* scanner.error('Unexpected token'): position of the token at scanner.pos, None at the end *)
Definition tok_error {A} (ts : list ctoken) : res A :=
  match ts with
  | t :: _ => ParseErr EK_Token (Some (Z.of_nat (cstart t)))
  | [] => ParseErr EK_Token None
  end.

(* is_function_start(scanner): a literal directly followed by a bracket (open OR close) *)
Definition is_function_start (ts : list ctoken) : bool :=
  match ts with
  | t1 :: t2 :: _ => k_is_literal (ck t1) && k_is_bracket (ck t2)
  | _ => false
  end.

(* consume_value / consume_arguments *)
Fixpoint p_value (fuel : nat) (in_arg : bool) (ts : list ctoken) (acc : list cval) {struct fuel}
  : res (cssvalue * list ctoken) :=
  match fuel with
  | O => OutOfFuel
  | S f =>
      match ts with
      | [] => Ok (rev acc, [])
      | t :: ts' =>
          if k_is_value (ck t) then
            match ck t, ts' with
            | CLiteral name, b :: ts'' =>
                if k_is_open_bracket (ck b) then
                  let* (args, rest) := p_args f ts'' [] in
                  p_value f in_arg rest (VFunc name args :: acc)
                else p_value f in_arg ts' (tokv t :: acc)
            | _, _ => p_value f in_arg ts' (tokv t :: acc)
            end
          else if k_is_value_delimiter (ck t) || (in_arg && k_is_white_space (ck t))
          then p_value f in_arg ts' acc
          else Ok (rev acc, ts)
      end
  end
with p_args (fuel : nat) (ts : list ctoken) (acc : list cssvalue) {struct fuel}
  : res (list cssvalue * list ctoken) :=
  match fuel with
  | O => OutOfFuel
  | S f =>
      match ts with
      | [] => Ok (rev acc, [])                           (* unclosed '(' : no error *)
      | t :: ts' =>
          if k_is_close_bracket (ck t) then Ok (rev acc, ts')
          else
            let* (v, rest) := p_value f true ts [] in
            match v with
            | _ :: _ => p_args f rest (v :: acc)
            | [] =>
                match rest with
                | t2 :: rest' =>
                    if k_is_white_space (ck t2) || k_is_argument_delimiter (ck t2)
                    then p_args f rest' acc
                    else tok_error rest
                | [] => tok_error rest
                end
            end
      end
  end.

(* the while loop of consume_property *)
Fixpoint p_prop_loop (fuel : nat) (value_mode : bool) (ts : list ctoken) (important : bool)
         (vals : list cssvalue) : res (bool * list cssvalue * list ctoken) :=
  match fuel with
  | O => OutOfFuel
  | S f =>
      match ts with
      | [] => Ok (important, rev vals, [])
      | t :: ts' =>
          if k_is_important (ck t) then p_prop_loop f value_mode ts' true vals
          else
            let* (v, rest) := p_value (S (S (2 * length ts))) value_mode ts [] in
            match v with
            | _ :: _ => p_prop_loop f value_mode rest important (v :: vals)
            | [] =>
                match rest with
                | t2 :: rest' =>
                    if k_is_fragment_delimiter (ck t2)
                    then p_prop_loop f value_mode rest' important vals
                    else Ok (important, rev vals, rest)
                | [] => Ok (important, rev vals, rest)
                end
            end
      end
  end.

(* consume_property: None when nothing was consumed into a property *)
Definition p_property (value_mode : bool) (ts : list ctoken)
  : res (option cssprop * list ctoken) :=
  let '(name, ts1) :=
    match ts with
    | t :: ts' =>
        match ck t with
        | CLiteral v =>
            if negb value_mode && negb (is_function_start ts) then
              (Some v, match ts' with
                       | d :: ts'' => if k_is_value_delimiter (ck d) then ts'' else ts'
                       | [] => ts'
                       end)
            else (None, ts)
        | _ => (None, ts)
        end
    | [] => (None, ts)
    end in
  let ts2 := if value_mode then
               match ts1 with
               | w :: r => if k_is_white_space (ck w) then r else ts1
               | [] => ts1
               end
             else ts1 in
  let* (imp, vals, rest) := p_prop_loop (S (2 * length ts2)) value_mode ts2 false [] in
  match name, vals, imp with
  | None, [], false => Ok (None, rest)
  | _, _, _ => Ok (Some (mkProp name vals imp false), rest)
  end.

Fixpoint p_loop (fuel : nat) (value_mode : bool) (ts : list ctoken) (acc : list cssprop)
  : res (list cssprop) :=
  match fuel with
  | O => OutOfFuel
  | S f =>
      match ts with
      | [] => Ok (rev acc)
      | _ :: _ =>
          let* (po, rest) := p_property value_mode ts in
          match po with
          | Some p => p_loop f value_mode rest (p :: acc)
          | None =>
              match rest with
              | t :: rest' => if k_is_sibling (ck t) then p_loop f value_mode rest' acc else tok_error rest
              | [] => tok_error rest
              end
          end
      end
  end.

Definition parser (value_mode : bool) (ts : list ctoken) : res (list cssprop) :=
  p_loop (S (length ts)) value_mode ts [].

(* css_abbreviation.parse(abbr, {'value': value_mode}) *)
Definition css_parse (value_mode : bool) (abbr : str) : res (list cssprop) :=
  match ctokenize value_mode abbr with
  | CTOk ts => parser value_mode ts
  | CTErr p => ParseErr EK_Scanner (Some (Z.of_nat p))
  | CTInternal k => Internal k
  end.
