(* Model of emmet/css_matcher/scan.py (and the Scanner methods it uses).
   Follows the Python function by function.  Definitions only.

   scan(source, callback) is modelled as an *event producer*: [scan s] is the list
   of (type, start, end, delimiter) tuples the callback would receive if it never
   asked to stop.  A callback returning False only stops the consumption of that
   list (scan itself has no other effect and raises nothing: every string access
   is guarded by `pos < end` in Scanner.peek), so the consumers in CssMatch.v /
   CssActions.v are folds with early exit over this list.

   Shape of the main loop: one round of `while not scanner.eof()` looks at the
   remaining input (what Python sees from scanner.pos on) and reports how many
   characters it consumed; the loop is structural recursion on the input with a
   skip counter (no fuel).  Positions and the -1 sentinels are Z. *)
From Emmet Require Import lib.Base.
Local Open Scope Z_scope.

Inductive ttype := Selector | PropertyName | PropertyValue | BlockEnd.
Record event := mkEv { ety : ttype; estart : Z; eend : Z; edelim : Z }.

(* class ScanState *)
Record sstate := mkSt {
  st_start : Z;      (* start of currently consumed token, -1 = none *)
  st_end : Z;        (* end of currently consumed token *)
  st_pdelim : Z;     (* location of possible property delimiter *)
  st_pstart : Z;     (* location of possible property start *)
  st_pend : Z;       (* location of possible property end *)
  st_expr : Z;       (* expression (parenthesis) depth; may go negative *)
  st_sel : Z         (* selector_start: colon that precedes the first token (`:root`) *)
}.
Definition st0 : sstate := mkSt (-1) (-1) (-1) (-1) (-1) 0 (-1).
(* ScanState.reset(): everything but `expression` *)
Definition st_reset (st : sstate) : sstate := mkSt (-1) (-1) (-1) (-1) (-1) (st_expr st) (-1).
Definition truthyZ (z : Z) : bool := negb (z =? 0).

(* -------- Scanner helpers on the remaining input *)
Fixpoint cspan (p : char -> bool) (s : str) : nat :=
  match s with
  | c :: r => if p c then S (cspan p r) else O
  | [] => O
  end.

(* body of comment(): after "/*", up to and including "*/" or to the end of input *)
Fixpoint comment_body (s : str) : nat :=
  match s with
  | [] => O
  | c :: r =>
      if (c =? c_star)%N then
        match r with
        | c2 :: _ => if (c2 =? c_slash)%N then 2%nat else S (comment_body r)
        | [] => 1%nat
        end
      else S (comment_body r)
  end.
(* comment(scanner): number of characters consumed, 0 = returns False (pos restored) *)
Definition comment_len (s : str) : nat :=
  match s with
  | c1 :: c2 :: r => if ((c1 =? c_slash) && (c2 =? c_star))%N then (2 + comment_body r)%nat else O
  | _ => O
  end.

(* loop of literal() after the opening quote [q] *)
Fixpoint lit_body (q : char) (s : str) : nat :=
  match s with
  | [] => O
  | c :: r =>
      if ((c =? q) || (c =? c_nl) || (c =? c_cr))%N then 1%nat
      else if (c =? c_bslash)%N then
        (* scanner.eat('\\'); then skip the escaped character if there is one *)
        match r with
        | [] => 1%nat
        | _ :: r' => (2 + lit_body q r')%nat
        end
      else S (lit_body q r)
  end.
(* literal(scanner): characters consumed; 0 = not at a quote (returns None) *)
Definition literal_len (s : str) : nat :=
  match s with
  | c :: r => if is_quote c then S (lit_body c r) else O
  | [] => O
  end.

(* -------- the final `else:` branch of the loop.  [c] = characters (colons) the
   failed `elif scanner.eat(':') and not is_known_selector_colon(...)` test has
   already consumed (scanner.pos - scanner.start).  When c > 0 those colons are the
   token of this round; otherwise one `(`, `)`, string literal or character is
   consumed ([s] is not empty: the loop condition is `not scanner.eof()`). *)
Definition else_branch (st : sstate) (pos : Z) (c : nat) (s : str) : nat * sstate :=
  (* `state.start = scanner.start`: where this round started, colons included *)
  let start := if st_start st =? -1 then pos else st_start st in
  let '(n, expr) :=
    match c with
    | S _ => (c, st_expr st)
    | O =>
        match s with
        | [] => (O, st_expr st)
        | ch :: _ =>
            if (ch =? c_lparen)%N then (1%nat, st_expr st + 1)
            else if (ch =? c_rparen)%N then (1%nat, st_expr st - 1)
            else if is_quote ch then (literal_len s, st_expr st)
            else (1%nat, st_expr st)
        end
    end in
  (n, mkSt start (pos + Z.of_nat n) (st_pdelim st) (st_pstart st) (st_pend st) expr (st_sel st)).

(* `}` / `;` branch *)
Definition end_branch (st : sstate) (pos : Z) (block_end : bool) : sstate * list event :=
  let evs1 :=
    if negb (st_pstart st =? -1) then
      (* pending property; an explicit empty value when nothing follows the colon *)
      let '(vs, ve) := if st_start st =? -1 then (pos, pos) else (st_start st, st_end st) in
      [mkEv PropertyName (st_pstart st) (st_pend st) (st_pdelim st); mkEv PropertyValue vs ve pos]
    else if negb (st_start st =? -1) then
      [mkEv PropertyName (st_start st) (st_end st) pos]    (* flush consumed token *)
    else [] in
  let evs2 := if block_end then [mkEv BlockEnd pos (pos + 1) pos] else [] in
  (st_reset st, evs1 ++ evs2).

(* `{` branch *)
Definition open_branch (st : sstate) (pos : Z) : sstate * list event :=
  let '(s1, e1) :=
    if (st_start st =? -1) && (st_pstart st =? -1) then (pos + 1, pos + 1) else (st_start st, st_end st) in
  let '(s2, e2) :=
    if negb (st_pstart st =? -1) then
      (st_pstart st, if e1 =? -1 then st_pdelim st + 1 else e1)
    else (s1, e1) in
  let s3 := if negb (st_sel st =? -1) then st_sel st else s2 in
  (st_reset st, [mkEv Selector s3 e2 pos]).

(* `:` that is a possible property delimiter *)
Definition colon_branch (st : sstate) (pos : Z) : sstate :=
  mkSt (-1) (-1) pos
       (if st_pstart st =? -1 then st_start st else st_pstart st)
       (if st_end st =? -1 then st_pend st else st_end st)
       (st_expr st)
       (if (st_start st =? -1) && (st_pstart st =? -1) && (st_sel st =? -1) then pos else st_sel st).

(* one round of the while loop at [pos] over the non-empty remaining input [s]:
   (characters consumed, new state, events emitted) *)
Definition scan_round (st : sstate) (pos : Z) (s : str) : nat * sstate * list event :=
  match comment_len s with
  | S k => (S k, st, [])
  | O =>
    match cspan is_space s with
    | S k => (S k, st, [])
    | O =>
      match s with
      | [] => (O, st, [])
      | c :: r =>
          if (c =? c_rbrace)%N then let '(st', evs) := end_branch st pos true in (1%nat, st', evs)
          else if (c =? c_semi)%N then let '(st', evs) := end_branch st pos false in (1%nat, st', evs)
          else if (c =? c_lbrace)%N then let '(st', evs) := open_branch st pos in (1%nat, st', evs)
          else if (c =? c_colon)%N then
            (* is_known_selector_colon: state.expression or scanner.eat_while(':') *)
            if truthyZ (st_expr st) then let '(n, st') := else_branch st pos 1 s in (n, st', [])
            else
              match cspan (N.eqb c_colon) r with
              | O => (1%nat, colon_branch st pos, [])
              | S k => let '(n, st') := else_branch st pos (2 + k) s in (n, st', [])
              end
          else let '(n, st') := else_branch st pos 0 s in (n, st', [])
      end
    end
  end.

(* after the loop *)
Definition scan_eof (st : sstate) : list event :=
  (if negb (st_pstart st =? -1) then [mkEv PropertyName (st_pstart st) (st_pend st) (st_pdelim st)] else [])
  ++
  (if negb (st_start st =? -1) then
     [mkEv (if negb (st_pstart st =? -1) then PropertyValue else PropertyName) (st_start st) (st_end st) (-1)]
   else []).

Fixpoint scan_go (skip : nat) (st : sstate) (pos : Z) (s : str) : list event :=
  match s with
  | [] => scan_eof st
  | _ :: r =>
      match skip with
      | S k => scan_go k st (pos + 1) r
      | O =>
          let '(n, st', evs) := scan_round st pos s in
          evs ++ scan_go (pred n) st' (pos + 1) r
      end
  end.

Definition scan (s : str) : list event := scan_go 0 st0 0 s.
