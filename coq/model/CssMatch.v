(* Model of emmet/css_matcher/__init__.py: match, balanced_outward, balanced_inward,
   inner_range, push.  Each scan callback is a fold with early exit over the event
   list of CssScan.scan.  Object pools (alloc_range / release_range / InwardRange
   pool) are modelled as plain values: a released object is never referenced again
   by the code (checked by the correspondence run).  Python lists used as stacks
   are modelled with the top at the head.  Definitions only. *)
From Emmet Require Import lib.Base model.CssScan.
Local Open Scope Z_scope.

Definition rng3 := (Z * Z * Z)%type.          (* [start, end, delimiter] *)
Definition r_start (r : rng3) : Z := fst (fst r).
Definition r_end (r : rng3) : Z := snd (fst r).
Definition r_delim (r : rng3) : Z := snd r.
Definition range := (Z * Z)%type.

(* `delimiter + 1 if delimiter != -1 else end` *)
Definition decl_end (delim e : Z) : Z := if delim =? -1 then e else delim + 1.

(* -------- match *)
Record match_result := mkMR {
  mr_prop : bool;          (* true = 'property', false = 'selector' *)
  mr_start : Z; mr_end : Z; mr_bstart : Z; mr_bend : Z
}.

Fixpoint match_go (pos : Z) (stack : list rng3) (pending : option rng3) (evs : list event)
  : option match_result :=
  match evs with
  | [] => None
  | e :: r =>
      match ety e with
      | Selector => match_go pos ((estart e, eend e, edelim e) :: stack) None r
      | BlockEnd =>
          match stack with
          | [] => match_go pos [] None r
          | p :: st =>
              if (r_start p <? pos) && (pos <? eend e)
              then Some (mkMR false (r_start p) (eend e) (r_delim p + 1) (estart e))
              else match_go pos st None r
          end
      | PropertyName => match_go pos stack (Some (estart e, eend e, edelim e)) r
      | PropertyValue =>
          let prop_end := decl_end (edelim e) (eend e) in
          match pending with
          | Some p =>
              if (r_start p <? pos) && (pos <? prop_end)
              then Some (mkMR true (r_start p) prop_end (estart e) (eend e))
              else match_go pos stack None r
          | None => match_go pos stack None r
          end
      end
  end.
Definition match_events (evs : list event) (pos : Z) : option match_result := match_go pos [] None evs.
Definition css_match (s : str) (pos : Z) : option match_result := match_events (scan s) pos.

(* -------- source[i] with Python's index semantics *)
Definition py_index (s : str) (i : Z) : res char :=
  let n := Z.of_nat (length s) in
  let j := if i <? 0 then i + n else i in
  if (j <? 0) || (n <=? j) then Internal IK_Index
  else match nth_error s (Z.to_nat j) with
       | Some c => Ok c
       | None => Internal IK_Index
       end.

(* inner_range: the two while loops; fuel = distance between the bounds *)
Fixpoint trim_left (fuel : nat) (s : str) (a b : Z) : res Z :=
  if a <? b then
    match fuel with
    | O => OutOfFuel
    | S f => let* c := py_index s a in
             if is_space c then trim_left f s (a + 1) b else Ok a
    end
  else Ok a.
Fixpoint trim_right (fuel : nat) (s : str) (a b : Z) : res Z :=
  if negb (b =? 0) && (a <? b) then
    match fuel with
    | O => OutOfFuel
    | S f => let* c := py_index s (b - 1) in
             if is_space c then trim_right f s a (b - 1) else Ok b
    end
  else Ok b.
Definition inner_range (s : str) (a b : Z) : res (option range) :=
  let fuel := Z.to_nat (b - a) in
  let* a' := trim_left fuel s a b in
  let* b' := trim_right fuel s a' b in
  Ok (if a' <? b' then Some (a', b') else None).

(* push(ranges, r); the result list is kept reversed (last pushed first) *)
Definition push (acc : list range) (r : range) : list range :=
  let fresh := match acc with
               | [] => true
               | p :: _ => negb (fst p =? fst r) || negb (snd p =? snd r)
               end in
  if fresh && negb (fst r =? snd r) then r :: acc else acc.
Definition push_opt (acc : list range) (o : option range) : list range :=
  match o with Some r => push acc r | None => acc end.

(* -------- balanced_outward *)
Fixpoint outward_go (s : str) (pos : Z) (stack : list rng3) (prop : option rng3) (acc : list range)
         (evs : list event) : res (list range) :=
  match evs with
  | [] => Ok (rev acc)
  | e :: r =>
      match ety e with
      | Selector => outward_go s pos ((estart e, eend e, edelim e) :: stack) None acc r
      | BlockEnd =>
          let '(top, st) := match stack with [] => (None, []) | p :: st0 => (Some p, st0) end in
          let* acc' :=
            match top with
            | Some p =>
                if (r_start p <? pos) && (pos <? eend e) then
                  let* inner := inner_range s (r_delim p + 1) (estart e) in
                  Ok (push (push_opt acc inner) (r_start p, eend e))
                else Ok acc
            | None => Ok acc
            end in
          match st, acc' with
          | [], _ :: _ => Ok (rev acc')          (* outermost matching section closed *)
          | _, _ => outward_go s pos st None acc' r
          end
      | PropertyName => outward_go s pos stack (Some (estart e, eend e, edelim e)) acc r
      | PropertyValue =>
          let prop_end := decl_end (edelim e) (eend e) in
          let acc' :=
            match prop with
            | Some p =>
                if (r_start p <? pos) && (pos <? prop_end)
                then push (push acc (estart e, eend e)) (r_start p, prop_end)
                else acc
            | None => acc
            end in
          outward_go s pos stack None acc' r
      end
  end.
Definition outward_events (s : str) (evs : list event) (pos : Z) : res (list range) :=
  outward_go s pos [] None [] evs.
Definition balanced_outward (s : str) (pos : Z) : res (list range) := outward_events s (scan s) pos.

(* -------- balanced_inward *)
Inductive irange := IR (start end_ delim : Z) (first_child : option irange).
Definition ir_start (r : irange) : Z := match r with IR a _ _ _ => a end.
Definition ir_end (r : irange) : Z := match r with IR _ b _ _ => b end.
Definition ir_delim (r : irange) : Z := match r with IR _ _ d _ => d end.
Definition ir_child (r : irange) : option irange := match r with IR _ _ _ c => c end.

(* the `while r.first_child:` loop of the matching branch *)
Fixpoint inward_chain (s : str) (c : irange) (acc : list range) : res (list range) :=
  match c with
  | IR a b d c' =>
      let* inner := inner_range s (d + 1) (b - 1) in
      let acc' := push_opt (push acc (a, b)) inner in
      match c' with
      | None => Ok acc'
      | Some r => inward_chain s r acc'
      end
  end.
Definition inward_chain_opt (s : str) (c : option irange) (acc : list range) : res (list range) :=
  match c with
  | None => Ok acc
  | Some r => inward_chain s r acc
  end.

(* push_child: first child of the selector on top of the stack, if not set yet *)
Definition push_child (stack : list irange) (a b d : Z) : list irange :=
  match stack with
  | IR pa pb pd None :: st => IR pa pb pd (Some (IR a b d None)) :: st
  | _ => stack
  end.

Fixpoint inward_go (s : str) (pos : Z) (stack : list irange) (pending : option rng3)
         (evs : list event) : res (list range) :=
  match evs with
  | [] => Ok []
  | e :: r =>
      match ety e with
      | BlockEnd =>
          match stack with
          | [] => inward_go s pos [] None r            (* lone closing brace *)
          | IR a _ d fc :: st =>
              if (a <=? pos) && (pos <=? eend e) then
                let* inner := inner_range s (d + 1) (estart e) in
                let* acc := inward_chain_opt s fc (push_opt (push [] (a, eend e)) inner) in
                Ok (rev acc)
              else
                match st with
                | IR pa pb pd None :: st' =>
                    (* no first child in parent: store the closed selector *)
                    inward_go s pos (IR pa pb pd (Some (IR a (eend e) d fc)) :: st') None r
                | _ => inward_go s pos st None r
                end
          end
      | PropertyName =>
          inward_go s pos (push_child stack (estart e) (eend e) (edelim e))
                    (Some (estart e, eend e, edelim e)) r
      | PropertyValue =>
          match pending with
          | Some p =>
              let prop_end := decl_end (edelim e) (eend e) in
              if (r_start p <=? pos) && (pos <=? eend e) then
                Ok (rev (push (push [] (r_start p, prop_end)) (estart e, eend e)))
              else
                let stack' :=
                  match stack with
                  | IR pa pb pd (Some (IR ca cb cd cc)) :: st =>
                      if ca =? r_start p then IR pa pb pd (Some (IR ca prop_end cd cc)) :: st else stack
                  | _ => stack
                  end in
                inward_go s pos stack' None r
          | None => inward_go s pos stack None r
          end
      | Selector => inward_go s pos (IR (estart e) (eend e) (edelim e) None :: stack) None r
      end
  end.
Definition inward_events (s : str) (evs : list event) (pos : Z) : res (list range) :=
  inward_go s pos [] None evs.
Definition balanced_inward (s : str) (pos : Z) : res (list range) := inward_events s (scan s) pos.
