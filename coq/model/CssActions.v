(* Model of emmet/action_utils/css.py: get_css_section (+parse_properties,
   CSSProperty), select_item_css (select_next_item / select_previous_item), and
   push_range of action_utils/utils.py.  Folds with early exit over CssScan.scan.
   Definitions only. *)
From Emmet Require Import lib.Base model.CssScan model.CssMatch model.CssParse.
Local Open Scope Z_scope.

(* code[a:b] with Python's slice semantics (negative indices count from the end,
   everything is clamped; never raises) *)
Definition py_slice_bound (n i : Z) : Z :=
  if i <? 0 then Z.max 0 (i + n) else Z.min i n.
Definition py_slice (s : str) (a b : Z) : str :=
  let n := Z.of_nat (length s) in
  let a' := py_slice_bound n a in
  let b' := py_slice_bound n b in
  firstn (Z.to_nat (b' - a')) (skipn (Z.to_nat a') s).

(* -------- get_css_section *)
Record css_property := mkCP {
  cp_name : range; cp_value : range; cp_tokens : list range; cp_before : Z; cp_after : Z
}.
Record css_section := mkCS {
  cs_start : Z; cs_end : Z; cs_bstart : Z; cs_bend : Z;
  cs_props : option (list css_property)       (* None: properties were not requested *)
}.

Fixpoint section_go (pos : Z) (stack : list rng3) (evs : list event) : option (Z * Z * Z * Z) :=
  match evs with
  | [] => None
  | e :: r =>
      if (pos <? estart e) && match stack with [] => true | _ => false end then None
      else
        match ety e with
        | Selector => section_go pos ((estart e, eend e, edelim e) :: stack) r
        | BlockEnd =>
            match stack with
            | [] => section_go pos [] r
            | p :: st =>
                if (r_start p <=? pos) && (pos <=? eend e)
                then Some (r_start p, eend e, r_delim p + 1, estart e)
                else section_go pos st r
            end
        | _ => section_go pos stack r
        end
  end.

(* CSSProperty.__init__ *)
Definition mk_property (code : str) (name : rng3) (before a b delim offset : Z) : css_property :=
  mkCP (offset + r_start name, offset + r_end name)
       (offset + a, offset + b)
       (split_value (py_slice code a b) (offset + a))
       before
       (offset + decl_end delim b).

Record ppstate := mkPP { pp_pending : option rng3; pp_nested : Z; pp_before : Z }.

(* after scan() in parse_properties: a name that is still pending, outside nested rules,
   whose delimiter is a colon of the fragment (fragment[d:d+1] == ':': a name flushed by
   `;` carries the position of the `;`, a bare name at the end carries -1) is a declaration
   without value and without terminator (`a { color: }`): empty value at the end of the
   fragment, delimiter -1 (after = end of the value, as for `a{b:c}`) *)
Definition props_flush (fragment : str) (from : Z) (st : ppstate) (acc : list css_property)
  : list css_property :=
  match pp_pending st with
  | Some p =>
      if negb (truthyZ (pp_nested st)) && negb (r_delim p =? -1)
         && str_eqb (py_slice fragment (r_delim p) (r_delim p + 1)) [c_colon]
      then
        let vp := Z.of_nat (length fragment) in
        mk_property fragment p (pp_before st) vp vp (-1) from :: acc
      else acc
  | None => acc
  end.

(* scan callback of parse_properties; result kept reversed *)
Fixpoint props_go (fragment : str) (from : Z) (st : ppstate) (acc : list css_property)
         (evs : list event) : list css_property :=
  match evs with
  | [] => rev (props_flush fragment from st acc)
  | e :: r =>
      match ety e with
      | Selector => props_go fragment from (mkPP (pp_pending st) (pp_nested st + 1) (pp_before st)) acc r
      | BlockEnd =>
          props_go fragment from (mkPP (pp_pending st) (pp_nested st - 1) (from + eend e)) acc r
      | PropertyName =>
          if truthyZ (pp_nested st) then props_go fragment from st acc r
          else
            match pp_pending st with
            | Some p =>
                (* property with empty value *)
                let vp := r_delim p in
                props_go fragment from
                         (mkPP (Some (estart e, eend e, edelim e)) (pp_nested st) (from + estart e))
                         (mk_property fragment p (pp_before st) vp vp vp from :: acc) r
            | None =>
                props_go fragment from (mkPP (Some (estart e, eend e, edelim e)) (pp_nested st) (pp_before st))
                         acc r
            end
      | PropertyValue =>
          if truthyZ (pp_nested st) then props_go fragment from st acc r
          else
            let before' := from + edelim e + 1 in
            match pp_pending st with
            | Some p =>
                props_go fragment from (mkPP None (pp_nested st) before')
                         (mk_property fragment p (pp_before st) (estart e) (eend e) (edelim e) from :: acc) r
            | None => props_go fragment from (mkPP None (pp_nested st) before') acc r
            end
      end
  end.

Definition parse_properties (code : str) (from to : Z) : list css_property :=
  let fragment := py_slice code from to in
  props_go fragment from (mkPP None 0 from) [] (scan fragment).

(* get_css_section on a given callback sequence *)
Definition section_events (code : str) (evs : list event) (pos : Z) (properties : bool) : option css_section :=
  match section_go pos [] evs with
  | None => None
  | Some (a, b, ba, bb) =>
      Some (mkCS a b ba bb (if properties then Some (parse_properties code ba bb) else None))
  end.
Definition get_css_section (code : str) (pos : Z) (properties : bool) : option css_section :=
  section_events code (scan code) pos properties.

(* -------- select_item_css *)
Record select_item := mkSI { si_start : Z; si_end : Z; si_ranges : list range }.

(* the ranges of a declaration: full (when the name is known), value, value tokens;
   pushed with push_range.  Reversed accumulator as in CssMatch.push. *)
Definition value_ranges (code : str) (acc : list range) (vs ve : Z) : list range :=
  fold_left (fun a r => push a (fst r + vs, snd r + vs)) (split_value (py_slice code vs ve) 0)
            (push acc (vs, ve)).

Fixpoint next_go (code : str) (pos : Z) (pending : option rng3) (evs : list event) : option select_item :=
  match evs with
  | [] => None
  | e :: r =>
      if estart e <? pos then next_go code pos pending r
      else
        match ety e with
        | Selector => Some (mkSI (estart e) (eend e) [(estart e, eend e)])
        | PropertyName => next_go code pos (Some (estart e, eend e, edelim e)) r
        | PropertyValue =>
            let send := decl_end (edelim e) (eend e) in
            let '(sstart, acc) :=
              match pending with
              | Some p => (r_start p, push [] (r_start p, send))
              | None => (estart e, [])
              end in
            Some (mkSI sstart send (rev (value_ranges code acc (estart e) (eend e))))
        | BlockEnd =>
            match pending with
            | Some p => Some (mkSI (r_start p) (r_end p) [(r_start p, r_end p)])
            | None => next_go code pos None r
            end
        end
  end.
Definition select_next_events (code : str) (evs : list event) (pos : Z) : option select_item :=
  next_go code pos None evs.
Definition select_next_item (code : str) (pos : Z) : option select_item :=
  select_next_events code (scan code) pos.

(* ParseState of select_previous_item; type: None / Selector / PropertyName *)
Record pvstate := mkPV {
  pv_type : option bool;       (* Some false = selector, Some true = propertyName *)
  pv_start : Z; pv_end : Z; pv_vstart : Z; pv_vend : Z; pv_vdelim : Z
}.
Fixpoint prev_go (pos : Z) (st : pvstate) (evs : list event) : pvstate :=
  match evs with
  | [] => st
  | e :: r =>
      let is_value := match ety e with PropertyValue => true | _ => false end in
      if (pos <=? estart e) && negb is_value then st
      else
        match ety e with
        | Selector => prev_go pos (mkPV (Some false) (estart e) (eend e) (-1) (-1) (-1)) r
        | PropertyName => prev_go pos (mkPV (Some true) (estart e) (eend e) (-1) (-1) (-1)) r
        | PropertyValue =>
            prev_go pos (mkPV (pv_type st) (pv_start st) (pv_end st) (estart e) (eend e) (edelim e)) r
        | BlockEnd => prev_go pos st r
        end
  end.
Definition select_previous_events (code : str) (evs : list event) (pos : Z) : option select_item :=
  let st := prev_go pos (mkPV None (-1) (-1) (-1) (-1) (-1)) evs in
  match pv_type st with
  | Some false => Some (mkSI (pv_start st) (pv_end st) [(pv_start st, pv_end st)])
  | Some true =>
      if negb (pv_vstart st =? -1) then
        let e := decl_end (pv_vdelim st) (pv_vend st) in
        Some (mkSI (pv_start st) e
                   (rev (value_ranges code (push [] (pv_start st, e)) (pv_vstart st) (pv_vend st))))
      else Some (mkSI (pv_start st) (pv_end st) (rev (push [] (pv_start st, pv_end st))))
  | None => None
  end.
Definition select_previous_item (code : str) (pos : Z) : option select_item :=
  select_previous_events code (scan code) pos.

Definition select_item_css (code : str) (pos : Z) (is_prev : bool) : option select_item :=
  if is_prev then select_previous_item code pos else select_next_item code pos.
