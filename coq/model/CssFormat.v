(* Model of emmet/stylesheet/format.py (stringify, css_property, css_property_value,
   output_important, output_value, output_token, get_single_numeric, to_camel_case,
   get_quote) over the part of emmet/output_stream.py it uses (push, push_string,
   push_newline, push_field with level 0), and of emmet.expand for type stylesheet.
   output.text is the identity (the library default); output.field is one of the two
   callbacks of [field_style].  Definitions only. *)
From Coq Require Import String.
From Emmet Require Import lib.Base lib.StyleLib model.CssTokenizer model.CssParser model.Score
     model.Color model.CssSnippets model.CssResolve.
Local Open Scope N_scope.

(* ---- output stream: only its text is observable here *)
(* push_newline(True) at level 0: newline + baseIndent, then indent * 0 *)
Definition nl_text (cfg : sconfig) : str := c_newline cfg ++ c_base_indent cfg.

(* re_line_break.split(value) of the repaired push_string: boundaries are "\r\n", "\r", "\n" only (not
   str.splitlines(), which also breaks at \f, \v, U+001C-1E, U+0085, U+2028/9); a trailing line break does not
   start another line.  Same function as OutStream.split_crlf of the markup model. *)
Fixpoint css_split_crlf_aux (s : str) (cur : str) : list str :=
  match s with
  | [] => match cur with [] => [] | _ => [rev cur] end
  | c :: s' =>
      if (c =? c_cr) || (c =? c_nl) then
        match s' with
        | c2 :: s'' => if (c =? c_cr) && (c2 =? c_nl)
                       then rev cur :: css_split_crlf_aux s'' []
                       else rev cur :: css_split_crlf_aux s' []
        | [] => [rev cur]
        end
      else css_split_crlf_aux s' (c :: cur)
  end.
Definition css_split_crlf (s : str) : list str := css_split_crlf_aux s [].

(* push_string(value): line by line *)
Definition push_string (cfg : sconfig) (value : str) : str := join (nl_text cfg) (css_split_crlf value).

(* push_field(index, placeholder) -> output.field(index, placeholder, ...) *)
Definition push_field (cfg : sconfig) (index : option N) (placeholder : str) : str :=
  match c_field cfg with
  | FieldPlaceholder => placeholder
  | FieldTabstop =>
      lit "${" ++ (match index with Some i => str_of_N i | None => [] end)
               ++ (match placeholder with [] => [] | _ => c_colon :: placeholder end) ++ [c_rbrace]
  end.

(* ---- tokens and values *)
(* prev_end: None = -1 (start of the value / a FunctionCall, which has no 'end');
   Some None = Python None (a token made by the resolver); Some (Some n) = n *)
Definition same_pos (start : option nat) (prev_end : option (option nat)) : bool :=
  match start, prev_end with
  | Some a, Some (Some b) => Nat.eqb a b
  | _, _ => false                  (* repaired: a Field without a position is never adjacent *)
  end.

Fixpoint output_token (cfg : sconfig) (token : cval) {struct token} : str :=
  match token with
  | VTok (CColor r g b a _) _ _ => color r g b a (c_short_hex cfg)
  | VTok (CLiteral v) _ _ => push_string cfg v
  | VTok (CCustomProperty v) _ _ => push_string cfg v
  | VTok (CNumber value _ u) _ _ => push_string cfg (frac value 4 ++ u)
  | VTok (CString v single) _ _ => push_string cfg (q_of single ++ v ++ q_of single)
  | VTok (CField name index) _ _ => push_field cfg index name
  | VTok _ _ _ => []                                    (* no branch for other tokens *)
  | VFunc name args =>
      let fix out_value (vs : list cval) (first : bool) (prev_end : option (option nat)) : str :=
        match vs with
        | [] => []
        | t :: r =>
            let sep :=
              if first then []
              else match t with
                   | VTok (CField _ _) st _ => if same_pos st prev_end then [] else [c_space]
                   | _ => [c_space]
                   end in
            sep ++ output_token cfg t ++
            out_value r false (match t with VTok _ _ en => Some en | VFunc _ _ => None end)
        end in
      let fix out_args (l : list (list cval)) (first : bool) : str :=
        match l with
        | [] => []
        | a :: r => (if first then [] else lit ", ") ++ out_value a true None ++ out_args r false
        end in
      name ++ [c_lparen] ++ out_args args true ++ [c_rparen]
  end.

(* output_value(value, out, config) *)
Fixpoint output_value_from (cfg : sconfig) (vs : list cval) (first : bool) (prev_end : option (option nat)) : str :=
  match vs with
  | [] => []
  | t :: r =>
      let sep :=
        if first then []
        else match t with
             | VTok (CField _ _) st _ => if same_pos st prev_end then [] else [c_space]
             | _ => [c_space]
             end in
      sep ++ output_token cfg t ++
      output_value_from cfg r false (match t with VTok _ _ en => Some en | VFunc _ _ => None end)
  end.
Definition output_value (cfg : sconfig) (value : cssvalue) : str := output_value_from cfg value true None.

Definition output_important (node : cssprop) (separator : bool) : str :=
  if pimportant node then (if separator then [c_space] else []) ++ lit "!important" else [].

(* to_camel_case: re.sub(r'\-(\w)', upper, text); \w = [A-Za-z0-9_] and Unicode decimals here *)
Fixpoint to_camel_case (s : str) : str :=
  match s with
  | [] => []
  | c :: r =>
      if c =? c_dash then
        match r with
        | d :: r' => if is_alpha_numeric_word d then upper_c d :: to_camel_case r' else c :: to_camel_case r
        | [] => [c]
        end
      else c :: to_camel_case r
  end.

Definition get_quote (cfg : sconfig) : str := if c_json_dq cfg then [c_dquote] else [c_squote].

(* get_single_numeric(node) *)
Definition get_single_numeric (node : cssprop) : option (dec * str) :=
  match pvalue node with
  | [[VTok (CNumber value _ u) _ _]] => Some (value, u)
  | _ => None
  end.

Fixpoint join_values (cfg : sconfig) (l : list cssvalue) (first : bool) : str :=
  match l with
  | [] => []
  | v :: r => (if first then [] else lit ", ") ++ output_value cfg v ++ join_values cfg r false
  end.

Definition css_property_value (cfg : sconfig) (node : cssprop) : str :=
  let num := if c_json cfg then get_single_numeric node else None in
  match num with
  | Some (value, u) =>
      if match u with [] => true | _ => str_eqb u (lit "px") end then frac value 4
      else get_quote cfg ++ join_values cfg (pvalue node) true ++ get_quote cfg
  | None =>
      let q := if c_json cfg then get_quote cfg else [] in
      q ++ join_values cfg (pvalue node) true ++ q
  end.

Definition css_property (cfg : sconfig) (node : cssprop) : str :=
  match pname node with
  | Some name0 =>
      let name := if c_json cfg then to_camel_case name0 else name0 in
      push_string cfg (name ++ c_between cfg) ++
      (match pvalue node with
       | [] => push_field cfg (Some 0) []
       | _ => css_property_value cfg node
       end) ++
      (if c_json cfg then [c_comma]
       else output_important node true ++ c_after cfg)
  | None =>
      concat (map (fun css_val => concat (map (output_token cfg) css_val)) (pvalue node)) ++
      output_important node (match pvalue node with [] => false | _ => true end)
  end.

Fixpoint stringify_from (cfg : sconfig) (l : list cssprop) (first : bool) : str :=
  match l with
  | [] => []
  | p :: r =>
      (if c_format cfg && negb first then nl_text cfg else []) ++ css_property cfg p ++ stringify_from cfg r false
  end.

Definition stringify (cfg : sconfig) (abbr : list cssprop) : str :=
  let abbr := if c_skip_unmatched cfg then filter (fun n => psnippet n || pimportant n) abbr else abbr in
  stringify_from cfg abbr true.

(* ---- expand(abbr, config) for type stylesheet (no cache: snippets converted on every call) *)
Definition expand_with (cfg : sconfig) (snippets : list snippet) (abbr : str) : res str :=
  let* nodes := parse_with cfg snippets abbr in
  Ok (stringify cfg nodes).

Definition expand_css (cfg : sconfig) (abbr : str) : res str :=
  let* snippets := convert_snippets (c_snippets cfg) in
  expand_with cfg snippets abbr.
