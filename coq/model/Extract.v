(* Model of emmet/extract_abbreviation/{__init__,is_html,reader,brackets}.py
   (extract_abbreviation and everything it calls).  Follows the Python function
   by function.  Definitions only.

   BackwardScanner.  A scanner (text, start, pos) with start <= pos <= len(text)
   is represented by
     [rl : str]   the characters text[start:pos] in REVERSED order (head = the
                  character peek() returns, i.e. text[pos-1]);
     [lb : bool]  "text[start-1] exists and is a backslash": the only thing any
                  caller ever reads left of [start] (consume_quoted peeks one
                  character past the quote it has just found, without testing
                  sol(); peek() returns '' outside the text).
   sol() is [rl = []]; scanner.pos = start + length rl.  Consumers return how
   many characters they consumed; None = "returned False and restored pos".

   Loops.  The main loop of extract_abbreviation consumes exactly one character
   per round: structural recursion on [rl].  The loops of is_html and
   get_start_offset consume >= 1 character per round: structural recursion with
   a skip counter (as in MarkupTokenizer.v), no fuel.

   Exceptions.  The code under model has no operation that can raise on a
   str/int input: every subscript is guarded by sol()/len tests or is a slice,
   BRACE_PAIRS[ch] is only evaluated for ch an opening bracket (checked against
   the generated table by [ExtractProofs.tables_ok]). *)
From Emmet Require Import lib.Base.
From Emmet Require Export gen.GenExtract.

Local Open Scope N_scope.

(* ------------------------------------------------------------------ options *)
(* create_options(): {'type': 'markup', 'lookAhead': True, 'prefix': ''} updated
   with the caller's dict.  lookAhead is used by truthiness only. *)
Record opts := mkOpts { o_type : str; o_look : bool; o_prefix : str }.
Definition default_opts : opts := mkOpts ex_default_type ex_default_look_ahead ex_default_prefix.
Definition s_markup : str := [109; 97; 114; 107; 117; 112].
(* syntax == 'markup' *)
Definition is_markup (o : opts) : bool := str_eqb (o_type o) s_markup.

Record extracted := mkExtracted { x_abbr : str; x_location : Z; x_start : Z; x_end : Z }.

(* ------------------------------------------------------------------ character classes *)
(* __init__.py *)
Definition is_abbreviation (c : char) : bool :=
  is_alpha c || is_number c || existsb (N.eqb c) ex_special_chars.
Definition is_open_brace (mk : bool) (c : char) : bool :=
  (c =? c_lparen) || (mk && ((c =? c_lbrack) || (c =? c_lbrace))).
Definition is_close_brace (mk : bool) (c : char) : bool :=
  (c =? c_rparen) || (mk && ((c =? c_rbrack) || (c =? c_rbrace))).
(* BRACE_PAIRS[ch] for ch an opening bracket *)
Definition brace_pair (c : char) : char :=
  if c =? c_lbrack then c_rbrack else if c =? c_lparen then c_rparen else c_rbrace.
(* the class of re.sub(r'^[*+>^]+', '', ...) *)
Definition is_trim (c : char) : bool := existsb (N.eqb c) ex_trim_chars.

(* is_html.py *)
Definition h_ws (c : char) : bool := (c =? c_space) || (c =? c_tab).
Definition h_ident (c : char) : bool := (c =? c_colon) || (c =? c_dash) || is_alpha c || is_number c.
Definition h_unquoted (c : char) : bool :=
  negb (c =? c_eq) && negb (c =? c_lt) && negb (c =? c_gt) && negb (h_ws c) && negb (is_quote c).
Definition h_open_bracket (c : char) : bool := (c =? c_lbrace) || (c =? c_lparen) || (c =? c_lbrack).
Definition h_close_bracket (c : char) : bool := (c =? c_rbrace) || (c =? c_rparen) || (c =? c_rbrack).

(* ------------------------------------------------------------------ scanner helpers *)
(* consume_while(p): number of characters consumed *)
Fixpoint span (p : char -> bool) (rl : str) : nat :=
  match rl with
  | c :: r => if p c then S (span p r) else O
  | [] => O
  end.

Definition mem (c : char) (l : list char) : bool := existsb (N.eqb c) l.

(* ------------------------------------------------------------------ is_html.py *)
(* consume_quoted, after the closing quote [q] has been taken by previous():
   `while not sol(): if previous() == quote and peek() != '\\': return True`.
   Returns the number of characters of [r] consumed. *)
Fixpoint find_quote (lb : bool) (q : char) (r : str) : option nat :=
  match r with
  | [] => None
  | c :: r' =>
      let before_is_bslash := match r' with x :: _ => x =? c_bslash | [] => lb end in
      if (c =? q) && negb before_is_bslash then Some 1%nat
      else match find_quote lb q r' with Some n => Some (S n) | None => None end
  end.

(* consume_quoted: Some n = consumed S n characters *)
Definition consume_quoted (lb : bool) (rl : str) : option nat :=
  match rl with
  | q :: r => if is_quote q then find_quote lb q r else None
  | [] => None
  end.

(* the `while` loop of consume_attribute_with_unquoted_value: characters consumed *)
Fixpoint unq_scan (rl : str) (stack : list char) : nat :=
  match rl with
  | [] => O
  | ch :: r =>
      if h_close_bracket ch then S (unq_scan r (ch :: stack))
      else if h_open_bracket ch then
        match stack with
        | [] => O
        | t :: st => if t =? brace_pair ch then S (unq_scan r st) else O
        end
      else if h_unquoted ch then S (unq_scan r stack)
      else O
  end.

(* `scanner.consume('=') and consume_ident(scanner)`: characters consumed *)
Definition eq_ident (rl : str) : option nat :=
  match rl with
  | c :: r => if c =? c_eq then
                match span h_ident r with
                | S k => Some (S (S k))
                | O => None
                end
              else None
  | [] => None
  end.

(* consume_attribute_with_unquoted_value: Some m = consumed S m characters *)
Definition attr_unquoted (rl : str) : option nat :=
  match unq_scan rl [] with
  | O => None
  | S n' => match eq_ident (skipn (S n') rl) with
            | Some e => Some (n' + e)%nat
            | None => None
            end
  end.

(* consume_attribute_with_quoted_value: Some m = consumed S m characters *)
Definition attr_quoted (lb : bool) (rl : str) : option nat :=
  match consume_quoted lb rl with
  | Some n => match eq_ident (skipn (S n) rl) with
              | Some e => Some (n + e)%nat
              | None => None
              end
  | None => None
  end.

(* consume_attribute *)
Definition attribute (lb : bool) (rl : str) : option nat :=
  match attr_quoted lb rl with
  | Some m => Some m
  | None => attr_unquoted rl
  end.

(* one round of the `while not scanner.sol()` loop of is_html, entered with the
   scanner at [rl] (non-empty): HDone ok = break with that value of ok,
   HCont m = `continue` after consuming S m characters *)
Inductive hstep := HDone (ok : bool) | HCont (m : nat).

Definition html_body (lb : bool) (rl : str) : hstep :=
  let w := span h_ws rl in
  let r1 := skipn w rl in
  match span h_ident r1 with
  | S k =>
      match skipn (S k) r1 with
      | c :: r3 =>
          if c =? c_slash then
            (* either closing tag or invalid tag: ok = scanner.consume('<') *)
            HDone (match r3 with d :: _ => d =? c_lt | [] => false end)
          else if c =? c_lt then HDone true
          else if h_ws c then HCont (w + S k)
          else if c =? c_eq then
            match span h_ident r3 with
            | S j => HCont (w + S k + S j)
            | O => HDone false
            end
          else
            match attr_unquoted (c :: r3) with
            | Some m => HCont (w + S k + m)      (* repaired: `continue`, was `ok = True; break` *)
            | None => HDone false
            end
      | [] => HDone false   (* sol: every consume fails, invalid tag *)
      end
  | O =>
      match attribute lb r1 with
      | Some m => HCont (w + m)
      | None => HDone false
      end
  end.

Fixpoint html_loop (lb : bool) (skip : nat) (rl : str) : bool :=
  match rl with
  | [] => false                      (* sol(): the loop ends with ok = False *)
  | _ :: r =>
      match skip with
      | S k => html_loop lb k r
      | O => match html_body lb rl with
             | HDone ok => ok
             | HCont m => html_loop lb m r
             end
      end
  end.

(* is_html(scanner): position is restored, only the verdict is returned *)
Definition is_html (lb : bool) (rl : str) : bool :=
  match rl with
  | c :: r =>
      if c =? c_gt then
        html_loop lb 0 (match r with
                        | d :: r2 => if d =? c_slash then r2 else r   (* possibly self-closed *)
                        | [] => r
                        end)
      else false
  | [] => false
  end.

(* ------------------------------------------------------------------ __init__.py *)
(* offset_past_auto_closed(line, pos, options) for pos <= len(line):
   number of characters after pos that are skipped *)
Definition past_auto_closed (mk : bool) (rest : str) : nat :=
  match rest with
  | c :: rest' => if is_quote c then S (span (is_close_brace mk) rest')
                  else span (is_close_brace mk) rest
  | [] => O
  end.

(* consume_pair(scanner, close, open) after `close` has been consumed:
   `while not sol(): if consume(open): return True; pos -= 1` *)
Fixpoint find_open (op : char) (r : str) : option nat :=
  match r with
  | [] => None
  | c :: r' => if c =? op then Some 1%nat
               else match find_open op r' with Some n => Some (S n) | None => None end
  end.
(* Some m = consumed S m characters *)
Definition consume_pair (cl op : char) (rl : str) : option nat :=
  match rl with
  | c :: r => if c =? cl then find_open op r else None
  | [] => None
  end.

(* consume_list(scanner, prefix) for a non-empty prefix, [rp] = reversed prefix *)
Definition consume_list (rp : str) (rl : str) : bool :=
  match rp with
  | [] => false
  | _ => starts_with rp rl
  end.

(* the loop of get_start_offset (scanner.start = 0, so pos = length rl) *)
Fixpoint start_loop (rp : str) (skip : nat) (rl : str) : option nat :=
  match rl with
  | [] => None                                   (* return -1 *)
  | _ :: r =>
      match skip with
      | S k => start_loop rp k r
      | O =>
          match consume_pair c_rbrack c_lbrack rl with
          | Some m => start_loop rp m r
          | None =>
              match consume_pair c_rbrace c_lbrace rl with
              | Some m => start_loop rp m r
              | None => if consume_list rp rl then Some (length rl)
                        else start_loop rp 0 r
              end
          end
      end
  end.

(* get_start_offset(line, pos, prefix): None = -1 *)
Definition get_start_offset (line : str) (pos : nat) (prefix : str) : option nat :=
  match prefix with
  | [] => Some O
  | _ => start_loop (rev prefix) 0 (rev (firstn pos line))
  end.

(* one round of the main loop on character [ch] (= scanner.peek()) with the
   scanner at [rl] = ch :: _ :  SBreak st = `break` leaving the stack st,
   SNext st = `scanner.pos -= 1` with stack st.  Head of the list = top. *)
Inductive sstep := SBreak (st : list char) | SNext (st : list char).

Definition scan_step (mk lb : bool) (rl : str) (ch : char) (stack : list char) : sstep :=
  let in_curly := mem c_rbrace stack in
  if in_curly && (ch =? c_rbrace) then SNext (ch :: stack)
  else if in_curly && negb (ch =? c_lbrace) then SNext stack
  else if is_close_brace mk ch then SNext (ch :: stack)
  else if is_open_brace mk ch then
    match stack with
    | [] => SBreak []                                   (* `not stack` *)
    | t :: st => if t =? brace_pair ch then SNext st    (* stack.pop() == BRACE_PAIRS[ch] *)
                 else SBreak st                         (* popped, then break *)
    end
  else if mem c_rbrack stack || in_curly then SNext stack
  else if is_html lb rl || negb (is_abbreviation ch) then SBreak stack
  else SNext stack.

(* the main loop: returns what is left of the scanner (scanner.pos - start
   characters) and the final stack *)
Fixpoint scan (mk lb : bool) (rl : str) (stack : list char) : str * list char :=
  match rl with
  | [] => ([], stack)
  | ch :: r =>
      match scan_step mk lb rl ch stack with
      | SBreak st => (rl, st)
      | SNext st => scan mk lb r st
      end
  end.

(* pos = min(len(line), max(0, pos)); None = `pos is None` *)
Definition clamp_pos (line : str) (pos : option Z) : nat :=
  match pos with
  | None => length line
  | Some z => Z.to_nat (Z.min (Z.of_nat (length line)) (Z.max 0 z))
  end.

(* text[i] == '\\' with '' outside the text *)
Definition bslash_before (line : str) (start : nat) : bool :=
  match start with
  | O => false
  | S s => match nth_error line s with Some c => c =? c_bslash | None => false end
  end.

Definition extract_abbreviation (line : str) (pos : option Z) (o : opts) : option extracted :=
  let mk := is_markup o in
  let p0 := clamp_pos line pos in
  let p := if o_look o then (p0 + past_auto_closed mk (skipn p0 line))%nat else p0 in
  match get_start_offset line p (o_prefix o) with
  | None => None
  | Some start =>
      let rl := rev (slice line start p) in
      let '(rem, stack) := scan mk (bslash_before line start) rl [] in
      let spos := (start + length rem)%nat in
      match stack with
      | [] =>
          if Nat.eqb spos p then None
          else
            let abbr := lstrip_by is_trim (slice line spos p) in
            let zp := Z.of_nat p in
            let zl := Z.of_nat (length abbr) in
            let st := match o_prefix o with
                      | [] => (zp - zl)%Z
                      | _ => (Z.of_nat start - Z.of_nat (length (o_prefix o)))%Z
                      end in
            Some (mkExtracted abbr (zp - zl)%Z st zp)
      | _ => None
      end
  end.
