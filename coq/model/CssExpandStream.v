(* emmet.expand for type stylesheet with the output stream as result: the pipeline of
   model/CssFormat.expand_css (convert_snippets, parse, resolve) followed by the stream formatter
   of model/CssFormatStream.v under the options of the configuration.  Definitions only. *)
From Emmet Require Import lib.Base lib.StyleLib model.CssTokenizer model.CssParser model.Score
     model.Color model.CssSnippets model.CssResolve model.MarkupConvert model.OutStream model.CssFormatStream.

(* the options format.py / output_stream.py read, and the harness' field callback *)
Definition fmt_of (cfg : sconfig) : cssfmt :=
  mkCssFmt (mkOfmt (c_indent cfg) (c_base_indent cfg) (c_newline cfg))
           (c_between cfg) (c_after cfg) (c_short_hex cfg) (c_json cfg) (c_json_dq cfg)
           (c_skip_unmatched cfg) (c_format cfg)
           (match c_field cfg with FieldPlaceholder => field_identity | FieldTabstop => field_tabstop end).

Definition expand_stream_with (cfg : sconfig) (snippets : list snippet) (abbr : str) : res ostream :=
  let* nodes := parse_with cfg snippets abbr in
  Ok (css_stream (fmt_of cfg) nodes).

Definition expand_css_stream (cfg : sconfig) (abbr : str) : res ostream :=
  let* snippets := convert_snippets (c_snippets cfg) in
  expand_stream_with cfg snippets abbr.
