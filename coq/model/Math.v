(* Model of emmet/math_expression/{parser,__init__,extract}.py.  Definitions only.
   Follows the Python function by function.

   Conventions
   - A scanner position is represented by the remaining input (what Python sees
     from scanner.pos on); consumers report how many characters they consumed.
     The main loop of parse() is structural recursion on the input with a skip
     counter (every round of the Python loop consumes >= 1 character or raises).
   - Number tokens carry the exact decimal value of their literal
     (mantissa, number of fractional digits) instead of the float Python builds:
     float rounding is outside the model (DESIGN section 2, Floats).
   - Python lists used as stacks with the top at the END (operators, n_stack) are
     Coq lists with the top at the HEAD; `operators.reverse()` is then the identity.
   - The evaluator is generic in the number structure [NumStruct]; [QcNum] is the
     exact rational instance used by the theorems and by the extracted model. *)
From Coq Require Import QArith Qcanon Qround.
From Emmet Require Import lib.Base.

(* ------------------------------------------------------------------ tokens *)
(* exact decimal: mantissa * 10^-scale *)
Definition dec := (N * nat)%type.

(* Token(type, value, priority): number tokens and the shared [nullary] token have priority 0 *)
Inductive rtok :=
| RNum (d : dec)                 (* TokenType.Number, value = float(literal) *)
| ROp1 (c : char) (p : Z)        (* TokenType.Op1, value = the sign character *)
| ROp2 (c : char) (p : Z)        (* TokenType.Op2, value = the operator character *)
| RNull.                         (* TokenType.Null (the module-level `nullary`) *)

Definition prio_of (t : rtok) : Z :=
  match t with RNum _ => 0 | ROp1 _ p => p | ROp2 _ p => p | RNull => 0 end%Z.
Definition is_rnum (t : rtok) : bool := match t with RNum _ => true | _ => false end.
Definition is_rop1 (t : rtok) : bool := match t with ROp1 _ _ => true | _ => false end.

(* ParserState bits *)
Definition PS_Primary : N := 1.
Definition PS_Operator : N := 2.
Definition PS_LParen : N := 4.
Definition PS_RParen : N := 8.
Definition PS_Sign : N := 16.
Definition PS_Nullary : N := 32.
(* `expected & bit` as a Python truth value *)
Definition has (expected bit : N) : bool := negb (N.land expected bit =? 0)%N.
Definition EXP_operand : N := N.lor PS_Primary (N.lor PS_LParen PS_Sign).
Definition EXP_after_lparen : N := N.lor EXP_operand PS_Nullary.
Definition EXP_after_operand : N := N.lor PS_Operator PS_RParen.

Local Open Scope N_scope.

(* ------------------------------------------------------------------ character classes *)
Definition is_positive_sign (c : char) : bool := c =? c_plus.
Definition is_negative_sign (c : char) : bool := c =? c_dash.
Definition is_sign (c : char) : bool := is_positive_sign c || is_negative_sign c.
Definition is_operator (c : char) : bool :=
  (c =? c_plus) || (c =? c_dash) || (c =? c_star) || (c =? c_slash) || (c =? c_bslash).

(* op1(value, priority) / op2(value, priority) factories *)
Definition mk_op1 (c : char) (priority : Z) : rtok :=
  ROp1 c (if c =? c_dash then (priority + 2)%Z else priority).
Definition mk_op2 (c : char) (priority : Z) : rtok :=
  ROp2 c (if c =? c_star then (priority + 1)%Z
          else if (c =? c_slash) || (c =? c_bslash) then (priority + 2)%Z
          else priority).

(* ------------------------------------------------------------------ scanning helpers *)
(* scanner.eat_while(p): number of characters eaten *)
Fixpoint spanw (p : char -> bool) (s : str) : nat :=
  match s with
  | c :: r => if p c then S (spanw p r) else O
  | [] => O
  end.
Definition starts_with_c (c : char) (s : str) : bool :=
  match s with x :: _ => x =? c | [] => false end.

(* consume_number(scanner): Some n = True with n characters consumed, None = False (position restored) *)
Definition consume_number (s : str) : option nat :=
  (* if scanner.eat('.') and scanner.eat_while(is_number): return True *)
  let p1 := if starts_with_c c_dot s then 1%nat else 0%nat in
  let d1 := spanw is_number (skipn p1 s) in
  if starts_with_c c_dot s && negb (Nat.eqb d1 0) then Some (1 + d1)%nat
  else
    (* the scanner now stands after the dot when one was eaten *)
    let s2 := skipn p1 s in
    let d2 := spanw is_number s2 in
    if negb (Nat.eqb d2 0) then
      let s3 := skipn d2 s2 in
      if starts_with_c c_dot s3 then
        let d3 := spanw is_number (skipn 1 s3) in
        if negb (Nat.eqb d3 0) then Some (p1 + d2 + 1 + d3)%nat else None
      else Some (p1 + d2)%nat
    else None.

(* float(literal) for a literal made of decimal characters and dots: exact decimal value.
   None = ValueError (more than one dot, no digit, or a foreign character). *)
Fixpoint float_acc (s : str) (m : N) (dot : bool) (k nd : nat) : option dec :=
  match s with
  | [] => if Nat.eqb nd 0 then None else Some (m, k)
  | c :: s' =>
      if c =? c_dot then (if dot then None else float_acc s' m true k nd)
      else match digit_value c with
           | Some v => float_acc s' (m * 10 + v) dot (if dot then S k else k) (S nd)
           | None => None
           end
  end.
Definition float_of_str (s : str) : option dec := float_acc s 0 false 0%nat 0%nat.

(* ------------------------------------------------------------------ parse() *)
(* what one round of the loop found at the scanner position *)
Inductive ptok :=
| PNum (lit : str)      (* consume_number succeeded; lit = scanner.current() *)
| POp (c : char)        (* is_operator(scanner.peek()); c = scanner.next() *)
| PLParen               (* scanner.eat('(') *)
| PRParen.              (* scanner.eat(')') *)

(* the scanning part of the if/elif chain, on the input after white space;
   None = the final `else` (Unknown character), also taken at end of input *)
Definition scan (s : str) : option (ptok * nat) :=
  match consume_number s with
  | Some n => Some (PNum (firstn n s), n)
  | None =>
      match s with
      | c :: _ =>
          if is_operator c then Some (POp c, 1%nat)
          else if c =? c_lparen then Some (PLParen, 1%nat)
          else if c =? c_rparen then Some (PRParen, 1%nat)
          else None
      | [] => None
      end
  end.

Record pstate := mkP { priority : Z; expected : N; ptokens : list rtok }.

Definition math_err {A} : res A := ParseErr EK_Math None.

(* the body of the branch taken for [t] *)
Definition pstep (st : pstate) (t : ptok) : res pstate :=
  let pr := priority st in
  let ex := expected st in
  let toks := ptokens st in
  match t with
  | PNum lit =>
      if negb (has ex PS_Primary) then math_err                      (* Unexpected number *)
      else match float_of_str lit with
           | Some d => Ok (mkP pr EXP_after_operand (toks ++ [RNum d]))
           | None => Internal IK_Value
           end
  | POp c =>
      if is_sign c && has ex PS_Sign then
        Ok (mkP pr EXP_operand (if is_negative_sign c then toks ++ [mk_op1 c pr] else toks))
      else if negb (has ex PS_Operator) then math_err                (* Unexpected operator *)
      else Ok (mkP pr EXP_operand (toks ++ [mk_op2 c pr]))
  | PLParen =>
      if negb (has ex PS_LParen) then math_err                       (* Unexpected "(" *)
      else Ok (mkP (pr + 10)%Z EXP_after_lparen toks)
  | PRParen =>
      let pr' := (pr - 10)%Z in
      if (pr' <? 0)%Z then math_err                                  (* Unmatched ")" *)
      else if has ex PS_Nullary then Ok (mkP pr' EXP_after_operand (toks ++ [RNull]))
      else if negb (has ex PS_RParen) then math_err                  (* Unexpected ")" *)
      else Ok (mkP pr' EXP_after_operand toks)
  end.

(* while not scanner.eof(): one round starts wherever skip = 0 *)
Fixpoint parse_loop (skip : nat) (s : str) (st : pstate) : res pstate :=
  match s with
  | [] => Ok st
  | _ :: s' =>
      match skip with
      | S k => parse_loop k s' st
      | O =>
          let nws := spanw is_white_space s in          (* scanner.eat_while(is_white_space) *)
          match scan (skipn nws s) with
          | None => math_err                            (* Unknown character *)
          | Some (t, n) =>
              let* st' := pstep st t in
              parse_loop (nws + n - 1) s' st'
          end
      end
  end.

(* order_tokens: the inner `while operators and t.type != Op1` loop *)
Fixpoint pop_while (p : Z) (operands operators : list rtok) : list rtok * list rtok :=
  match operators with
  | top :: rest =>
      if (p <=? prio_of top)%Z then pop_while p (operands ++ [top]) rest
      else (operands, operators)
  | [] => (operands, [])
  end.

Fixpoint order_loop (ts : list rtok) (operands operators : list rtok) (n_operators : nat)
  : list rtok * list rtok * nat :=
  match ts with
  | [] => (operands, operators, n_operators)
  | t :: ts' =>
      if is_rnum t then order_loop ts' (operands ++ [t]) operators n_operators
      else
        let n' := (n_operators + (if is_rop1 t then 1 else 2))%nat in
        let '(operands', operators') :=
          if is_rop1 t then (operands, operators) else pop_while (prio_of t) operands operators in
        order_loop ts' operands' (t :: operators') n'
  end.

Definition order_tokens (ts : list rtok) : option (list rtok) :=
  let '(operands, operators, n) := order_loop ts [] [] 0%nat in
  if Nat.eqb (n + 1) (length operands + length operators) then Some (operands ++ operators)
  else None.

Definition init_state : pstate := mkP 0 EXP_operand [].

Definition parse (s : str) : res (list rtok) :=
  let* st := parse_loop 0 s init_state in
  if ((0 <? priority st) && (10 <=? priority st))%Z then math_err    (* Unmatched "()" *)
  else match order_tokens (ptokens st) with
       | Some r => Ok r
       | None => math_err                                            (* Parity *)
       end.

(* ------------------------------------------------------------------ evaluate() *)
Record NumStruct := mkNum {
  num : Type;
  of_dec : dec -> num;                       (* the value of a number token *)
  nneg : num -> num;
  nadd : num -> num -> num;
  nsub : num -> num -> num;
  nmul : num -> num -> num;
  ndiv : num -> num -> option num;           (* None = ZeroDivisionError *)
  nidiv : num -> num -> option num;          (* floor(a / b); None = ZeroDivisionError *)
}.

Definition zero_div {A} : res A := ParseErr EK_ZeroDiv None.

Section Evaluate.
  Variable NS : NumStruct.
  Notation num := (num NS).

  (* ops2[token.value]: None = KeyError *)
  Definition ops2 (c : char) : option (num -> num -> option num) :=
    if c =? c_plus then Some (fun a b => Some (nadd NS a b))
    else if c =? c_dash then Some (fun a b => Some (nsub NS a b))
    else if c =? c_star then Some (fun a b => Some (nmul NS a b))
    else if c =? c_slash then Some (ndiv NS)
    else if c =? c_bslash then Some (nidiv NS)
    else None.
  (* ops1[token.value] *)
  Definition ops1 (c : char) : option (num -> num) :=
    if c =? c_dash then Some (nneg NS) else None.

  Fixpoint eval_loop (expr : list rtok) (n_stack : list num) : res num :=
    match expr with
    | [] =>
        match n_stack with
        | _ :: _ :: _ => Internal IK_Exception         (* Invalid Expression (parity) *)
        | [v] => Ok v                                  (* n_stack[0] *)
        | [] => Internal IK_Index                      (* n_stack[0] on an empty list *)
        end
    | t :: rest =>
        match t with
        | RNum d => eval_loop rest (of_dec NS d :: n_stack)
        | ROp2 c _ =>
            match n_stack with
            | n2 :: n1 :: st =>
                match ops2 c with
                | Some f => match f n1 n2 with
                            | Some v => eval_loop rest (v :: st)
                            | None => zero_div
                            end
                | None => Internal IK_Key
                end
            | _ => Internal IK_Index                   (* pop from empty list *)
            end
        | ROp1 c _ =>
            match n_stack with
            | n1 :: st =>
                match ops1 c with
                | Some f => eval_loop rest (f n1 :: st)
                | None => Internal IK_Key
                end
            | [] => Internal IK_Index
            end
        | RNull => Internal IK_Exception               (* Invalid expression *)
        end
    end.

  (* evaluate(expr) for a string; Ok None = the function returned None *)
  Definition evaluate (s : str) : res (option num) :=
    let* expr := parse s in
    match expr with
    | [] => Ok None                                    (* if not expr: return None *)
    | _ => let* v := eval_loop expr [] in Ok (Some v)
    end.
End Evaluate.

(* exact rational numbers *)
Definition Qc_of_dec (d : dec) : Qc :=
  Q2Qc (Z.of_N (fst d) # Z.to_pos (10 ^ Z.of_nat (snd d))).
Definition Qc_is_zero (q : Qc) : bool := Qeq_bool (this q) 0%Q.
Definition Qc_div (a b : Qc) : option Qc := if Qc_is_zero b then None else Some (a / b)%Qc.
Definition Qc_idiv (a b : Qc) : option Qc :=
  if Qc_is_zero b then None else Some (Q2Qc (inject_Z (Qfloor (a / b)%Qc))).
Definition QcNum : NumStruct :=
  mkNum Qc Qc_of_dec Qcopp Qcplus Qcminus Qcmult Qc_div Qc_idiv.

(* ------------------------------------------------------------------ extract() *)
(* BackwardScanner.cur(): '' (None) outside the text *)
Definition cur (text : str) (pos : Z) : option char :=
  if ((0 <=? pos) && (pos <? Z.of_nat (length text)))%Z then nth_error text (Z.to_nat pos) else None.
Definition opt_is (p : char -> bool) (o : option char) : bool :=
  match o with Some c => p c | None => false end.

(* the look-ahead loop: `while scanner.pos < l`, on the text from scanner.pos on *)
Fixpoint la_loop (whitespace : bool) (s : str) : nat :=
  match s with
  | c :: r => if negb (c =? c_rparen) && negb (whitespace && is_space c) then O
              else S (la_loop whitespace r)
  | [] => O
  end.

(* number(scanner), after the first digit was taken: how many more characters it takes.
   [r] = the characters before the position, nearest first (prev() = its head, '' when empty). *)
Fixpoint number_tail (r : str) (dot : bool) : nat :=
  match r with
  | [] => O
  | c :: r' =>
      if c =? c_dot then (if dot then O else S (number_tail r' true))
      else if is_number c then S (number_tail r' dot) else O
  end.

(* the backward loop; returns (number of characters left before the final position, braces) *)
Fixpoint back_loop (skip : nat) (whitespace : bool) (r : str) (braces : N) : nat * N :=
  match r with
  | [] => (O, braces)                       (* prev() = '': not a number, falls to the last `break` *)
  | c :: r' =>
      match skip with
      | S k => back_loop k whitespace r' braces
      | O =>
          if is_number c then back_loop (number_tail r' false) whitespace r' braces   (* continue *)
          else if c =? c_rparen then back_loop 0 whitespace r' (braces + 1)
          else if c =? c_lparen then
            (if braces =? 0 then (length r, braces) else back_loop 0 whitespace r' (braces - 1))
          else if negb ((whitespace && is_space c) || is_sign c || is_operator c) then (length r, braces)
          else back_loop 0 whitespace r' braces
      end
  end.

Definition extract (text : str) (pos : option Z) (look_ahead whitespace : bool) : option (Z * Z) :=
  let len := Z.of_nat (length text) in
  let pos0 := match pos with Some p => p | None => len end in
  let pos1 :=
    if look_ahead && opt_is (fun c => c =? c_rparen) (cur text pos0)
    then (pos0 + 1 + Z.of_nat (la_loop whitespace (skipn (Z.to_nat (pos0 + 1)) text)))%Z
    else pos0 in
  let end_ := pos1 in
  (* while scanner.pos >= 0: outside the text prev() is '' and the first round breaks *)
  let '(pos2, braces) :=
    if ((0 <=? pos1) && (pos1 <=? len))%Z then
      let '(nleft, b) := back_loop 0 whitespace (rev (firstn (Z.to_nat pos1) text)) 0 in
      (Z.of_nat nleft, b)
    else (pos1, 0) in
  if negb (pos2 =? end_)%Z && (braces =? 0) then
    (* trim white space, inside the range *)
    let start := (pos2 + Z.of_nat (spanw is_space (firstn (Z.to_nat (end_ - pos2)) (skipn (Z.to_nat pos2) text))))%Z in
    Some (start, end_)
  else None.
