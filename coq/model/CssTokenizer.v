(* Model of emmet/css_abbreviation/tokenizer/__init__.py (tokenize and its consumers,
   merge_tokens, parse_color).  Follows the Python function by function.
   Definitions only.

   Shape (as in MarkupTokenizer.v): every consumer looks at the remaining input [s]
   (what Python sees from scanner.pos on) and reports how many characters it
   consumed; the main loop is structural recursion on the input with a skip
   counter.  [result] of the Python loop is the accumulator [acc], newest token
   first, because merge_tokens pops from its end.

   Python floats: NumberValue.value and ColorValue.a are exact decimals
   (lib/StyleLib.v states the domain on which that coincides with CPython). *)
From Emmet Require Import lib.Base lib.StyleLib.

Inductive ckind :=
| CLiteral (v : str)
| CCustomProperty (v : str)
| CNumber (value : dec) (raw : str) (unit : str)
| CColor (r g b : N) (a : dec) (raw : str)
| CString (v : str) (single : bool)
| CField (name : str) (index : option N)
| CBracket (open : bool)
| COperator (op : char)              (* OperatorType value: one of + ! , - : *)
| CWhiteSpace.

Record ctoken := mkCTok { ck : ckind; cstart : nat; cend : nat }.

Local Open Scope N_scope.

(* -------- character classes of this tokenizer *)
Definition is_ident_prefix (c : char) : bool := (c =? c_at) || (c =? c_dollar).
Definition is_hex (c : char) : bool := is_number c || in_range c_A c_F c || in_range c_a c_f c.
Definition is_keyword (c : char) : bool := is_alpha_numeric_word c || (c =? c_dash).
Definition is_cbracket (c : char) : bool := (c =? c_lparen) || (c =? c_rparen).
Definition is_cliteral (c : char) : bool := is_alpha_word c || (c =? c_percent) || (c =? c_slash).

(* -------- scanning helpers *)
Fixpoint cspan (p : char -> bool) (s : str) : nat :=
  match s with
  | c :: r => if p c then S (cspan p r) else O
  | [] => O
  end.
Definition cpeek_is (c : char) (s : str) : bool := match s with x :: _ => x =? c | [] => false end.
Definition cpeek_p (p : char -> bool) (s : str) : bool := match s with x :: _ => p x | [] => false end.

(* consume_placeholder: [off] = characters consumed so far, [stack] = offsets just
   after each unmatched '{'.  Returns (consumed, remaining stack). *)
Fixpoint cplaceholder (s : str) (stack : list nat) (off : nat) : nat * list nat :=
  match s with
  | [] => (off, stack)
  | c :: r =>
      if c =? c_lbrace then cplaceholder r (S off :: stack) (S off)
      else if c =? c_rbrace then
        match stack with
        | [] => (off, [])
        | _ :: st => cplaceholder r st (S off)
        end
      else cplaceholder r stack (S off)
  end.

(* result of one consumer: CNone = "no token here" (Python falls through to the
   next alternative); CErr carries the offset of the ScannerException relative to
   the token start; CInt = an internal exception (int()/float() ValueError) *)
Inductive ccres :=
| CNone
| CTok (k : ckind) (n : nat)
| CErr (off : nat)
| CInt (kind : N).

(* field(scanner): ${index}, ${index:placeholder}, ${name} *)
Definition cfield (s : str) : ccres :=
  match s with
  | c1 :: c2 :: r =>
      if (c1 =? c_dollar) && (c2 =? c_lbrace) then
        let nd := cspan is_number r in
        (* (index, name, consumed-after-"${") | error offset | internal *)
        let body : (option N * str * nat) + (nat + N) :=
          match nd with
          | S _ =>
              match int_of_str (firstn nd r) with
              | None => inr (inr IK_Value)               (* int(scanner.current()) *)
              | Some idx =>
                  let r1 := skipn nd r in
                  if cpeek_is c_colon r1 then
                    let '(n, st) := cplaceholder (tl r1) [] O in
                    match st with
                    | [] => inl (Some idx, firstn n (tl r1), nd + 1 + n)%nat
                    | o :: _ => inr (inl (2 + nd + 1 + o)%nat)
                    end
                  else inl (Some idx, [], nd)
              end
          | O =>
              if cpeek_p is_alpha r then
                let '(n, st) := cplaceholder r [] O in
                match st with
                | [] => inl (None, firstn n r, n)
                | o :: _ => inr (inl (2 + o)%nat)
                end
              else inl (None, [], O)
          end in
        match body with
        | inr (inl off) => CErr off
        | inr (inr k) => CInt k
        | inl (idx, name, used) =>
            if cpeek_is c_rbrace (skipn used r)
            then CTok (CField name idx) (2 + used + 1)
            else CErr (2 + used)
        end
      else CNone
  | _ => CNone
  end.

(* custom_property: "--" keyword* ; the value keeps the dashes *)
Definition ccustom_property (s : str) : ccres :=
  match s with
  | c1 :: c2 :: r =>
      if (c1 =? c_dash) && (c2 =? c_dash) then
        let n := (2 + cspan is_keyword r)%nat in
        CTok (CCustomProperty (firstn n s)) n
      else CNone
  | _ => CNone
  end.

(* consume_number: number of characters of  -? digits ( . digits )?  at the head
   of [s]; 0 = not a number.  [number_body] is the part after the optional dash. *)
Definition number_body (s1 : str) : nat :=
  let nd := cspan is_number s1 in
  let s2 := skipn nd s1 in
  if cpeek_is c_dot s2 then
    let nf := cspan is_number (tl s2) in
    match nd, nf with
    | O, O => O                              (* lone dot: back to prev_pos *)
    | _, _ => (nd + (1 + nf))%nat
    end
  else nd.
Definition consume_number (s : str) : nat :=
  let neg := cpeek_is c_dash s in
  match number_body (if neg then tl s else s) with
  | O => O                                   (* consumed dash only: bail out *)
  | used => ((if neg then 1 else 0) + used)%nat
  end.

(* number_value: number with optional unit ('%' or an alpha word) *)
Definition cnumber_value (s : str) : ccres :=
  match consume_number s with
  | O => CNone
  | n =>
      let raw := firstn n s in
      match dec_of_raw raw with
      | None => CInt IK_Value                               (* float(raw_value) *)
      | Some v =>
          let rest := skipn n s in
          let nu := if cpeek_is c_percent rest then 1%nat else cspan is_alpha_word rest in
          CTok (CNumber v raw (firstn nu rest)) (n + nu)
      end
  end.

(* color_alpha: (alpha text, consumed) *)
Definition color_alpha (s : str) : str * nat :=
  if cpeek_is c_dot s then
    match cspan is_number (tl s) with
    | O => ([c_0 + 1], 1%nat)                              (* '1' *)
    | nd => (firstn (S nd) s, S nd)
    end
  else ([], O).

Definition rep2 (c : char) : str := [c; c].

(* parse_color(value, alpha) -> (r, g, b, a); None = ValueError of int(.., 16) / float() *)
Definition parse_color (value alpha : str) : option (N * N * N * dec) :=
  let ao := match alpha with
            | [] => Some dec_one
            | _ => dec_of_raw alpha
            end in
  match ao with
  | None => None
  | Some a0 =>
      let zero := [c_0] in
      let '(r, g, b, a) :=
        if str_eqb value [c_t] then (zero, zero, zero, dec_zero)
        else
          match value with
          | [] => (zero, zero, zero, a0)
          | [x] => (rep2 x, rep2 x, rep2 x, a0)
          | [x; y] => (value, value, value, a0)
          | [x; y; z] => (rep2 x, rep2 y, rep2 z, a0)
          | _ => let v := rjust0 6 value in
                 (slice v 0 2, slice v 2 4, slice v 4 6, a0)
          end in
      match hex_value r, hex_value g, hex_value b with
      | Some rv, Some gv, Some bv => Some (rv, gv, bv, a)
      | _, _, _ => None
      end
  end.

(* color_value: '#' hex* alpha? | '#t' alpha? | '#' alpha | '#' at the end;
   otherwise a lone '#' is a literal *)
Definition ccolor_value (s : str) : ccres :=
  match s with
  | c :: r =>
      if c =? c_hash then
        let nh := cspan is_hex r in
        let '(color, alpha, used) :=
          match nh with
          | S _ => let '(al, na) := color_alpha (skipn nh r) in (firstn nh r, al, (nh + na)%nat)
          | O =>
              if cpeek_is c_t r then
                let '(al, na) := color_alpha (tl r) in
                ([c_0], match al with [] => [c_0] | _ => al end, S na)
              else
                let '(al, na) := color_alpha r in ([], al, na)
          end in
        let at_eof := match skipn used r with [] => true | _ => false end in
        match color, alpha, at_eof with
        | [], [], false => CTok (CLiteral [c_hash]) 1      (* create_literal(scanner, start) *)
        | _, _, _ =>
            match parse_color color alpha with
            | Some (rv, gv, bv, a) => CTok (CColor rv gv bv a (firstn used r)) (S used)
            | None => CInt IK_Value
            end
        end
      else CNone
  | [] => CNone
  end.

(* index of the closing quote in [s], if any *)
Fixpoint find_quote (q : char) (s : str) : option nat :=
  match s with
  | [] => None
  | c :: r => if c =? q then Some O
              else match find_quote q r with Some n => Some (S n) | None => None end
  end.

Definition cstring_value (s : str) : ccres :=
  match s with
  | c :: r =>
      if is_quote c then
        match find_quote c r with
        | Some n => CTok (CString (firstn n r) (c =? c_squote)) (n + 2)
        | None => CTok (CString r (c =? c_squote)) (S (length r))     (* malformed string: no error *)
        end
      else CNone
  | [] => CNone
  end.

Definition cbracket (s : str) : ccres :=
  match s with
  | c :: _ => if is_cbracket c then CTok (CBracket (c =? c_lparen)) 1 else CNone
  | [] => CNone
  end.

(* OPERATOR_MAP.get(ch), over the table regenerated from the source *)
Definition coperator (s : str) : ccres :=
  match s with
  | c :: _ => match assoc_N c css_operator_map with
              | Some op => CTok (COperator op) 1
              | None => CNone
              end
  | [] => CNone
  end.

Definition cwhite_space (s : str) : ccres :=
  match cspan is_space s with
  | O => CNone
  | n => CTok CWhiteSpace n
  end.

(* literal(scanner, short); [at_start] = (scanner.pos == 0) *)
Definition cliteral (short at_start : bool) (s : str) : ccres :=
  match s with
  | c :: r =>
      if is_ident_prefix c then
        let n := S (cspan (if at_start then is_cliteral else is_keyword) r) in
        CTok (CLiteral (firstn n s)) n
      else if is_alpha_word c then
        let n := S (cspan (if short then is_cliteral else is_keyword) r) in
        CTok (CLiteral (firstn n s)) n
      else
        let d := cpeek_is c_dot s in
        let n := ((if d then 1 else 0) + cspan is_cliteral (if d then r else s))%nat in
        match n with
        | O => CNone
        | _ => CTok (CLiteral (firstn n s)) n
        end
  | [] => CNone
  end.

Definition corelse (a : ccres) (b : unit -> ccres) : ccres :=
  match a with CNone => b tt | _ => a end.

(* the chain of alternatives of one loop round *)
Definition cconsume (short at_start : bool) (s : str) : ccres :=
  corelse (ccustom_property s) (fun _ =>
  corelse (cfield s) (fun _ =>
  corelse (cnumber_value s) (fun _ =>
  corelse (ccolor_value s) (fun _ =>
  corelse (cstring_value s) (fun _ =>
  corelse (cbracket s) (fun _ =>
  corelse (coperator s) (fun _ =>
  corelse (cwhite_space s) (fun _ =>
  cliteral short at_start s)))))))).

Definition should_consume_dash_after (k : ckind) : bool :=
  match k with
  | CColor _ _ _ _ _ => true
  | CNumber _ _ u => match u with [] => true | _ => false end
  | _ => false
  end.

(* merge_tokens: pop trailing Literal / NumberValue tokens (head of [acc]) *)
Definition is_lit_or_num (k : ckind) : bool :=
  match k with CLiteral _ | CNumber _ _ _ => true | _ => false end.
Fixpoint merge_pop (acc : list ctoken) (st en : nat) : list ctoken * nat * nat :=
  match acc with
  | t :: rest =>
      if is_lit_or_num (ck t)
      then merge_pop rest (cstart t) (match en with O => cend t | _ => en end)
      else (acc, st, en)
  | [] => ([], st, en)
  end.
Definition merge_tokens (src : str) (acc : list ctoken) : list ctoken :=
  let '(rest, st, en) := merge_pop acc O O in
  if Nat.eqb st en then rest
  else mkCTok (CLiteral (slice src st en)) st en :: rest.

Inductive ctres := CTOk (l : list ctoken) | CTErr (pos : nat) | CTInternal (kind : N).

Fixpoint ctoks (src : str) (is_value : bool) (skip brackets : nat) (acc : list ctoken)
         (pos : nat) (s : str) : ctres :=
  match s with
  | [] => CTOk (rev acc)
  | c :: r =>
      match skip with
      | S k => ctoks src is_value k brackets acc (S pos) r
      | O =>
          match cconsume (Nat.eqb brackets 0 && negb is_value) (Nat.eqb pos 0) s with
          | CNone => CTErr pos                              (* Unexpected character *)
          | CErr off => CTErr (pos + off)
          | CInt k => CTInternal k
          | CTok k n =>
              let t := mkCTok k pos (pos + n) in
              match k with
              | CBracket op =>
                  let acc1 := if Nat.eqb brackets 0 && op then merge_tokens src acc else acc in
                  match op, brackets with
                  | false, O => CTErr pos                   (* Unexpected bracket at token.start *)
                  | _, _ =>
                      ctoks src is_value (pred n) (if op then S brackets else pred brackets)
                            (t :: acc1) (S pos) r
                  end
              | _ =>
                  (* forcibly consume the next operator after a unit-less number or a color *)
                  match (if should_consume_dash_after k then coperator (skipn n s) else CNone) with
                  | CTok k2 _ =>
                      ctoks src is_value n brackets
                            (mkCTok k2 (pos + n) (pos + n + 1) :: t :: acc) (S pos) r
                  | _ => ctoks src is_value (pred n) brackets (t :: acc) (S pos) r
                  end
              end
          end
      end
  end.

Definition ctokenize (is_value : bool) (s : str) : ctres := ctoks s is_value 0 0 [] 0 s.
