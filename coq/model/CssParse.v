(* Model of emmet/css_matcher/parse.py: split_value, is_operator, is_minus_operator.
   Definitions only.  The loop consumes at least one character per round: structural
   recursion on the value with a skip counter. *)
From Emmet Require Import lib.Base model.CssScan model.CssMatch.
Local Open Scope Z_scope.

(* operators = '+/*,' ; `ch in operators` for a one-character string *)
Definition is_operator (c : char) : bool :=
  ((c =? c_plus) || (c =? c_slash) || (c =? c_star) || (c =? c_comma))%N.

Record vstate := mkVs { vs_start : Z; vs_expr : Z }.

(* one round at [pos] over the non-empty remaining input:
   (characters consumed, new state, token emitted (value-relative)) *)
Definition split_round (st : vstate) (pos : Z) (s : str) : nat * vstate * list range :=
  match s with
  | [] => (O, st, [])
  | c :: r =>
      let delim : option nat :=
        if is_space c then Some 1%nat
        else if negb (Nat.eqb (comment_len s) O) then Some (comment_len s)
        else if is_operator c then Some 1%nat
        else if (c =? c_dash)%N then
          (* is_minus_operator: '-' followed by a space character *)
          match r with
          | c2 :: _ => if is_space c2 then Some 2%nat else None
          | [] => None
          end
        else None in
      match delim with
      | Some k =>
          let n := (k + cspan is_space (skipn k s))%nat in
          if negb (truthyZ (vs_expr st)) && negb (vs_start st =? -1)
          then (n, mkVs (-1) (vs_expr st), [(vs_start st, pos)])
          else (n, st, [])
      | None =>
          let start := if vs_start st =? -1 then pos else vs_start st in
          if (c =? c_lparen)%N then (1%nat, mkVs start (vs_expr st + 1), [])
          else if (c =? c_rparen)%N then (1%nat, mkVs start (vs_expr st - 1), [])
          else if is_quote c then (literal_len s, mkVs start (vs_expr st), [])
          else (1%nat, mkVs start (vs_expr st), [])
      end
  end.

Fixpoint split_go (skip : nat) (st : vstate) (pos : Z) (s : str) : list range :=
  match s with
  | [] =>
      (* `if start != -1 and start != scanner.pos` *)
      if negb (vs_start st =? -1) && negb (vs_start st =? pos) then [(vs_start st, pos)] else []
  | _ :: r =>
      match skip with
      | S k => split_go k st (pos + 1) r
      | O =>
          let '(n, st', out) := split_round st pos s in
          out ++ split_go (pred n) st' (pos + 1) r
      end
  end.

(* split_value(value, offset) *)
Definition split_value (value : str) (offset : Z) : list range :=
  map (fun r => (offset + fst r, offset + snd r)) (split_go 0 (mkVs (-1) 0) 0 value).
