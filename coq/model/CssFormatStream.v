(* Stream model of emmet/stylesheet/format.py: the same functions as model/CssFormat.v
   (stringify, css_property, css_property_value, output_important, output_value,
   output_token), written against the output stream of model/OutStream.v instead of
   a string, so that every invocation of output.text / output.field is an event that
   carries the offset, line and column the callback is given.

   output.text is the identity (the library default).  output.field is ANY function of
   (index, placeholder): [cf_field]; the event of a field invocation records the
   RETURNED string (that is what the stream writes), and the index it was given as
   [idx_code index] (a CSS field may have no index: `${name}`).

   Float-free: the record [cssfmt] holds exactly the options format.py and
   output_stream.py read.  proofs/CssFormatStreamEq.v proves that the text of this stream
   is model/CssFormat.stringify.  Definitions only. *)
From Coq Require Import String.
From Emmet Require Import lib.Base lib.StyleLib model.CssTokenizer model.CssParser model.Color
     model.MarkupConvert model.OutStream.
Local Open Scope N_scope.

Record cssfmt := mkCssFmt {
  cf_fmt : ofmt;                          (* output.indent, output.baseIndent, output.newline *)
  cf_between : str;                       (* stylesheet.between *)
  cf_after : str;                         (* stylesheet.after *)
  cf_short_hex : bool;                    (* stylesheet.shortHex *)
  cf_json : bool;                         (* stylesheet.json *)
  cf_json_dq : bool;                      (* stylesheet.jsonDoubleQuotes *)
  cf_skip_unmatched : bool;               (* stylesheet.skipUnmatched *)
  cf_format : bool;                       (* output.format *)
  cf_field : option N -> str -> str       (* output.field(index, placeholder, ...) -> returned string *)
}.

(* the two callbacks the harness uses: the library default and an editor tabstop *)
Definition field_identity (index : option N) (placeholder : str) : str := placeholder.
Definition field_tabstop (index : option N) (placeholder : str) : str :=
  lit "${" ++ (match index with Some i => str_of_N i | None => [] end)
           ++ (match placeholder with [] => [] | _ => c_colon :: placeholder end) ++ [c_rbrace].

(* the index a field callback was given, as a number: None -> 0, Some i -> i + 1 *)
Definition idx_code (index : option N) : N := match index with None => 0 | Some i => N.succ i end.

(* out.push_field(index, placeholder) *)
Definition cs_push_field (c : cssfmt) (o : ostream) (index : option N) (placeholder : str) : ostream :=
  os_push_field o (idx_code index) (cf_field c index placeholder).
(* out.push_string(value) *)
Definition cs_push_string (c : cssfmt) (o : ostream) (value : str) : ostream := os_push_string (cf_fmt c) o value.

(* prev_end as in model/CssFormat.v: None = -1, Some None = Python None, Some (Some n) = n *)
Definition same_pos (start : option nat) (prev_end : option (option nat)) : bool :=
  match start, prev_end with
  | Some a, Some (Some b) => Nat.eqb a b
  | _, _ => false                  (* repaired: a Field without a position is never adjacent *)
  end.
Definition q_of (single : bool) : str := if single then [c_squote] else [c_dquote].

(* is a delimiter pushed before token [t] (not the first of its value)? *)
Definition needs_space (t : cval) (prev_end : option (option nat)) : bool :=
  match t with
  | VTok (CField _ _) st _ => negb (same_pos st prev_end)
  | _ => true
  end.
Definition end_of (t : cval) : option (option nat) :=
  match t with VTok _ _ en => Some en | VFunc _ _ => None end.

(* output_token(token, out, config) *)
Fixpoint s_output_token (c : cssfmt) (token : cval) (o : ostream) {struct token} : ostream :=
  match token with
  | VTok (CColor r g b a _) _ _ => os_push o (color r g b a (cf_short_hex c))
  | VTok (CLiteral v) _ _ => cs_push_string c o v
  | VTok (CCustomProperty v) _ _ => cs_push_string c o v
  | VTok (CNumber value _ u) _ _ => cs_push_string c o (frac value 4 ++ u)
  | VTok (CString v single) _ _ => cs_push_string c o (q_of single ++ v ++ q_of single)
  | VTok (CField name index) _ _ => cs_push_field c o index name
  | VTok _ _ _ => o                                     (* no branch for other tokens *)
  | VFunc name args =>
      let fix out_value (vs : list cval) (first : bool) (prev_end : option (option nat)) (o : ostream) : ostream :=
        match vs with
        | [] => o
        | t :: r =>
            let o1 := if negb first && needs_space t prev_end then os_push o [c_space] else o in
            out_value r false (end_of t) (s_output_token c t o1)
        end in
      let fix out_args (l : list (list cval)) (first : bool) (o : ostream) : ostream :=
        match l with
        | [] => o
        | a :: r =>
            let o1 := if first then o else os_push o (lit ", ") in
            out_args r false (out_value a true None o1)
        end in
      os_push (out_args args true (os_push o (name ++ [c_lparen]))) [c_rparen]
  end.

(* output_value(value, out, config) *)
Fixpoint s_output_value_from (c : cssfmt) (vs : list cval) (first : bool) (prev_end : option (option nat))
         (o : ostream) : ostream :=
  match vs with
  | [] => o
  | t :: r =>
      let o1 := if negb first && needs_space t prev_end then os_push o [c_space] else o in
      s_output_value_from c r false (end_of t) (s_output_token c t o1)
  end.
Definition s_output_value (c : cssfmt) (value : cssvalue) (o : ostream) : ostream :=
  s_output_value_from c value true None o.

(* the arguments of a FunctionCall, as output_token writes them *)
Fixpoint s_output_args (c : cssfmt) (l : list (list cval)) (first : bool) (o : ostream) : ostream :=
  match l with
  | [] => o
  | a :: r =>
      let o1 := if first then o else os_push o (lit ", ") in
      s_output_args c r false (s_output_value c a o1)
  end.

(* output_important(node, out, separator) *)
Definition s_output_important (node : cssprop) (separator : bool) (o : ostream) : ostream :=
  if pimportant node then os_push (if separator then os_push o [c_space] else o) (lit "!important") else o.

Definition get_quote (c : cssfmt) : str := if cf_json_dq c then [c_dquote] else [c_squote].

Definition get_single_numeric (node : cssprop) : option (dec * str) :=
  match pvalue node with
  | [[VTok (CNumber value _ u) _ _]] => Some (value, u)
  | _ => None
  end.

Fixpoint s_join_values (c : cssfmt) (l : list cssvalue) (first : bool) (o : ostream) : ostream :=
  match l with
  | [] => o
  | v :: r =>
      let o1 := if first then o else os_push o (lit ", ") in
      s_join_values c r false (s_output_value c v o1)
  end.

(* css_property_value(node, out, config) *)
Definition s_css_property_value (c : cssfmt) (node : cssprop) (o : ostream) : ostream :=
  let num := if cf_json c then get_single_numeric node else None in
  let quoted (o : ostream) : ostream :=
    let o1 := if cf_json c then os_push o (get_quote c) else o in
    let o2 := s_join_values c (pvalue node) true o1 in
    if cf_json c then os_push o2 (get_quote c) else o2 in
  match num with
  | Some (value, u) =>
      if match u with [] => true | _ => str_eqb u (lit "px") end then os_push o (frac value 4)
      else quoted o
  | None => quoted o
  end.

(* to_camel_case: re.sub(r'\-(\w)', upper, text) *)
Fixpoint to_camel_case (s : str) : str :=
  match s with
  | [] => []
  | c :: r =>
      if c =? c_dash then
        match r with
        | d :: r' => if is_alpha_numeric_word d then upper_c d :: to_camel_case r' else c :: to_camel_case r
        | [] => [c]
        end
      else c :: to_camel_case r
  end.

(* css_property(node, out, config) *)
Definition s_css_property (c : cssfmt) (node : cssprop) (o : ostream) : ostream :=
  match pname node with
  | Some name0 =>
      let name := if cf_json c then to_camel_case name0 else name0 in
      let o1 := cs_push_string c o (name ++ cf_between c) in
      let o2 := match pvalue node with
                | [] => cs_push_field c o1 (Some 0) []
                | _ => s_css_property_value c node o1
                end in
      if cf_json c then os_push o2 [c_comma]
      else os_push (s_output_important node true o2) (cf_after c)
  | None =>
      let o1 := fold_left (fun o css_val => fold_left (fun o v => s_output_token c v o) css_val o) (pvalue node) o in
      s_output_important node (match pvalue node with [] => false | _ => true end) o1
  end.

Fixpoint s_stringify_from (c : cssfmt) (l : list cssprop) (first : bool) (o : ostream) : ostream :=
  match l with
  | [] => o
  | p :: r =>
      let o1 := if cf_format c && negb first then os_push_newline (cf_fmt c) o (Some None) else o in
      s_stringify_from c r false (s_css_property c p o1)
  end.

Definition kept (c : cssfmt) (abbr : list cssprop) : list cssprop :=
  if cf_skip_unmatched c then filter (fun n => psnippet n || pimportant n) abbr else abbr.

(* stringify(abbr, config): the stream at `return out.value` *)
Definition css_stream (c : cssfmt) (abbr : list cssprop) : ostream :=
  s_stringify_from c (kept c abbr) true os_empty.
