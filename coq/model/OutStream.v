(* Model of emmet/output_stream.py.  The stream records one event per callback
   invocation (output.text / output.field), with the offset, line and column the
   callback receives.  Callbacks are the documented defaults (text -> text,
   field -> placeholder); a recording callback that returns the same strings sees
   exactly these events.  Definitions only. *)
From Emmet Require Import lib.Base model.MarkupConvert.

(* [nl] is a ghost flag: the push made by push_newline (newline ++ baseIndent).  It is not
   observable (the wire encoding drops it); theorems about lines and columns use it. *)
Inductive oevent :=
| EvText (nl : bool) (s : str) (off line col : nat)
| EvField (idx : N) (ph : str) (off line col : nat).

Definition ev_text (e : oevent) : str := match e with EvText _ s _ _ _ => s | EvField _ ph _ _ _ => ph end.

Record ofmt := mkOfmt { of_indent : str; of_base_indent : str; of_newline : str }.

Record ostream := mkOs {
  os_events : list oevent;       (* most recent first *)
  os_level : Z;
  os_offset : nat;
  os_line : nat;
  os_column : nat }.

Definition os_empty : ostream := mkOs [] 0 0 0 0.
Definition os_value (o : ostream) : str := concat (map ev_text (rev (os_events o))).
Definition os_set_level (o : ostream) (l : Z) : ostream :=
  mkOs (os_events o) l (os_offset o) (os_line o) (os_column o).
Definition os_add_level (o : ostream) (d : Z) : ostream := os_set_level o (os_level o + d)%Z.

(* push(text): the text callback is invoked, its result is appended *)
Definition os_push_gen (nl : bool) (o : ostream) (s : str) : ostream :=
  mkOs (EvText nl s (os_offset o) (os_line o) (os_column o) :: os_events o) (os_level o)
       (os_offset o + length s) (os_line o) (os_column o + length s).
Definition os_push (o : ostream) (s : str) : ostream := os_push_gen false o s.

(* line feeds in a string, and the column reached after writing it from column [col]
   (a line feed resets the column) *)
Fixpoint lf_count (s : str) : nat :=
  match s with
  | [] => 0
  | c :: r => (if (c =? c_nl)%N then 1 else 0) + lf_count r
  end.
Fixpoint col_after (col : nat) (s : str) : nat :=
  match s with
  | [] => col
  | c :: r => if (c =? c_nl)%N then col_after 0 r else col_after (S col) r
  end.

(* push_field(index, placeholder): the field text is written as is; line and column follow
   the line feeds it contains *)
Definition os_push_field (o : ostream) (idx : N) (ph : str) : ostream :=
  mkOs (EvField idx ph (os_offset o) (os_line o) (os_column o) :: os_events o) (os_level o)
       (os_offset o + length ph) (os_line o + lf_count ph) (col_after (os_column o) ph).

(* push_indent(size) *)
Definition os_push_indent (f : ofmt) (o : ostream) (size : Z) : ostream :=
  os_push o (repeat_str (of_indent f) (Z.to_nat (Z.max size 0))).

(* push_newline(indent): [ind] = None (falsy: None/False/0), Some None (True: current level),
   Some (Some n) (an explicit non-zero size) *)
Definition os_push_newline (f : ofmt) (o : ostream) (ind : option (option Z)) : ostream :=
  let o1 := os_push_gen true o (of_newline f ++ of_base_indent f) in
  let o2 := mkOs (os_events o1) (os_level o1) (os_offset o1) (S (os_line o1)) (length (of_base_indent f)) in
  match ind with
  | None => o2
  | Some None => os_push_indent f o2 (os_level o2)
  | Some (Some n) => os_push_indent f o2 n
  end.
(* push_newline(<int expr>): 0 is falsy *)
Definition os_push_newline_int (f : ofmt) (o : ostream) (n : Z) : ostream :=
  os_push_newline f o (if (n =? 0)%Z then None else Some (Some n)).

(* re_line_break.split(value) minus a trailing empty line: lines are separated by CR, LF or CRLF
   only (repaired: str.splitlines() also broke at \f, \v, U+001C-1E, U+0085, U+2028/9) *)
Fixpoint split_crlf_aux (s : str) (cur : str) : list str :=
  match s with
  | [] => match cur with [] => [] | _ => [rev cur] end
  | c :: s' =>
      if ((c =? c_cr) || (c =? c_nl))%N then
        match s' with
        | c2 :: s'' => if ((c =? c_cr) && (c2 =? c_nl))%N
                       then rev cur :: split_crlf_aux s'' []
                       else rev cur :: split_crlf_aux s' []
        | [] => [rev cur]
        end
      else split_crlf_aux s' (c :: cur)
  end.
Definition split_crlf (s : str) : list str := split_crlf_aux s [].

(* push_string(value): line by line *)
Definition os_push_string (f : ofmt) (o : ostream) (s : str) : ostream :=
  match split_crlf s with
  | [] => o
  | l0 :: ls =>
      fold_left (fun o' l => os_push (os_push_newline f o' (Some None)) l) ls (os_push o l0)
  end.
