(* Model of emmet/action_utils/html.py and the helpers of action_utils/utils.py
   it uses (push_range, token_list).  Definitions only. *)
From Emmet Require Import lib.Base gen.GenHtml model.HtmlScan model.HtmlMatch.
Local Open Scope Z_scope.

(* Python slicing s[a:b] for arbitrary ints (negative indices count from the end) *)
Definition py_index (len i : Z) : Z := if i <? 0 then Z.max 0 (i + len) else Z.min i len.
Definition py_slice (s : str) (a b : Z) : str :=
  let l := Z.of_nat (length s) in
  let a' := py_index l a in
  let b' := py_index l b in
  firstn (Z.to_nat (b' - a')) (skipn (Z.to_nat a') s).

(* ------------------------------------------------------------------ utils.py *)
Definition range := (Z * Z)%type.

(* push_range(ranges, rng): [ranges] kept in order *)
Definition push_range (ranges : list range) (rng : range) : list range :=
  if fst rng =? snd rng then ranges
  else match rev ranges with
       | [] => ranges ++ [rng]
       | prev :: _ =>
           if negb (fst prev =? fst rng) || negb (snd prev =? snd rng) then ranges ++ [rng] else ranges
       end.

(* token_list(value, offset): [pos] = index of the head of [s]; [start] = start of
   the current word; on a space the inner `while` skips the following spaces *)
Fixpoint token_list_go (offset : Z) (skip : nat) (pos start : Z) (s : str) : list range :=
  match s with
  | [] => if start =? pos then [] else [(offset + start, offset + pos)]
  | c :: r =>
      match skip with
      | S k => token_list_go offset k (pos + 1) start r
      | O =>
          if is_space c then
            let k := span is_space r in
            (if start =? pos then [] else [(offset + start, offset + pos)])
            ++ token_list_go offset k (pos + 1) (pos + 1 + Z.of_nat k) r
          else token_list_go offset 0 (pos + 1) start r
      end
  end.
Definition token_list (value : str) (offset : Z) : list range := token_list_go offset 0 0 0 value.

(* ------------------------------------------------------------------ html.py *)
(* value_range(attr): value[0] / value[-1] raise IndexError on '' *)
Definition value_range (v : str) (vs ve : Z) : res range :=
  match v, rev v with
  | ch :: _, last_ch :: _ =>
      if (ch =? c_dquote)%N || (ch =? c_squote)%N then
        Ok (vs + 1, ve - (if (last_ch =? ch)%N then 1 else 0))
      else if (ch =? c_lbrace)%N && (last_ch =? c_rbrace)%N then Ok (vs + 1, ve - 1)
      else Ok (vs, ve)
  | _, _ => Internal IK_Index
  end.

Definition class_name : str := [99; 108; 97; 115; 115]%N.   (* 'class' *)

Fixpoint selection_ranges (tag_src : str) (start : Z) (attrs : list attr) (ranges : list range)
  : res (list range) :=
  match attrs with
  | [] => Ok ranges
  | a :: rest =>
      match a_value a with
      | Some (v, vs, ve) =>
          let ranges := push_range ranges (start + Z.of_N (a_ns a), start + Z.of_N ve) in
          let* val := value_range v (Z.of_N vs) (Z.of_N ve) in
          let ranges :=
            if fst val =? snd val then ranges
            else
              let ranges := push_range ranges (start + fst val, start + snd val) in
              if str_eqb (a_name a) class_name
              then fold_left push_range (token_list (py_slice tag_src (fst val) (snd val)) (start + fst val)) ranges
              else ranges in
          selection_ranges tag_src start rest ranges
      | None =>
          selection_ranges tag_src start rest
            (push_range ranges (start + Z.of_N (a_ns a), start + Z.of_N (a_ne a)))
      end
  end.

Record sel_model := mkSel { sel_start : Z; sel_end : Z; sel_ranges : list range }.

(* get_tag_selection_model(code, name, start, end) *)
Definition get_tag_selection_model (code : str) (name : str) (start stop : N) : res sel_model :=
  let st := Z.of_N start in
  let tag_src := sliceN code start stop in
  let* ranges := selection_ranges tag_src st (attributes tag_src (Some name))
                   [(st + 1, st + 1 + Z.of_nat (length name))] in
  Ok (mkSel st (Z.of_N stop) ranges).

(* ContextTag *)
Record context_tag := mkCtxTag {
  ct_name : str; ct_type : etype; ct_start : N; ct_end : N; ct_attrs : option (list attr) }.

(* callback of get_open_tag: outer [None] = the scan ran to its end *)
Fixpoint open_tag_go (pos : Z) (evs : list event) : option (option event) :=
  match evs with
  | [] => None
  | e :: rest =>
      if strictly_in (ev_start e) pos (ev_end e) then Some (Some e)
      else if pos <? Z.of_N (ev_end e) then Some None
      else open_tag_go pos rest
  end.

Definition get_open_tag_of (code : str) (sc : list event * option N) (pos : Z) : res (option context_tag) :=
  after_scan sc (open_tag_go pos (fst sc))
    (fun r => match r with
              | Some (Some e) =>
                  Some (mkCtxTag (ev_name e) (ev_type e) (ev_start e) (ev_end e)
                          (match ev_type e with
                           | EClose => None
                           | _ => Some (get_attributes code (ev_start e) (ev_end e) (ev_name e))
                           end))
              | _ => None
              end).
Definition get_open_tag (code : str) (pos : Z) : res (option context_tag) :=
  get_open_tag_of code (scan (o_special default_opts) code) pos.

Definition is_open_or_self (e : event) : bool :=
  match ev_type e with EClose => false | _ => true end.

(* callback of select_next_item *)
Fixpoint next_item_go (pos : Z) (evs : list event) : option event :=
  match evs with
  | [] => None
  | e :: rest =>
      if is_open_or_self e && (pos <? Z.of_N (ev_end e)) then Some e else next_item_go pos rest
  end.

Definition select_next_item_of (code : str) (sc : list event * option N) (pos : Z) : res (option sel_model) :=
  let* r := after_scan sc (next_item_go pos (fst sc)) (fun r => r) in
  match r with
  | Some e => let* m := get_tag_selection_model code (ev_name e) (ev_start e) (ev_end e) in Ok (Some m)
  | None => Ok None
  end.

(* callback of select_previous_item: (stopped by `return False`, last) *)
Fixpoint prev_item_go (pos : Z) (last : option event) (evs : list event) : bool * option event :=
  match evs with
  | [] => (false, last)
  | e :: rest =>
      if Z.of_N (ev_start e) >=? pos then (true, last)
      else prev_item_go pos (if is_open_or_self e then Some e else last) rest
  end.

Definition select_previous_item_of (code : str) (sc : list event * option N) (pos : Z) : res (option sel_model) :=
  let '(stopped, last) := prev_item_go pos None (fst sc) in
  match stopped, snd sc with
  | false, Some err => Internal err
  | _, _ =>
      match last with
      | Some e => let* m := get_tag_selection_model code (ev_name e) (ev_start e) (ev_end e) in Ok (Some m)
      | None => Ok None
      end
  end.

Definition select_item_html_of (code : str) (sc : list event * option N) (pos : Z) (is_prev : bool)
  : res (option sel_model) :=
  if is_prev then select_previous_item_of code sc pos else select_next_item_of code sc pos.
Definition select_item_html (o : opts) (code : str) (pos : Z) (is_prev : bool) : res (option sel_model) :=
  select_item_html_of code (scan (o_special o) code) pos is_prev.
