(* Model of emmet/markup/lorem/__init__.py: the text generator (randint draws, sample, choice, sentence,
   insert_commas, paragraph) and the word-count part of lorem().  Definitions only.

   RANDOMNESS.  The only nondeterminism of the module is `random.randint(a, b)`.  It is an explicit ORACLE here:
   every function takes the stream of RAW draws still unused (a list of arbitrary integers) and returns the rest.
   One call of randint(a, b) consumes one raw draw d and returns  a + d mod (b - a + 1)  (Coq's Z.modulo = Python's %
   for a positive modulus: 0 <= result - a <= b - a for EVERY integer d).  This choice -- rather than a stream of
   values that must already lie in range -- makes every stream a legal oracle: the theorems quantify over all
   streams without a side condition, and the harness patches `emmet.markup.lorem.randint` with exactly this
   function of a recorded raw stream.  randint(a, b) with b < a is Python's ValueError (explicit Internal).

   OUTCOMES ([lres]).  LOk value rest | LExhausted (a draw was requested from the empty stream) | LFuel (the fuel of
   the `while total_words < word_count` loop of paragraph() ran out; the caller supplies 1 + the length of the stream,
   every iteration consumes at least one draw, so this is unreachable: proofs/LoremProofs.v) | LInternal kind (an
   operation that raises in Python: index out of range, randint on an empty range, words[pos][-1] on an empty word,
   db None).  `sample()` is a rejection loop (`while len(result) < iterations`): every iteration consumes one draw, so
   it is structural recursion on the stream -- the fuel IS the stream; a stream that keeps repeating an index ends in
   LExhausted, never in a silently totalised result.

   str.capitalize() of the first word of a sentence: only vocabulary words (possibly with the comma insert_commas
   appended) are capitalised; gen/GenLorem.v holds what the running interpreter makes of every first character of a
   vocabulary word, and generation verified w.capitalize() = table[w[0]] + w[1:] for every word (and word + comma).
   A first character outside the table is LInternal IK_Cap ("outside the model"), shown unreachable. *)
From Emmet Require Import lib.Base gen.GenLorem.
Local Open Scope Z_scope.

Inductive lres (A : Type) : Type :=
| LOk (a : A) (rest : list Z)
| LExhausted
| LFuel
| LInternal (kind : N).
Arguments LOk {A} a rest.
Arguments LExhausted {A}.
Arguments LFuel {A}.
Arguments LInternal {A} kind.

Definition lbind {A B} (r : lres A) (f : A -> list Z -> lres B) : lres B :=
  match r with
  | LOk a rest => f a rest
  | LExhausted => LExhausted
  | LFuel => LFuel
  | LInternal k => LInternal k
  end.
Notation "'let+' x 'from' s ':=' r 'in' k" := (lbind r (fun x s => k))
  (at level 200, x name, s name, r at level 100, k at level 200).

Definition IK_Cap : N := 20%N.          (* capitalize of a character outside the generated table *)

(* random.randint(a, b) against the oracle *)
Definition randint (a b : Z) (s : list Z) : lres Z :=
  if b <? a then LInternal IK_Value       (* ValueError: empty range *)
  else match s with
       | [] => LExhausted
       | d :: r => LOk (a + d mod (b - a + 1)) r
       end.

Definition zlen {A} (l : list A) : Z := Z.of_nat (length l).

(* l[i] with Python's index rules: negative indices count from the end; None = IndexError *)
Definition py_pos {A} (l : list A) (i : Z) : option nat :=
  if i <? 0 then (if 0 <=? zlen l + i then Some (Z.to_nat (zlen l + i)) else None)
  else if i <? zlen l then Some (Z.to_nat i) else None.
Definition py_index {A} (l : list A) (i : Z) : option A :=
  match py_pos l i with Some k => nth_error l k | None => None end.

(* l[0:n] with Python's slice rules *)
Definition py_prefix {A} (l : list A) (n : Z) : list A :=
  if n <? 0 then firstn (Z.to_nat (Z.max 0 (zlen l + n))) l
  else firstn (Z.to_nat (Z.min n (zlen l))) l.

Fixpoint set_nth {A} (k : nat) (x : A) (l : list A) : list A :=
  match l, k with
  | [], _ => []
  | _ :: r, O => x :: r
  | y :: r, S k' => y :: set_nth k' x r
  end.

(* def sample(arr, count):
     l = len(arr); iterations = min(l, count); result = []
     while len(result) < iterations:
         item = arr[randint(0, l - 1)]
         if item not in result: result.append(item)
   One draw per iteration: structural recursion on the stream.  The two matches are randint 0 (l-1) s spelled
   out (LoremProofs.sample_loop_eq states the loop with randint). *)
Fixpoint sample_loop (arr : list str) (l iterations : Z) (result : list str) (s : list Z) {struct s}
  : lres (list str) :=
  if zlen result <? iterations then
    if l - 1 <? 0 then LInternal IK_Value
    else match s with
         | [] => LExhausted
         | d :: r =>
             match py_index arr (0 + d mod (l - 1 - 0 + 1)) with
             | None => LInternal IK_Index
             | Some item =>
                 sample_loop arr l iterations (if mem_str item result then result else result ++ [item]) r
             end
         end
  else LOk result s.
Definition sample (arr : list str) (count : Z) (s : list Z) : lres (list str) :=
  let l := zlen arr in
  sample_loop arr l (Z.min l count) [] s.

(* def choice(val): return val[randint(0, len(val) - 1)] *)
Definition choice (val : str) (s : list Z) : lres char :=
  let+ i from s1 := randint 0 (zlen val - 1) s in
  match py_index val i with
  | Some c => LOk c s1
  | None => LInternal IK_Index
  end.

(* str.capitalize() of a vocabulary word (see the header) *)
Definition capitalize (w : str) : option str :=
  match w with
  | [] => Some []
  | c :: r => match assoc_N c lorem_cap_first with
              | Some u => Some (u ++ r)
              | None => None
              end
  end.

(* def sentence(words, end=None):
     if words: words = [words[0].capitalize()] + words[1:]
     return ' '.join(words) + (end or choice('?!...')) *)
Definition sentence (words : list str) (end_ : option str) (s : list Z) : lres str :=
  match (match words with
         | [] => Some []
         | w :: r => match capitalize w with Some c => Some (c :: r) | None => None end
         end) with
  | None => LInternal IK_Cap
  | Some ws =>
      match end_ with
      | Some (c :: e) => LOk (join [c_space] ws ++ c :: e) s
      | _ => let+ c from s1 := choice lorem_sentence_ends s in
             LOk (join [c_space] ws ++ [c]) s1
      end
  end.

(* def insert_commas(words):
     if len(words) < 2: return words
     words = words[:]; l = len(words)
     if 3 < l <= 6: total_commas = randint(0, 1)
     elif 6 < l <= 12: total_commas = randint(0, 2)
     else: total_commas = randint(1, 4)            # also for l = 2 and l = 3
     for _ in range(total_commas):
         pos = randint(0, l - 2)
         if words[pos][-1] != ',': words[pos] += ','
     return words *)
Fixpoint commas_loop (k : nat) (l : Z) (words : list str) (s : list Z) : lres (list str) :=
  match k with
  | O => LOk words s
  | S k' =>
      let+ pos from s1 := randint 0 (l - 2) s in
      match py_pos words pos with
      | None => LInternal IK_Index
      | Some p =>
          match nth_error words p with
          | None => LInternal IK_Index
          | Some w =>
              match py_index w (-1) with
              | None => LInternal IK_Index                    (* ''[-1] *)
              | Some c =>
                  commas_loop k' l (if (c =? c_comma)%N then words else set_nth p (w ++ [c_comma]) words) s1
              end
          end
      end
  end.
Definition insert_commas (words : list str) (s : list Z) : lres (list str) :=
  let l := zlen words in
  if l <? 2 then LOk words s
  else
    let+ total from s1 :=
      (if (3 <? l) && (l <=? 6) then randint 0 1 s
       else if (6 <? l) && (l <=? 12) then randint 0 2 s
       else randint 1 4 s) in
    commas_loop (Z.to_nat total) l words s1.       (* range(n) for n <= 0 is empty: Z.to_nat *)

(* a vocabulary: db.get('common') when 'common' in db, db['words'] *)
Definition vocabulary := (option (list str) * list str)%type.

(* def paragraph(db, word_count, start_with_common=False):
     result = []; total_words = 0
     if start_with_common and 'common' in db:
         words = db['common'][0:word_count]
         total_words += len(words)
         result.append(sentence(insert_commas(words), '.'))
     while total_words < word_count:
         words = sample(db['words'], min(randint(2, 30), word_count - total_words))
         total_words += len(words)
         result.append(sentence(insert_commas(words)))
     return ' '.join(result) *)
Fixpoint para_loop (fuel : nat) (db : vocabulary) (word_count total : Z) (result : list str) (s : list Z)
  : lres str :=
  if total <? word_count then
    match fuel with
    | O => LFuel
    | S f =>
        let+ r from s1 := randint 2 30 s in
        let+ words from s2 := sample (snd db) (Z.min r (word_count - total)) s1 in
        let+ ws from s3 := insert_commas words s2 in
        let+ sent from s4 := sentence ws None s3 in
        para_loop f db word_count (total + zlen words) (result ++ [sent]) s4
    end
  else LOk (join [c_space] result) s.

Definition c_dot_str : str := [c_dot].
Definition paragraph (fuel : nat) (db : vocabulary) (word_count : Z) (start_with_common : bool) (s : list Z)
  : lres str :=
  match (if start_with_common then fst db else None) with
  | Some common =>
      let words := py_prefix common word_count in
      let+ ws from s1 := insert_commas words s in
      let+ sent from s2 := sentence ws (Some c_dot_str) s1 in
      para_loop fuel db word_count (zlen words) [sent] s2
  | None => para_loop fuel db word_count 0 [] s
  end.

(* db = vocabularies.get(m.group(1)) or vocabularies.get('latin')   (no key lowering: `loremRU` is latin) *)
Definition s_latin : str := [108;97;116;105;110]%N.
Definition lorem_db (lang : str) : option vocabulary :=
  match assoc_str lang lorem_vocabularies with
  | Some db => Some db
  | None => assoc_str s_latin lorem_vocabularies
  end.

(* the word counts of the header:
     min_word_count = max(1, int(m.group(2))) if m.group(2) else 30
     max_word_count = max(min_word_count, int(m.group(3)[1:])) if m.group(3) and m.group(3)[1:] else min_word_count
   [minw] = int of group 2 when it is not empty; [maxw] = None: no group 3, Some None: a dash without digits *)
Definition lorem_min (minw : option N) : Z :=
  match minw with Some n => Z.max 1 (Z.of_N n) | None => 30 end.
Definition lorem_max (minw : option N) (maxw : option (option N)) : Z :=
  match maxw with
  | Some (Some n) => Z.max (lorem_min minw) (Z.of_N n)
  | _ => lorem_min minw
  end.

(* the generating part of lorem():
     word_count = randint(min_word_count, max_word_count)
     ... paragraph(db, word_count, not repeat or repeat.value == 0)
   the fuel of the paragraph loop is 1 + the number of draws left *)
Definition lorem_text (lang : str) (minw : option N) (maxw : option (option N)) (start_with_common : bool)
           (s : list Z) : lres str :=
  let+ wc from s1 := randint (lorem_min minw) (lorem_max minw maxw) s in
  match lorem_db lang with
  | None => LInternal IK_Type                      (* 'common' in None *)
  | Some db => paragraph (S (length s1)) db wc start_with_common s1
  end.
