(* SPEC side of C17 (CSS half, Level A): what get_css_section / select_item_css must
   answer for a stylesheet given as a tree with recorded offsets (CssTree.node).
   Contains no scanner and no stack.  Definitions only. *)
From Emmet Require Import lib.Base model.CssScan model.CssMatch model.CssParse model.CssActions model.CssTree.
Local Open Scope Z_scope.

(* get_css_section: the first rule, children before parents, that contains pos (bounds
   included): (start, end, body_start, body_end) *)
Fixpoint section_node (n : node) (pos : Z) : option (Z * Z * Z * Z) :=
  match n with
  | Decl _ _ _ _ _ _ => None
  | Rule ss se brace ch close =>
      match first_some (fun c => section_node c pos) ch with
      | Some r => Some r
      | None => if (ss <=? pos) && (pos <=? close + 1) then Some (ss, close + 1, brace + 1, close) else None
      end
  end.
Definition section_forest (f : list node) (pos : Z) : option (Z * Z * Z * Z) :=
  first_some (fun n => section_node n pos) f.

(* the ranges select_item_css reports for a declaration: full range (when the item starts
   at the name), value, value tokens (split_value of the value text, shifted to the value),
   immediate repetitions dropped *)
Definition decl_item (code : str) (ns vs ve semi : Z) (from_name : bool) : select_item :=
  mkSI (if from_name then ns else vs) (semi + 1)
       (rev (value_ranges code (if from_name then push [] (ns, semi + 1) else []) vs ve)).
Definition selector_item (ss se : Z) : select_item := mkSI ss se [(ss, se)].

(* select next: the first part (selector, declaration name, declaration value) that starts
   at or after pos; from a name the whole declaration, from a value the rest of it *)
Fixpoint next_node (code : str) (n : node) (pos : Z) : option select_item :=
  match n with
  | Decl ns ne colon vs ve semi =>
      if pos <=? ns then Some (decl_item code ns vs ve semi true)
      else if pos <=? vs then Some (decl_item code ns vs ve semi false)
      else None
  | Rule ss se brace ch close =>
      if pos <=? ss then Some (selector_item ss se)
      else first_some (fun c => next_node code c pos) ch
  end.
Definition next_forest (code : str) (f : list node) (pos : Z) : option select_item :=
  first_some (fun n => next_node code n pos) f.

(* select previous: the last selector or declaration that starts before pos *)
Fixpoint prev_node (code : str) (n : node) (pos : Z) (cur : option select_item) : option select_item :=
  match n with
  | Decl ns ne colon vs ve semi => if ns <? pos then Some (decl_item code ns vs ve semi true) else cur
  | Rule ss se brace ch close =>
      if ss <? pos then fold_left (fun c k => prev_node code k pos c) ch (Some (selector_item ss se)) else cur
  end.
Definition prev_forest (code : str) (f : list node) (pos : Z) : option select_item :=
  fold_left (fun c k => prev_node code k pos c) f None.

(* get_css_section(properties=True): the direct declarations of a rule body.  The body is
   scanned on its own, so offsets of [items] are relative to the body start [from]; the
   last declaration may be terminated by the end of the body ([last]: name, colon, value). *)
Definition property_of (fragment : str) (from before ns ne vs ve after : Z) : css_property :=
  mkCP (from + ns, from + ne) (from + vs, from + ve)
       (split_value (py_slice fragment vs ve) (from + vs)) before after.
Fixpoint props_items (fragment : str) (from before : Z) (l : list node) : list css_property * Z :=
  match l with
  | [] => ([], before)
  | Decl ns ne colon vs ve semi :: r =>
      let '(ps, b) := props_items fragment from (from + semi + 1) r in
      (property_of fragment from before ns ne vs ve (from + semi + 1) :: ps, b)
  | Rule ss se brace ch close :: r => props_items fragment from (from + close + 1) r
  end.
Definition props_spec (fragment : str) (from : Z) (l : list node) (last : option (Z * Z * Z * Z * Z))
  : list css_property :=
  let '(ps, b) := props_items fragment from from l in
  ps ++ match last with
        | Some (ns, ne, colon, vs, ve) => [property_of fragment from b ns ne vs ve (from + ve)]
        | None => []
        end.
(* events of such a body *)
Definition body_events (l : list node) (last : option (Z * Z * Z * Z * Z)) : list event :=
  events_forest l ++ match last with
                     | Some (ns, ne, colon, vs, ve) => [mkEv PropertyName ns ne colon; mkEv PropertyValue vs ve (-1)]
                     | None => []
                     end.

(* -------- the same with the third way a body can end: the last declaration is `name :`
   followed by blanks / comments only, up to the end of the body -- no value and no `;`
   (`a { color: }`).  The scanner, run on the body alone, reports just the name with the
   offset of the colon as delimiter.  Such a declaration has an empty value placed at the end
   of the body (where the terminator would be), no value tokens, and ends there. *)
Inductive body_tail :=
| TailNone                                  (* every declaration is terminated by `;` *)
| TailValue (ns ne colon vs ve : Z)         (* name : value <end of body> *)
| TailEmpty (ns ne colon : Z).              (* name : <end of body> *)

Definition zlen_frag (fragment : str) : Z := Z.of_nat (length fragment).

Definition tail_events (t : body_tail) : list event :=
  match t with
  | TailNone => []
  | TailValue ns ne colon vs ve => [mkEv PropertyName ns ne colon; mkEv PropertyValue vs ve (-1)]
  | TailEmpty ns ne colon => [mkEv PropertyName ns ne colon]
  end.
Definition body_events_tail (l : list node) (t : body_tail) : list event := events_forest l ++ tail_events t.

Definition props_spec_tail (fragment : str) (from : Z) (l : list node) (t : body_tail) : list css_property :=
  let '(ps, b) := props_items fragment from from l in
  ps ++ match t with
        | TailNone => []
        | TailValue ns ne colon vs ve => [property_of fragment from b ns ne vs ve (from + ve)]
        | TailEmpty ns ne colon =>
            let e := zlen_frag fragment in
            [property_of fragment from b ns ne e e (from + e)]
        end.

(* the recorded colon offset really is a colon of the body text *)
Definition colon_at (fragment : str) (colon : Z) : Prop :=
  0 <= colon /\ nth_error fragment (Z.to_nat colon) = Some c_colon.
Definition tail_ok (fragment : str) (t : body_tail) : Prop :=
  match t with
  | TailEmpty ns ne colon => colon_at fragment colon
  | _ => True
  end.

(* a trailing name WITHOUT a colon (`a { b:c; color }`, delimiter -1, or `a { color; }`, where the
   scanner hands over the offset of the `;`) is not a declaration: nothing is reported for it *)
Definition no_colon_at (fragment : str) (d : Z) : Prop :=
  d = -1 \/ (0 <= d /\ nth_error fragment (Z.to_nat d) <> Some c_colon).
