(* Model of emmet/abbreviation/convert.py and emmet/abbreviation/stringify.py:
   token tree -> unrolled abbreviation tree.  Definitions only. *)
From Emmet Require Import lib.Base model.MarkupTokenizer model.MarkupParser model.MarkupHref.

(* items of a node/attribute value: str, or a Field token with an index *)
Inductive vtok := VStr (s : str) | VField (index : N) (name : str).
Inductive vtype := VRaw | VSingle | VDouble | VExpr.

Record aattr := mkAAttr {
  aa_name : option str;
  aa_value : option (list vtok);
  aa_vtype : vtype;
  aa_boolean : bool;
  aa_implied : bool;
  aa_multiple : bool }.

Inductive anode :=
| ANode (name : option str) (value : option (list vtok)) (repeat : option rep)
        (attrs : option (list aattr)) (children : list anode) (self_closing : bool).

Definition an_name (n : anode) := match n with ANode a _ _ _ _ _ => a end.
Definition an_value (n : anode) := match n with ANode _ a _ _ _ _ => a end.
Definition an_repeat (n : anode) := match n with ANode _ _ a _ _ _ => a end.
Definition an_attrs (n : anode) := match n with ANode _ _ _ a _ _ => a end.
Definition an_children (n : anode) := match n with ANode _ _ _ _ a _ => a end.
Definition an_self (n : anode) := match n with ANode _ _ _ _ _ a => a end.

(* the `text` parameter: None | str | list of lines *)
Inductive wtext := WNone | WStr (s : str) | WList (l : list str).

(* constant part of ConvertState *)
Record cenv := mkCenv {
  ce_text : wtext;
  ce_vars : list (str * str);          (* config.variables (merged) *)
  ce_href : bool }.                    (* bool(options['markup.href']): insert_wrap below *)

(* mutable part of ConvertState; repeaters: head = innermost (Python's [-1]) *)
Record cst := mkCst {
  cs_inserted : bool;
  cs_guard : Z;
  cs_repeaters : list rep;
  cs_text_inserted : bool }.

Definition is_blank (s : str) : bool := match strip s with [] => true | _ => false end.
Definition clean_text (t : wtext) : list str :=
  match t with WList l => filter (fun s => negb (is_blank s)) l | _ => [] end.

Definition set_inserted (st : cst) : cst := mkCst true (cs_guard st) (cs_repeaters st) (cs_text_inserted st).
Definition set_text_inserted (st : cst) : cst := mkCst (cs_inserted st) (cs_guard st) (cs_repeaters st) true.

(* ConvertState.get_text(pos) *)
Definition get_text_at (env : cenv) (pos : option N) (st : cst) : res (str * cst) :=
  let st' := set_text_inserted st in
  match ce_text env with
  | WList l =>
      match pos with
      | Some p =>
          match nth_error (clean_text (ce_text env)) (N.to_nat p) with
          | Some line => Ok (strip line, st')
          | None => match nth_error l (N.to_nat p) with        (* self.text[pos] *)
                    | Some line => Ok (line, st')
                    | None => Internal IK_Index
                    end
          end
      | None => Ok (join [c_nl] l, st')
      end
  | WStr s => Ok (s, st')
  | WNone => Ok ([], st')
  end.

Definition get_variable (env : cenv) (name : str) : str :=
  match assoc_str name (ce_vars env) with Some v => v | None => name end.

Definition op_char (o : optype) : option char :=
  match o with
  | OpChild => Some c_gt | OpClass => Some c_dot | OpClimb => Some c_caret | OpId => Some c_hash
  | OpEqual => Some c_eq | OpClose => Some c_slash | OpSibling => Some c_plus | OpUnknown => None
  end.

Definition zero_pad (size : N) (s : str) : str :=
  repeat_str [c_0] (N.to_nat size - length s) ++ s.

(* stringify(token, state) *)
Definition stringify (env : cenv) (t : token) (st : cst) : res (str * cst) :=
  match tk t with
  | TLiteral v => Ok (v, st)
  | TWhiteSpace v => Ok (v, st)
  | TQuote single => Ok ([if single then c_squote else c_dquote], st)
  | TBracket op b =>
      Ok ([match b, op with
           | BAttr, true => c_lbrack | BAttr, false => c_rbrack
           | BExpr, true => c_lbrace | BExpr, false => c_rbrace
           | BGroup, true => c_lparen | BGroup, false => c_rparen
           end], st)
  | TOperator o => match op_char o with Some c => Ok ([c], st) | None => Internal IK_Type end
  | TField name idx =>
      match idx with
      | Some i =>
          match name with
          | [] => Ok ([c_dollar; c_lbrace] ++ str_of_N i ++ [c_rbrace], st)
          | _ => Ok ([c_dollar; c_lbrace] ++ str_of_N i ++ [c_colon] ++ name ++ [c_rbrace], st)
          end
      | None => match name with [] => Ok ([], st) | _ => Ok (get_variable env name, st) end
      end
  | TRepeaterPlaceholder =>
      let r := find (fun r => rimplicit r) (cs_repeaters st) in
      get_text_at env (match r with Some r' => Some (rvalue r') | None => None end) (set_inserted st)
  | TRepeaterNumber size reverse base parent =>
      let value : Z :=
        match cs_repeaters st with
        | [] => 1%Z
        | r :: _ =>
            let v0 := if reverse
                      then (Z.of_N base + Z.of_N (rcount r) - Z.of_N (rvalue r) - 1)%Z
                      else (Z.of_N base + Z.of_N (rvalue r))%Z in
            if (0 <? parent)%N then
              let last_ix := (length (cs_repeaters st) - 1)%nat in
              let parent_ix := (last_ix - N.to_nat parent)%nat in       (* max(0, last_ix - parent) *)
              if Nat.eqb parent_ix last_ix then v0
              else match nth_error (cs_repeaters st) (last_ix - parent_ix) with
                   | Some pr => (v0 + Z.of_N (rcount r) * Z.of_N (rvalue pr))%Z
                   | None => v0
                   end
            else v0
        end in
      Ok (zero_pad size (str_of_Z value), st)
  | TRepeater _ _ _ => Internal IK_Exception            (* 'Unknown token Repeater' *)
  end.

(* stringify_name: ''.join(stringify(t) for t in tokens) *)
Fixpoint stringify_name (env : cenv) (toks : list token) (st : cst) : res (str * cst) :=
  match toks with
  | [] => Ok ([], st)
  | t :: r =>
      match stringify env t st with
      | Ok (s, st1) =>
          match stringify_name env r st1 with
          | Ok (s', st2) => Ok (s ++ s', st2)
          | ParseErr k p => ParseErr k p | Internal k => Internal k | OutOfFuel => OutOfFuel
          end
      | ParseErr k p => ParseErr k p | Internal k => Internal k | OutOfFuel => OutOfFuel
      end
  end.

(* stringify_value: fields with an index stay tokens, everything else is glued.
   [accum] = Some s when the Python `accum` list is non-empty (s = its concatenation) *)
Fixpoint stringify_value_acc (env : cenv) (toks : list token) (accum : option str) (st : cst)
  : res (list vtok * cst) :=
  match toks with
  | [] => Ok (match accum with Some s => [VStr s] | None => [] end, st)
  | t :: r =>
      match tk t with
      | TField name (Some i) =>
          match stringify_value_acc env r None st with
          | Ok (l, st') => Ok ((match accum with Some s => [VStr s] | None => [] end) ++ VField i name :: l, st')
          | ParseErr k p => ParseErr k p | Internal k => Internal k | OutOfFuel => OutOfFuel
          end
      | _ =>
          match stringify env t st with
          | Ok (s, st1) =>
              stringify_value_acc env r (Some (match accum with Some a => a ++ s | None => s end)) st1
          | ParseErr k p => ParseErr k p | Internal k => Internal k | OutOfFuel => OutOfFuel
          end
      end
  end.
Definition stringify_value (env : cenv) (toks : list token) (st : cst) := stringify_value_acc env toks None st.

Definition nonempty {A} (o : option (list A)) : option (list A) :=
  match o with Some (_ :: _) => o | _ => None end.

(* create_attribute + convert_attribute *)
Definition last_opt {A} (l : list A) : option A := match rev l with x :: _ => Some x | [] => None end.
Definition drop_last {A} (l : list A) : list A := firstn (length l - 1) l.

Definition convert_attribute (env : cenv) (a : tattr) (st : cst) : res (aattr * cst) :=
  let* (name0, st1) :=
     match nonempty (ta_name a) with
     | Some toks => match stringify_name env toks st with
                    | Ok (s, st') => Ok (Some s, st')
                    | ParseErr k p => ParseErr k p | Internal k => Internal k | OutOfFuel => OutOfFuel
                    end
     | None => Ok (None, st)
     end in
  let vtype0 := if ta_expression a then VExpr else VRaw in
  let '(name, boolean, implied) :=
     match name0 with
     | Some ((_ :: _) as n) =>
         let '(n1, b) := match last_opt n with
                         | Some c => if (c =? c_dot)%N then (drop_last n, true) else (n, false)
                         | None => (n, false)
                         end in
         match n1 with
         | c :: n2 => if (c =? c_excl)%N then (Some n2, b, true) else (Some n1, b, false)
         | [] => (Some n1, b, false)
         end
     | other => (other, false, false)
     end in
  match nonempty (ta_value a) with
  | None => Ok (mkAAttr name None vtype0 boolean implied (ta_multiple a), st1)
  | Some toks =>
      let '(toks', vtype) :=
         match toks with
         | t0 :: rest =>
             match tk t0 with
             | TQuote single =>
                 (* tokens[-1].type == quote.type: any Quote token, single or double *)
                 let rest' := match last_opt rest with
                              | Some l => if is_quote_tok l None then drop_last rest else rest
                              | None => rest
                              end in
                 (rest', if single then VSingle else VDouble)
             | TBracket true BExpr =>
                 let rest' := match last_opt rest with
                              | Some l => if is_bracket l (Some BExpr) (Some false) then drop_last rest else rest
                              | None => rest
                              end in
                 (rest', VExpr)
             | _ => (toks, vtype0)
             end
         | [] => (toks, vtype0)
         end in
      let* (v, st2) := stringify_value env toks' st1 in
      Ok (mkAAttr name (Some v) vtype boolean implied (ta_multiple a), st2)
  end.

Fixpoint convert_attributes (env : cenv) (l : list tattr) (st : cst) : res (list aattr * cst) :=
  match l with
  | [] => Ok ([], st)
  | a :: r =>
      let* (a', st1) := convert_attribute env a st in
      let* (r', st2) := convert_attributes env r st1 in
      Ok (a' :: r', st2)
  end.

Definition is_vfield (v : vtok) : bool := match v with VField _ _ => true | VStr _ => false end.

(* insert_text(node, text) *)
Definition insert_text (n : anode) (text : str) : anode :=
  match n with
  | ANode nm v rp at_ ch sc =>
      let v' := match v with
                | Some ((_ :: _) as l) =>
                    match last_opt l with
                    | Some (VStr s) => drop_last l ++ [VStr (s ++ text)]
                    | _ => l ++ [VStr text]
                    end
                | _ => [VStr text]
                end in
      ANode nm (Some v') rp at_ ch sc
  end.

(* insert_href(node, text).  The value written is a Python str, not a list: everything downstream only
   iterates it (push_tokens, len, [0]), which yields its characters one by one -- [str_value]. *)
Definition s_href : str := [104; 114; 101; 102]%N.
Definition s_a : str := [97]%N.
Definition name_is (o : option str) (s : str) : bool :=
  match o with Some x => str_eqb x s | None => false end.
Definition str_value (s : str) : list vtok := map (fun c => VStr [c]) s.

(* the first attribute named href gets the value when its own is None or empty; None: there is no such attribute *)
Fixpoint set_first_href (href : str) (l : list aattr) : option (list aattr) :=
  match l with
  | [] => None
  | a :: r =>
      if name_is (aa_name a) s_href then
        Some (match aa_value a with
              | None | Some [] =>
                  mkAAttr (aa_name a) (Some (str_value href)) (aa_vtype a) (aa_boolean a) (aa_implied a) (aa_multiple a)
              | Some (_ :: _) => a
              end :: r)
      else match set_first_href href r with Some r' => Some (a :: r') | None => None end
  end.

(* node.attributes after insert_href(node, text) *)
Definition href_attrs (text : str) (at_ : option (list aattr)) : option (list aattr) :=
  match href_value text with
  | Some ((_ :: _) as href) =>                                   (* `if href:` *)
      let fresh := mkAAttr (Some s_href) (Some (str_value href)) VRaw false false false in
      Some match nonempty at_ with
           | Some l => match set_first_href href l with Some l' => l' | None => l ++ [fresh] end
           | None => [fresh]
           end
  | _ => at_
  end.
Definition insert_href (n : anode) (text : str) : anode :=
  match n with ANode nm v rp at_ ch sc => ANode nm v rp (href_attrs text at_) ch sc end.

(* what convert() does to the deepest node with the whole wrap text *)
Definition insert_wrap (env : cenv) (n : anode) (tx : str) : anode :=
  let n1 := insert_text n tx in
  if name_is (an_name n1) s_a && ce_href env then insert_href n1 tx else n1.

(* apply f to deepest_node(n): the end of the last-child chain *)
Fixpoint on_deepest (f : anode -> anode) (n : anode) : anode :=
  match n with
  | ANode nm v rp at_ ch sc =>
      match rev ch with
      | [] => f n
      | _ :: _ =>
          ANode nm v rp at_
                ((fix go (l : list anode) : list anode :=
                    match l with
                    | [] => []
                    | [x] => [on_deepest f x]
                    | x :: l' => x :: go l'
                    end) ch) sc
      end
  end.
Definition on_last_deepest (f : anode -> anode) (items : list anode) : list anode :=
  match last_opt items with
  | Some l => drop_last items ++ [on_deepest f l]
  | None => items
  end.

(* attach_repeater(items, repeater) *)
Definition attach_repeater (items : list anode) (r : rep) : list anode :=
  map (fun n => match n with
                | ANode nm v None at_ ch sc => ANode nm v (Some r) at_ ch sc
                | _ => n
                end) items.

Definition push_rep (r : rep) (st : cst) : cst :=
  mkCst (cs_inserted st) (cs_guard st) (r :: cs_repeaters st) (cs_text_inserted st).
Definition pop_rep (st : cst) : cst :=
  mkCst (cs_inserted st) (cs_guard st) (tl (cs_repeaters st)) (cs_text_inserted st).
Definition set_top_value (i : N) (st : cst) : cst :=
  match cs_repeaters st with
  | r :: rs => mkCst (cs_inserted st) (cs_guard st) (mkRep (rcount r) i (rimplicit r) :: rs) (cs_text_inserted st)
  | [] => st
  end.
Definition dec_guard (st : cst) : cst :=
  mkCst (cs_inserted st) (cs_guard st - 1)%Z (cs_repeaters st) (cs_text_inserted st).

(* convert_statement(node, state) *)
Fixpoint conv_stmt (env : cenv) (node : tnode) (st : cst) {struct node} : res (list anode * cst) :=
  (* convert_group / convert_element of this node, with node.repeat temporarily = [cur_rep] *)
  let once (cur_rep : option rep) (st : cst) : res (list anode * cst) :=
    match node with
    | TGroup els _ =>
        let* (items, st1) :=
           (fix conv_list (l : list tnode) (st : cst) : res (list anode * cst) :=
              match l with
              | [] => Ok ([], st)
              | c :: l' =>
                  let* (a, s1) := conv_stmt env c st in
                  let* (b, s2) := conv_list l' s1 in
                  Ok (a ++ b, s2)
              end) els st in
        Ok (match cur_rep with Some r => attach_repeater items r | None => items end, st1)
    | TElem name attrs value _ self_close els =>
        let* (nm, st1) :=
           match nonempty name with
           | Some toks => let* (s, s') := stringify_name env toks st in Ok (Some s, s')
           | None => Ok (None, st)
           end in
        let* (val, st2) :=
           match nonempty value with
           | Some toks => let* (v, s') := stringify_value env toks st1 in Ok (Some v, s')
           | None => Ok (None, st1)
           end in
        let* (kids, st3) :=
           (fix conv_list (l : list tnode) (st : cst) : res (list anode * cst) :=
              match l with
              | [] => Ok ([], st)
              | c :: l' =>
                  let* (a, s1) := conv_stmt env c st in
                  let* (b, s2) := conv_list l' s1 in
                  Ok (a ++ b, s2)
              end) els st2 in
        let* (ats, st4) :=
           match nonempty attrs with
           | Some l => let* (l', s') := convert_attributes env l st3 in Ok (Some l', s')
           | None => Ok (None, st3)
           end in
        (* text-only snippet without fields: children become siblings *)
        let text_only :=
          match nm, ats, val with
          | None, None, Some ((_ :: _) as v) => negb (existsb is_vfield v)
          | Some [], None, Some ((_ :: _) as v) => negb (existsb is_vfield v)
          | _, _, _ => false
          end in
        if text_only
        then Ok (ANode nm val cur_rep ats [] self_close :: kids, st4)
        else Ok ([ANode nm val cur_rep ats kids self_close], st4)
    end in
  let node_rep := match node with TElem _ _ _ r _ _ => r | TGroup _ r => r end in
  match node_rep with
  | None => once None st
  | Some r0 =>
      let count : N :=
        match rimplicit r0, ce_text env with
        | true, WList _ => N.of_nat (length (clean_text (ce_text env)))
        | _, _ => if (rcount r0 =? 0)%N then 1%N else rcount r0
        end in
      let rp := mkRep count (rvalue r0) (rimplicit r0) in
      let st0 := push_rep rp st in
      (* at most max(guard,1) rounds can run: every round decrements the guard *)
      let rounds := N.to_nat (N.min count (Z.to_N (Z.max (cs_guard st0) 1))) in
      let* (result, st_end) :=
         (fix iter (k : nat) (i : N) (acc : list anode) (st : cst) : res (list anode * cst) :=
            match k with
            | O => Ok (acc, st)
            | S k' =>
                if (i <? count)%N then
                  let st1 := set_top_value i st in
                  let* (items, st2) := once (Some (mkRep count i (rimplicit r0))) st1 in
                  let* (items', st3) :=
                     if rimplicit r0 && negb (cs_inserted st2) then
                       match last_opt items with
                       | Some _ =>
                           let* (txt, s') := get_text_at env (Some i) st2 in
                           Ok (on_last_deepest (fun n => insert_text n txt) items, s')
                       | None => Ok (items, st2)
                       end
                     else Ok (items, st2) in
                  let st4 := dec_guard st3 in
                  if (cs_guard st4 <=? 0)%Z then Ok (acc ++ items', st4)
                  else iter k' (i + 1)%N (acc ++ items') st4
                else Ok (acc, st)
            end) rounds 0%N [] st0 in
      let st' := pop_rep st_end in
      Ok (result, if rimplicit r0 then set_inserted st' else st')
  end.

Fixpoint conv_list (env : cenv) (l : list tnode) (st : cst) : res (list anode * cst) :=
  match l with
  | [] => Ok ([], st)
  | c :: l' =>
      let* (a, s1) := conv_stmt env c st in
      let* (b, s2) := conv_list env l' s1 in
      Ok (a ++ b, s2)
  end.

(* convert(abbr, params): the children of the Abbreviation *)
Definition convert (env : cenv) (max_repeat : option N) (root : list tnode) : res (list anode) :=
  let st0 := mkCst false (match max_repeat with Some m => Z.of_N m | None => 1000000%Z end) [] false in
  let* (children, st) := conv_list env root st0 in
  match ce_text env with
  | WNone => Ok children
  | _ =>
      if cs_text_inserted st then Ok children
      else
        let tx := match ce_text env with
                  | WList l => strip (join [c_nl] l)
                  | WStr s => strip s
                  | WNone => []
                  end in
        Ok (on_last_deepest (fun n => insert_wrap env n tx) children)
  end.
