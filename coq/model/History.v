(* C08 -- what survives a call of emmet.expand: the state machine of call HISTORIES.

   Everything a call can leave behind lives in one of three places, and [lib_state]
   names exactly those:
     cfg_text    the 'text' entry of each caller-owned configuration dict
                 (markup/__init__.py parse(): cleared during snippet resolution, written back)
     caches      the caller-owned cache dicts (stylesheet/__init__.py parse():
                 'stylesheet_snippets' + 'stylesheet_snippets_source')
     bem_default the number of entries of the default-argument lookup of
                 markup/addon/bem.py get_block_name()

   [step] follows the code path of emmet.expand(abbr, config) statement by statement.  The
   parts of the pipeline that do not touch any of the three places are PURE functions of
   their arguments; they are the fields of [world] (the MK / ST models are instances).

   The five places where the code was defective are switches of [flags]; [repaired] is the
   code as it is now and the only setting the theorems speak about.  The other settings
   document the defects and are refuted in proofs/HistoryProofs.v. *)
From Coq Require Import List Bool Arith.
Import ListNotations.

(* ---- abstract data and the pure parts of the pipeline ---- *)
Record world := mkWorld {
  w_txt : Type;                 (* a wrap text: str or list of str *)
  w_truthy : w_txt -> bool;     (* Python truthiness of it: non-empty *)
  w_margs : Type;               (* a markup call without its text: abbreviation, syntax, options,
                                   snippets, variables, context, maxRepeat *)
  w_sargs : Type;               (* a stylesheet call: abbreviation, syntax, options, context *)
  w_snips : Type;               (* merged stylesheet snippets (a dict, compared by ==) *)
  w_snips_eqb : w_snips -> w_snips -> bool;
  w_table : Type;               (* parsed snippets: what convert_snippets returns *)
  w_tree : Type;                (* abbreviation tree *)
  w_out : Type;                 (* the returned string *)
  w_err : Type;                 (* exception class *)

  w_mk_parse : w_margs -> option w_txt -> w_err + w_tree;
      (* abbreviation(abbr, {'text': text, ...}) *)
  w_mk_resolve : w_margs -> option w_txt -> w_tree -> w_err + w_tree;
      (* snippets(abbr, config); walk(abbr, transform, config) -- the second argument is
         config.get('text') as it reads WHILE resolution runs *)
  w_mk_bem_nodes : w_margs -> w_tree -> nat;
      (* how many nodes get_block_name() looks up (and memoises) during the transform *)
  w_mk_stringify : w_margs -> w_tree -> w_err + w_out;
  w_convert : w_snips -> w_err + w_table;          (* convert_snippets *)
  w_css_expand : w_sargs -> w_table -> w_err + w_out;
      (* abbreviation(); resolve_node() for every node with the given table; stringify() *)
  w_css_touch : w_sargs -> w_table -> w_table
      (* the units resolve_numeric_value() writes into value tokens of the table IF the
         node shares them with the table (it no longer does) *)
}.

Section History.
  Variable W : world.
  Notation txt := (w_txt W).
  Notation truthy := (w_truthy W).
  Notation margs := (w_margs W).
  Notation sargs := (w_sargs W).
  Notation snips := (w_snips W).
  Notation snips_eqb := (w_snips_eqb W).
  Notation table := (w_table W).
  Notation tree := (w_tree W).
  Notation out := (w_out W).
  Notation err := (w_err W).
  Notation mk_parse := (w_mk_parse W).
  Notation mk_resolve := (w_mk_resolve W).
  Notation mk_bem_nodes := (w_mk_bem_nodes W).
  Notation mk_stringify := (w_mk_stringify W).
  Notation convert := (w_convert W).
  Notation css_expand := (w_css_expand W).
  Notation css_touch := (w_css_touch W).

  (* ---- state ---- *)
  (* None: key absent; Some None: 'text': None; Some (Some t): 'text': t *)
  Definition slot := option (option txt).

  Record cache_entry := mkEntry {
    ce_source : snips;    (* cache['stylesheet_snippets_source'] *)
    ce_table : table      (* cache['stylesheet_snippets'] *)
  }.

  Record lib_state := mkState {
    cfg_text : nat -> slot;
    caches : nat -> option cache_entry;
    bem_default : nat
  }.

  Inductive outcome := Returned (o : out) | Raised (e : err).

  Inductive call :=
  | CMarkup (cfg : nat) (a : margs)
      (* expand(abbr, <caller dict number cfg, or a Config built on it>) with a markup type *)
  | CCss (cache : option nat) (sn : snips) (a : sargs).
      (* expand(abbr, <stylesheet configuration whose merged snippets are sn and whose
         'cache' is cache dict number j / absent>) *)

  Record flags := mkFlags {
    restore_on_error : bool;   (* try/finally around resolution            (1c30c03) *)
    write_back_only_if_cleared : bool;  (* 'text' written back only if it was removed *)
    key_checks_source : bool;  (* cache entry reused only for equal snippets *)
    copy_default : bool;       (* default value copied out of the table      *)
    bem_weak : bool            (* lookup entries die with the tree          (0dd2ca9) *)
  }.
  Definition repaired : flags := mkFlags true true true true true.

  Definition upd {A} (f : nat -> A) (i : nat) (v : A) : nat -> A :=
    fun j => if Nat.eqb j i then v else f j.

  Definition set_text (st : lib_state) (i : nat) (v : slot) : lib_state :=
    mkState (upd (cfg_text st) i v) (caches st) (bem_default st).
  Definition set_cache (st : lib_state) (j : nat) (e : option cache_entry) : lib_state :=
    mkState (cfg_text st) (upd (caches st) j e) (bem_default st).
  Definition add_bem (st : lib_state) (n : nat) : lib_state :=
    mkState (cfg_text st) (caches st) (bem_default st + n).

  (* config.get('text') *)
  Definition get_text (st : lib_state) (i : nat) : option txt :=
    match cfg_text st i with Some (Some t) => Some t | _ => None end.
  Definition is_truthy (t : option txt) : bool :=
    match t with Some t => truthy t | None => false end.

  Definition of_sum (r : err + out) : outcome :=
    match r with inl e => Raised e | inr o => Returned o end.

  (* markup/__init__.py parse() followed by stringify() *)
  Definition step_markup (fl : flags) (st : lib_state) (i : nat) (a : margs) : lib_state * outcome :=
    let text := get_text st i in                                   (* text = config.get('text') *)
    match mk_parse a text with                                     (* abbr = abbreviation(abbr, {...}) *)
    | inl e => (st, Raised e)
    | inr t0 =>
        let st1 := if is_truthy text then set_text st i (Some None) else st in
                                                                   (* if text: user_config['text'] = None *)
        let write_back (s : lib_state) :=
          if write_back_only_if_cleared fl && negb (is_truthy text) then s
          else set_text s i (Some text) in                         (* user_config['text'] = text *)
        let r := mk_resolve a (get_text st1 i) t0 in               (* snippets(); walk(transform) *)
        let st2 := if bem_weak fl then st1 else add_bem st1 (mk_bem_nodes a t0) in
        match r with
        | inl e => ((if restore_on_error fl then write_back st2 else st2), Raised e)   (* finally: *)
        | inr t1 => (write_back st2, of_sum (mk_stringify a t1))
        end
    end.

  (* the cache lookup of stylesheet/__init__.py parse() *)
  Definition cache_lookup (fl : flags) (st : lib_state) (cache : option nat) (sn : snips) : option table :=
    match cache with
    | None => None                                                 (* config.cache is None *)
    | Some j =>
        match caches st j with
        | None => None
        | Some e =>
            if key_checks_source fl
            then (if snips_eqb (ce_source e) sn then Some (ce_table e) else None)
            else Some (ce_table e)
        end
    end.

  (* what resolve_numeric_value leaves in a shared table *)
  Definition after_use (fl : flags) (st : lib_state) (cache : option nat) (src : snips) (a : sargs) (tb : table)
    : lib_state :=
    if copy_default fl then st
    else match cache with
         | Some j => set_cache st j (Some (mkEntry src (css_touch a tb)))
         | None => st
         end.

  Definition step_css (fl : flags) (st : lib_state) (cache : option nat) (sn : snips) (a : sargs)
    : lib_state * outcome :=
    match cache_lookup fl st cache sn with
    | Some tb =>
        let src := match cache with
                   | Some j => match caches st j with Some e => ce_source e | None => sn end
                   | None => sn end in
        (after_use fl st cache src a tb, of_sum (css_expand a tb))
    | None =>
        match convert sn with                                      (* snippets = convert_snippets(...) *)
        | inl e => (st, Raised e)
        | inr tb =>
            let st1 := match cache with
                       | Some j => set_cache st j (Some (mkEntry sn tb))   (* cache[...] = ... *)
                       | None => st end in
            (after_use fl st1 cache sn a tb, of_sum (css_expand a tb))
        end
    end.

  Definition step_gen (fl : flags) (st : lib_state) (c : call) : lib_state * outcome :=
    match c with
    | CMarkup i a => step_markup fl st i a
    | CCss cache sn a => step_css fl st cache sn a
    end.

  (* the code as it is *)
  Definition step := step_gen repaired.

  Definition run_gen (fl : flags) (h : list call) (s : lib_state) : lib_state :=
    fold_left (fun st c => fst (step_gen fl st c)) h s.
  Definition run := run_gen repaired.

  (* the result of call [c] made in state [s] *)
  Definition outcome_gen (fl : flags) (s : lib_state) (c : call) : outcome := snd (step_gen fl s c).
  Definition outcome_in := outcome_gen repaired.

  (* the results of all calls of a history, in order *)
  Fixpoint outcomes_gen (fl : flags) (h : list call) (s : lib_state) : list outcome :=
    match h with
    | [] => []
    | c :: h' => snd (step_gen fl s c) :: outcomes_gen fl h' (fst (step_gen fl s c))
    end.
  Definition outcomes := outcomes_gen repaired.

  (* a fresh interpreter: the caller's dicts as written, empty cache dicts, empty lookup *)
  Definition fresh (texts : nat -> slot) : lib_state := mkState texts (fun _ => None) 0.

  (* the same call without its cache dict *)
  Definition without_cache (c : call) : call :=
    match c with
    | CCss _ sn a => CCss None sn a
    | c => c
    end.
End History.
