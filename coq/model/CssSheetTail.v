(* SPEC side of C17 (CSS half), Level B: the three ways the TEXT of a rule body can end, as an
   extension of the grammar of model/CssSheet.v.  A body is a list of items (nested rules and
   `;`-terminated declarations) followed by
     STNone  g                       blanks / comments only
     STValue g1 name g2 g3 value g4  name [gap] : [gap] value [gap]    -- no `;`
     STEmpty g1 name g2 g3           name [gap] : [gap]                -- no value, no `;`
   up to the end of the body (the closing brace is not part of the body).  Definitions only. *)
From Emmet Require Import lib.Base model.CssScan model.CssMatch model.CssParse model.CssActions
     model.CssTree model.CssTreeActions model.CssSheet.
Local Open Scope Z_scope.

Inductive stail :=
| STNone (g : gap)
| STValue (g1 : gap) (name : trun) (g2 g3 : gap) (value : trun) (g4 : gap)
| STEmpty (g1 : gap) (name : trun) (g2 g3 : gap).

Definition render_stail (t : stail) : str :=
  match t with
  | STNone g => render_gap g
  | STValue g1 name g2 g3 value g4 =>
      render_gap g1 ++ render_lexs name ++ render_gap g2 ++ c_colon ::
      render_gap g3 ++ render_lexs value ++ render_gap g4
  | STEmpty g1 name g2 g3 =>
      render_gap g1 ++ render_lexs name ++ render_gap g2 ++ c_colon :: render_gap g3
  end.

Definition stail_ok (t : stail) : bool :=
  match t with
  | STNone g => gap_ok g
  | STValue g1 name g2 g3 value g4 =>
      gap_ok g1 && run_ok name && gap_ok g2 && gap_ok g3 && run_ok value && gap_ok g4 && colon_sep g3 value
  | STEmpty g1 name g2 g3 => gap_ok g1 && run_ok name && gap_ok g2 && gap_ok g3
  end.

(* the body as written *)
Definition render_body (body : list item) (t : stail) : str := render_items body ++ render_stail t.
Definition body_ok (body : list item) (t : stail) : bool := forallb wf_item body && stail_ok t.

(* the offsets of the tail when it starts at [pos] (CssTreeActions.body_tail) *)
Definition lay_stail (pos : Z) (t : stail) : body_tail :=
  match t with
  | STNone _ => TailNone
  | STValue g1 name g2 g3 value g4 =>
      let ns := pos + zlen (render_gap g1) in
      let ne := ns + zlen (render_lexs name) in
      let colon := ne + zlen (render_gap g2) in
      let vs := colon + 1 + zlen (render_gap g3) in
      TailValue ns ne colon vs (vs + zlen (render_lexs value))
  | STEmpty g1 name g2 g3 =>
      let ns := pos + zlen (render_gap g1) in
      let ne := ns + zlen (render_lexs name) in
      TailEmpty ns ne (ne + zlen (render_gap g2))
  end.

(* the tree and the tail of a body, offsets relative to the body start *)
Definition body_tree (body : list item) : list node := lay_items 0 body.
Definition body_tail_of (body : list item) (t : stail) : body_tail := lay_stail (zlen (render_items body)) t.
