(* SPEC side of C10 (Level A): stylesheets as trees of nested rules and
   semicolon-terminated declarations with recorded offsets, the events such a tree
   denotes, and what match / balanced_outward / balanced_inward must return for it.
   Contains no scanner and no stack.  Definitions only. *)
From Emmet Require Import lib.Base model.CssScan model.CssMatch.
Local Open Scope Z_scope.

(* A declaration  name : value ;  with name = [ns, ne), the colon at [colon], value =
   [vs, ve), the semicolon at [semi].  A rule  selector { children }  with selector =
   [ss, se), `{` at [brace], `}` at [close]. *)
Inductive node :=
| Decl (ns ne colon vs ve semi : Z)
| Rule (ss se brace : Z) (children : list node) (close : Z).

Definition node_start (n : node) : Z :=
  match n with Decl ns _ _ _ _ _ => ns | Rule ss _ _ _ _ => ss end.
(* a declaration spans to its semicolon (included), a rule to its closing brace (included) *)
Definition node_end (n : node) : Z :=
  match n with Decl _ _ _ _ _ semi => semi + 1 | Rule _ _ _ _ close => close + 1 end.

(* the callback sequence a tree denotes *)
Fixpoint events (n : node) : list event :=
  match n with
  | Decl ns ne colon vs ve semi => [mkEv PropertyName ns ne colon; mkEv PropertyValue vs ve semi]
  | Rule ss se brace ch close =>
      mkEv Selector ss se brace :: flat_map events ch ++ [mkEv BlockEnd close (close + 1) close]
  end.
Definition events_forest (f : list node) : list event := flat_map events f.

(* -------- well-formed trees: offsets ordered, siblings in sequence, children between
   the braces.  [lo] is the first offset the node may use, [hi] the first it may not. *)
Section Seq.
  Variable P : Z -> Z -> node -> Prop.
  Fixpoint seq_ok (lo hi : Z) (l : list node) : Prop :=
    match l with
    | [] => lo <= hi
    | n :: r => P lo hi n /\ seq_ok (node_end n) hi r
    end.
End Seq.

Fixpoint wf_node (lo hi : Z) (n : node) : Prop :=
  match n with
  | Decl ns ne colon vs ve semi =>
      lo <= ns /\ ns <= ne /\ ne <= colon /\ colon < vs /\ vs <= ve /\ ve <= semi /\ semi < hi
  | Rule ss se brace ch close =>
      lo <= ss /\ ss <= se /\ se <= brace /\ seq_ok wf_node (brace + 1) close ch /\ close < hi
  end.
(* a stylesheet of length n *)
Definition wf_forest (n : Z) (f : list node) : Prop := seq_ok wf_node 0 n f.

(* -------- what the matcher must answer *)
Section FirstSome.
  Context {A B : Type}.
  Variable f : A -> option B.
  Fixpoint first_some (l : list A) : option B :=
    match l with
    | [] => None
    | x :: r => match f x with Some b => Some b | None => first_some r end
    end.
End FirstSome.

(* strictly containing *)
Definition contains (n : node) (pos : Z) : bool := (node_start n <? pos) && (pos <? node_end n).

(* match(): the innermost declaration or rule strictly containing pos *)
Fixpoint innermost (n : node) (pos : Z) : option match_result :=
  if contains n pos then
    match n with
    | Decl ns ne colon vs ve semi => Some (mkMR true ns (semi + 1) vs ve)
    | Rule ss se brace ch close =>
        match first_some (fun c => innermost c pos) ch with
        | Some m => Some m
        | None => Some (mkMR false ss (close + 1) (brace + 1) close)
        end
    end
  else None.
Definition innermost_forest (f : list node) (pos : Z) : option match_result :=
  first_some (fun n => innermost n pos) f.

(* content range of a rule body / value region: [a, b) without the surrounding white
   space of the source, None when nothing is left *)
Definition content (s : str) (a b : Z) : option range :=
  match inner_range s a b with Ok o => o | _ => None end.

(* a result list is built with push: empty ranges and immediate repetitions are dropped *)
Definition pushes (acc : list range) (l : list (option range)) : list range := fold_left push_opt l acc.
Definition pushed (l : list (option range)) : list range := rev (pushes [] l).

(* balanced_outward(): for every node strictly containing pos, innermost first:
   value then declaration, or content range then full range of the rule *)
Fixpoint chain (s : str) (n : node) (pos : Z) : list (option range) :=
  if contains n pos then
    match n with
    | Decl ns ne colon vs ve semi => [Some (vs, ve); Some (ns, semi + 1)]
    | Rule ss se brace ch close =>
        flat_map (fun c => chain s c pos) ch ++ [content s (brace + 1) close; Some (ss, close + 1)]
    end
  else [].
Definition chain_forest (s : str) (f : list node) (pos : Z) : list (option range) :=
  flat_map (fun n => chain s n pos) f.

(* balanced_inward(): full range then content range of a node, then the same for its
   first child, and so on *)
Fixpoint descend (s : str) (n : node) : list (option range) :=
  match n with
  | Decl ns ne colon vs ve semi => [Some (ns, semi + 1); content s (colon + 1) semi]
  | Rule ss se brace ch close =>
      Some (ss, close + 1) :: content s (brace + 1) close ::
      match ch with [] => [] | c :: _ => descend s c end
  end.
(* the starting node: the first one, children before parents, that contains pos
   (bounds included; a declaration counts up to the end of its value) *)
Fixpoint inward_spec (s : str) (n : node) (pos : Z) : option (list (option range)) :=
  match n with
  | Decl ns ne colon vs ve semi =>
      if (ns <=? pos) && (pos <=? ve) then Some [Some (ns, semi + 1); Some (vs, ve)] else None
  | Rule ss se brace ch close =>
      match first_some (fun c => inward_spec s c pos) ch with
      | Some l => Some l
      | None => if (ss <=? pos) && (pos <=? close + 1) then Some (descend s n) else None
      end
  end.
Definition inward_forest (s : str) (f : list node) (pos : Z) : list range :=
  match first_some (fun n => inward_spec s n pos) f with
  | Some l => pushed l
  | None => []
  end.
