(* Model of emmet/markup/__init__.py (parse), snippets.py, utils.py, attributes.py,
   implicit_tag.py, lorem (header here, text generation in model/MarkupLorem.v), addon/xsl.py, addon/label.py;
   addon/bem.py is model/MarkupBem.v and is hooked into transform_node here.
   markup.href: model/MarkupHref.v + insert_href / insert_wrap in model/MarkupConvert.v.  Definitions only. *)
From Emmet Require Import lib.Base model.MarkupTokenizer model.MarkupParser model.MarkupConvert model.MarkupBem
     model.MarkupLorem.
From Emmet Require Import gen.GenImplicit gen.GenLorem.

(* the part of Config the markup pipeline reads *)
Record mconfig := mkMConfigD {
  mc_syntax : str;
  mc_snippets : list (str * str);
  mc_variables : list (str * str);
  mc_text : wtext;
  mc_max_repeat : option N;            (* config.get('maxRepeat') or config.get('max_repeat') *)
  mc_max_repeat_snip : option N;       (* user_config.get('max_repeat'): what snippet parsing sees *)
  mc_jsx : bool;                       (* options['jsx.enabled'] *)
  mc_context_name : option str;        (* config.context['name'] *)
  mc_inline : list str;                (* options['inlineElements'] *)
  mc_reverse_attrs : bool;             (* options['output.reverseAttributes'] *)
  mc_href : bool;
  mc_bem : bool;                       (* options['bem.enabled'] *)
  mc_bem_element : str;                (* options['bem.element'] *)
  mc_bem_modifier : str;               (* options['bem.modifier'] *)
  mc_context_class : option str;       (* None when config.context is None, else
                                          config.context.get('attributes', {}).get('class', '') (or '') *)
  mc_draws : list Z }.                 (* the ORACLE of random.randint for lorem text (model/MarkupLorem.v): the raw
                                          draws, consumed in the order the walk reaches the lorem nodes *)
(* a configuration with the empty oracle (no lorem node in the abbreviation: the oracle is never consulted;
   with a lorem node: OutOfFuel) -- the constructor every lorem-free statement uses *)
Notation mkMConfig sy sn va te mr mrs jsx cn il ra hr be bel bmo cc :=
  (mkMConfigD sy sn va te mr mrs jsx cn il ra hr be bel bmo cc []).
Definition bem_cfg_of (cfg : mconfig) : bemcfg :=
  mkBemCfg (mc_bem_element cfg) (mc_bem_modifier cfg) (mc_context_class cfg).

(* abbreviation(str, params): tokenize + parse + convert.
   Errors: scanner error (pos) / token error (pos option). *)
Definition parse_abbr (jsx : bool) (env : cenv) (max_repeat : option N) (s : str) : res (list anode) :=
  match tokenize s with
  | TErr p => ParseErr EK_Scanner (Some (Z.of_nat p))
  | TOk toks =>
      match parse jsx toks with
      | PErr p => ParseErr EK_Token (match p with Some n => Some (Z.of_nat n) | None => None end)
      | POk root => convert env max_repeat root
      end
  end.

(* what a snippet definition is parsed with: parse(snippet, config) passes the Config
   object as options: jsx is off, text is user_config['text'] (cleared by markup.parse
   when it is not None), max_repeat is user_config['max_repeat'] *)
(* `if text is not None` (repaired ce85773: the test was `if text`, so '' and [] were left in place and every snippet
   definition absorbed the empty text); the name is kept from the truthiness test it replaces *)
Definition text_truthy (t : wtext) : bool :=
  match t with WNone => false | _ => true end.
Definition snippet_env (cfg : mconfig) : cenv :=
  mkCenv (if text_truthy (mc_text cfg) then WNone else mc_text cfg) (mc_variables cfg) (mc_href cfg).

Definition set_children (n : anode) (ch : list anode) : anode :=
  match n with ANode nm v rp at_ _ sc => ANode nm v rp at_ ch sc end.

(* append [extra] to the children of the deepest last descendant of the last node of [l] *)
Definition attach_deepest (l : list anode) (extra : list anode) : list anode :=
  on_last_deepest (fun n => set_children n (an_children n ++ extra)) l.

(* merge(child, top) + attribute transfer of resolve() *)
Definition merge_into (rev_attrs : bool) (child top : anode) : anode :=
  match top with
  | ANode nm v rp at_ ch sc =>
      let at' := match nonempty (an_attrs child) with
                 | Some to_attr =>
                     let from_attr := match at_ with Some l => l | None => [] end in
                     Some (if rev_attrs then to_attr ++ from_attr else from_attr ++ to_attr)
                 | None => at_
                 end in
      ANode nm
            (match an_value child with Some cv => Some cv | None => v end)
            (match an_repeat child with Some r => Some r | None => rp end)
            at'
            ch
            (if an_self child then true else sc)
  end.

(* walk_resolve(node, resolve, config) on a list of children.  [fuel] bounds the
   snippet nesting depth; the stack holds the snippets being resolved (no duplicates). *)
Fixpoint walk_resolve (fuel : nat) (cfg : mconfig) (stack : list str) (l : list anode) {struct fuel}
  : res (list anode) :=
  match fuel with
  | O => OutOfFuel
  | S f =>
      (fix walk_list (l : list anode) : res (list anode) :=
         match l with
         | [] => Ok []
         | child :: rest =>
             let* here :=
               (fix walk_node (n : anode) : res (list anode) :=
                  match n with
                  | ANode nm v rp at_ ch sc =>
                      let walk_kids :=
                        (fix walk_kids (k : list anode) : res (list anode) :=
                           match k with
                           | [] => Ok []
                           | c :: k' => let* a := walk_node c in let* b := walk_kids k' in Ok (a ++ b)
                           end) in
                      let snippet :=
                        match nm with
                        | Some ((_ :: _) as name) =>
                            match assoc_str name (mc_snippets cfg) with
                            | Some ((_ :: _) as s) => if mem_str s stack then None else Some s
                            | _ => None
                            end
                        | _ => None
                        end in
                      match snippet with
                      | None => let* kids := walk_kids ch in Ok [ANode nm v rp at_ kids sc]
                      | Some s =>
                          let* parsed := parse_abbr false (snippet_env cfg) (mc_max_repeat_snip cfg) s in
                          let* resolved := walk_resolve f cfg (s :: stack) parsed in
                          let tops := map (merge_into (mc_reverse_attrs cfg) n) resolved in
                          match tops with
                          | [] => Ok []          (* deepest is the Abbreviation itself: children are dropped *)
                          | _ => let* kids := walk_kids ch in Ok (attach_deepest tops kids)
                          end
                      end
                  end) child in
             let* others := walk_list rest in
             Ok (here ++ others)
         end) l
  end.

(* ---------------------------------------------------------------- transform *)
Definition is_inline_name (cfg : mconfig) (name : str) : bool := mem_str (lower name) (mc_inline cfg).

(* merge_value(prev, next, glue) with `append` *)
Definition vappend (tokens : list vtok) (v : vtok) : list vtok :=
  match last_opt tokens, v with
  | Some (VStr a), VStr b => drop_last tokens ++ [VStr (a ++ b)]
  | _, _ => tokens ++ [v]
  end.
Definition merge_value (prev next : option (list vtok)) (glue : str) : option (list vtok) :=
  match prev, next with
  | Some p, Some n =>
      let p1 := match p, glue with
                | _ :: _, _ :: _ => vappend p (VStr glue)
                | _, _ => p
                end in
      Some (fold_left vappend n p1)
  | _, _ =>
      match nonempty prev with
      | Some p => Some p
      | None => next
      end
  end.

Definition vtype_eqb (a b : vtype) : bool :=
  match a, b with VRaw, VRaw | VSingle, VSingle | VDouble, VDouble | VExpr, VExpr => true | _, _ => false end.

Definition merge_declarations (rev_attrs : bool) (dest src : aattr) : aattr :=
  mkAAttr (aa_name src)
          (if rev_attrs then aa_value dest else aa_value src)
          (if vtype_eqb (aa_vtype dest) VExpr then VExpr else aa_vtype src)
          (aa_boolean dest || aa_boolean src)
          (aa_implied dest || aa_implied src)
          (aa_multiple dest).

Definition opt_str_eqb (a : option str) (b : str) : bool :=
  match a with Some x => str_eqb x b | None => false end.

(* update the first attribute named [name] (it exists when this is called) *)
Fixpoint update_named (name : str) (f : aattr -> aattr) (l : list aattr) : list aattr :=
  match l with
  | [] => []
  | a :: r => if opt_str_eqb (aa_name a) name then f a :: r else a :: update_named name f r
  end.

Fixpoint merge_attrs_loop (rev_attrs : bool) (todo acc : list aattr) (seen : list str) : list aattr :=
  match todo with
  | [] => acc
  | a :: r =>
      match aa_name a with
      | Some ((_ :: _) as name) =>
          if mem_str name seen then
            let f prev :=
              if str_eqb name s_class
              then mkAAttr (aa_name prev) (merge_value (aa_value prev) (aa_value a) [c_space])
                           (aa_vtype prev) (aa_boolean prev) (aa_implied prev) (aa_multiple prev)
              else merge_declarations rev_attrs prev a in
            merge_attrs_loop rev_attrs r (update_named name f acc) seen
          else merge_attrs_loop rev_attrs r (acc ++ [a]) (name :: seen)
      | _ => merge_attrs_loop rev_attrs r (acc ++ [a]) seen
      end
  end.
Definition merge_attributes (rev_attrs : bool) (attrs : option (list aattr)) : option (list aattr) :=
  match nonempty attrs with
  | Some l => Some (merge_attrs_loop rev_attrs l [] [])
  | None => attrs
  end.

(* re_lorem = ^lorem(L* )(D* )(-D* )?$ with L = [a-z], D = \d, compiled with re.I: this SHAPE is hand-compiled; what each position accepts
   (re.I case folding included: U+017F, U+212A, U+0130, U+0131 are "letters"), and what `$` tolerates after the match
   (a final line feed) comes from gen/GenLorem.v, probed from the compiled regex with every code point.  \d = the
   decimal characters (lib/Base.is_number; verified by the generator).  The classes are pairwise disjoint (verified by
   the generator), so the greedy parse below is the only one. *)
Fixpoint lit_prefix (classes : list (list N)) (s : str) : option str :=
  match classes, s with
  | [], _ => Some s
  | cl :: cls, c :: r => if existsb (N.eqb c) cl then lit_prefix cls r else None
  | _ :: _, [] => None
  end.
Definition is_lorem_letter (c : char) : bool := existsb (fun r => in_range (fst r) (snd r) c) lorem_letter_ranges.
Definition lorem_at_end (r : str) : bool :=
  match r with
  | [] => true
  | [c] => existsb (N.eqb c) lorem_end_chars
  | _ => false
  end.
Inductive lorem_match := LNo | LYes (lang : str) (minw : option N) (maxw : option (option N)).
Definition match_lorem (name : str) : lorem_match :=
  match lit_prefix lorem_prefix_classes name with
  | None => LNo
  | Some r =>
      let nl := span is_lorem_letter r in
      let r1 := skipn nl r in
      let nd := span is_number r1 in
      let r2 := skipn nd r1 in
      let minw := match nd with O => None | _ => int_of_str (firstn nd r1) end in
      if lorem_at_end r2 then LYes (firstn nl r) minw None
      else match r2 with
           | c :: r3 =>
               if (c =? c_dash)%N then
                 let nd2 := span is_number r3 in
                 if lorem_at_end (skipn nd2 r3)
                 then LYes (firstn nl r) minw (Some (match nd2 with O => None | _ => int_of_str (firstn nd2 r3) end))
                 else LNo
               else LNo
           | [] => LNo
           end
  end.

(* ---- lorem(node, ancestors, config), the part that draws random numbers.
   The Python function does, for a node whose name matches re_lorem, in this order: word counts from the name,
   word_count = randint(min, max), repeat = node.repeat or find_repeater(ancestors), name = attributes = None,
   value = [paragraph(db, word_count, not repeat or repeat.value == 0)], and for a repeated node below the top
   level resolve_implicit_tag.  It runs inside transform() of every node, preorder (utils.walk).

   MODEL.  The draws influence nothing but the value of the lorem node itself (no later step of transform() of this
   or of any other node reads the value of a lorem node: xsl tests only that the value is non-empty, which a
   paragraph of >= 1 words always is and [lorem_fill_node] makes it so before transform runs; label and BEM read
   names and attributes).  So the model generates all paragraphs in one PREORDER pass of its own over the resolved
   tree ([lorem_fill_list], same node order as utils.walk, the stream threaded from node to node), writing each
   paragraph into the value of its node; the transform pass below then performs the rest of lorem() (name and
   attributes cleared, implicit tag) and keeps that value.  The test "name matches re_lorem" is made on the written
   name here and on the name after implicit_tag() there: the same thing, because implicit_tag only names a node
   whose name is empty, and gives it a table name / div / span (LoremProofs.lorem_test_agree).
   [anc_rep] = find_repeater(ancestors): the repeater of the closest repeated ancestor. *)
Definition own_or (rp anc_rep : option rep) : option rep := match rp with Some r => Some r | None => anc_rep end.
Definition lorem_header (nm : option str) : lorem_match :=
  match nm with
  | Some ((_ :: _) as name) => match_lorem name
  | _ => LNo                                                  (* `if not node.name: return` *)
  end.
Fixpoint lorem_fill_node (anc_rep : option rep) (n : anode) (s : list Z) {struct n} : lres anode :=
  match n with
  | ANode nm v rp at_ ch sc =>
      let+ v1 from s1 :=
        match lorem_header nm with
        | LYes lang minw maxw =>
            let common := match own_or rp anc_rep with None => true | Some r => (rvalue r =? 0)%N end in
            let+ p from s1 := lorem_text lang minw maxw common s in
            LOk (Some [VStr p]) s1
        | LNo => LOk v s
        end in
      let+ ch' from s2 :=
        (fix go (l : list anode) (s : list Z) : lres (list anode) :=
           match l with
           | [] => LOk [] s
           | c :: r =>
               let+ c' from s1 := lorem_fill_node (own_or rp anc_rep) c s in
               let+ r' from s2 := go r s1 in
               LOk (c' :: r') s2
           end) ch s1 in
      LOk (ANode nm v1 rp at_ ch' sc) s2
  end.
Fixpoint lorem_fill_list (l : list anode) (s : list Z) : lres (list anode) :=
  match l with
  | [] => LOk [] s
  | c :: r =>
      let+ c' from s1 := lorem_fill_node None c s in
      let+ r' from s2 := lorem_fill_list r s1 in
      LOk (c' :: r') s2
  end.
(* as a result of the pipeline: the draws left over are dropped; a stream that runs out is OutOfFuel *)
Definition lres_to_res {A} (r : lres A) : res A :=
  match r with
  | LOk a _ => Ok a
  | LExhausted => OutOfFuel
  | LFuel => OutOfFuel
  | LInternal k => Internal k
  end.
Definition lorem_fill (draws : list Z) (l : list anode) : res (list anode) := lres_to_res (lorem_fill_list l draws).

Definition s_select : str := [115;101;108;101;99;116]%N.
Definition s_xsl : str := [120;115;108]%N.
Definition s_xsl_variable : str := [120;115;108;58;118;97;114;105;97;98;108;101]%N.
Definition s_xsl_with_param : str := [120;115;108;58;119;105;116;104;45;112;97;114;97;109]%N.
Definition s_label : str := [108;97;98;101;108]%N.
Definition s_input : str := [105;110;112;117;116]%N.
Definition s_textarea : str := [116;101;120;116;97;114;101;97]%N.
Definition s_for : str := [102;111;114]%N.

(* label addon: is_empty_attribute *)
Definition is_empty_attribute (a : aattr) : bool :=
  match aa_value a with
  | None | Some [] => true
  | Some [VField _ []] => true
  | _ => false
  end.
Definition drop_empty_named (name : str) (attrs : option (list aattr)) : option (list aattr) :=
  match nonempty attrs with
  | Some l => Some (filter (fun a => negb (opt_str_eqb (aa_name a) name && is_empty_attribute a)) l)
  | None => attrs
  end.

(* find(node, cb) of the label addon: is there a descendant named input/textarea? *)
Definition is_input_name (nm : option str) : bool := opt_str_eqb nm s_input || opt_str_eqb nm s_textarea.
Fixpoint has_input (n : anode) : bool :=
  match n with
  | ANode _ _ _ _ ch _ =>
      (fix go (l : list anode) : bool :=
         match l with
         | [] => false
         | c :: r => is_input_name (an_name c) || has_input c || go r
         end) ch
  end.

(* transform(node, ancestors, config) for one node, children untouched: everything before the
   BEM addon (implicit_tag, attributes, lorem, xsl, label).
   [parent_name] = name of the closest ancestor node after ITS transformation (None at top
   level), [top] = the node is a direct child of the Abbreviation.
   Returns the node and whether the label addon found an input below it. *)
Definition implicit_name_of (cfg : mconfig) (parent_name : option (option str)) : str :=
  let pn :=
    lower (match parent_name with
           | Some (Some n) => n
           | Some None => []
           | None => match mc_context_name cfg with Some n => n | None => [] end
           end) in
  match assoc_str pn element_map with
  | Some n => n
  | None => if is_inline_name cfg pn then [115;112;97;110]%N (* span *) else [100;105;118]%N (* div *)
  end.

Definition transform_node_pre (cfg : mconfig) (parent_name : option (option str)) (top : bool) (n : anode)
  : anode * bool :=
  match n with
  | ANode nm v rp at_ ch sc =>
      (* implicit_tag *)
      let nm1 := match nm, nonempty at_ with
                 | None, Some _ | Some [], Some _ => Some (implicit_name_of cfg parent_name)
                 | _, _ => nm
                 end in
      (* attributes *)
      let at1 := merge_attributes (mc_reverse_attrs cfg) at_ in
      (* lorem: name and attributes are cleared, the value is the generated paragraph -- already written into
         [v] by lorem_fill_node (see there) --; resolve_implicit_tag is called directly when the node is repeated
         and not top-level *)
      let is_lorem := match nm1 with
                      | Some ((_ :: _) as name) => match match_lorem name with LYes _ _ _ => true | LNo => false end
                      | _ => false
                      end in
      let '(nm2, v2, at2) :=
        if is_lorem then
          ((match rp with
            | Some _ => if top then None else Some (implicit_name_of cfg parent_name)
            | None => None
            end), v, None)
        else (nm1, v, at1) in
      (* xsl *)
      let at3 :=
        if str_eqb (mc_syntax cfg) s_xsl
           && (opt_str_eqb nm2 s_xsl_variable || opt_str_eqb nm2 s_xsl_with_param)
           && (match nonempty at2 with Some _ => true | None => false end)
           && ((match ch with [] => false | _ => true end) || (match nonempty v2 with Some _ => true | None => false end))
        then match at2 with
             | Some l => Some (filter (fun a => negb (opt_str_eqb (aa_name a) s_select)) l)
             | None => None
             end
        else at2 in
      (* label *)
      let found := opt_str_eqb nm2 s_label && has_input n in
      (ANode nm2 v2 rp (if found then drop_empty_named s_for at3 else at3) ch sc, found)
  end.

(* transform(node, ancestors, config): the steps above, then `if options['bem.enabled']: bem(..)`.
   [anc] = ancestors[1:] as path entries (attributes after their own transformation + their entry in
   the module cache of the BEM addon).  Returns the node, the label flag and the path
   ancestors[1:] + [node] (cache entries as the call leaves them). *)
Definition transform_node (cfg : mconfig) (parent_name : option (option str)) (top : bool)
           (anc : list pnode) (n : anode) : res (anode * bool * list pnode) :=
  let '(n1, found) := transform_node_pre cfg parent_name top n in
  if mc_bem cfg then
    let* (n2, path) := bem (bem_cfg_of cfg) anc n1 in
    Ok (n2, found, path)
  else Ok (n1, found, anc ++ [mkP (an_attrs n1) None]).

(* walk(abbr, transform, config): preorder, parents before children.  [pending] = an enclosing
   label found its input and that input has not been reached yet: the first node named
   input/textarea (original name) loses its empty `id` attributes before its own transform.
   [anc] = the ancestors as path entries; the result carries them back with the cache entries the
   subtree created (a sibling subtree sees them). *)
Fixpoint transform_tree (cfg : mconfig) (parent_name : option (option str)) (top : bool) (pending : bool)
         (anc : list pnode) (n : anode) {struct n} : res (anode * bool * list pnode) :=
  match n with
  | ANode nm v rp at_ ch sc =>
      let hit := pending && is_input_name nm in
      let n0 := if hit then ANode nm v rp (drop_empty_named s_id at_) ch sc else n in
      let* (n1, found, path) := transform_node cfg parent_name top anc n0 in
      let pending1 := (pending && negb hit) || found in
      match n1 with
      | ANode nm1 v1 rp1 at1 _ sc1 =>
          let* (ch', pending2, path2) :=
            (fix go (l : list anode) (pd : bool) (pth : list pnode) : res (list anode * bool * list pnode) :=
               match l with
               | [] => Ok ([], pd, pth)
               | c :: r =>
                   let* (c', pd1, pth1) := transform_tree cfg (Some nm1) false pd pth c in
                   let* (r', pd2, pth2) := go r pd1 pth1 in
                   Ok (c' :: r', pd2, pth2)
               end) ch pending1 path in
          Ok (ANode nm1 v1 rp1 at1 ch' sc1, pending2, firstn (length anc) path2)      (* ancestors.pop() *)
      end
  end.

Fixpoint transform_forest (cfg : mconfig) (l : list anode) : res (list anode) :=
  match l with
  | [] => Ok []
  | c :: r =>
      let* (c', _, _) := transform_tree cfg None true false [] c in
      let* r' := transform_forest cfg r in
      Ok (c' :: r')
  end.

(* walk(abbr, transform, config): the random draws of the lorem nodes (preorder, from the oracle of the
   configuration), then everything else *)
Definition transform_list (cfg : mconfig) (l : list anode) : res (list anode) :=
  let* filled := lorem_fill (mc_draws cfg) l in
  transform_forest cfg filled.

(* markup.parse(abbr, config): the children of the final Abbreviation *)
Definition markup_parse (cfg : mconfig) (abbr : str) : res (list anode) :=
  let env := mkCenv (mc_text cfg) (mc_variables cfg) (mc_href cfg) in
  let* tree := parse_abbr (mc_jsx cfg) env (mc_max_repeat cfg) abbr in
  let* resolved := walk_resolve (S (length (mc_snippets cfg))) cfg [] tree in
  transform_list cfg resolved.
